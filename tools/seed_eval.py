#!/usr/bin/env python3
"""Confirm a seeded change (demo passes without / fails with it, in a scratch worktree), run the registered check against it in
/repo (apply, check, undo) and record the outcome under /verif/seeded/<id>/.

usage: tools/seed_eval.py <dir with patch.diff demo.py notes.md> <seed id> <property id> [more property ids...]
"""
import json
import os
import shutil
import subprocess
import sys
import time
from pathlib import Path

VERIF = Path(__file__).resolve().parent.parent
PKGS = ['cirq-core', 'cirq-google', 'cirq-ionq', 'cirq-aqt', 'cirq-pasqal']


def sh(cmd, **kw):
    return subprocess.run(cmd, shell=True, capture_output=True, text=True, **kw)


def run_demo(root, demo):
    env = dict(os.environ, PYTHONDONTWRITEBYTECODE='1', PYTHONPATH=':'.join(f'{root}/{p}' for p in PKGS))
    p = subprocess.run(['/venv/bin/python', '-W', 'ignore', str(demo)], cwd='/tmp', env=env, capture_output=True, text=True, timeout=600)
    return p.returncode, (p.stdout + p.stderr)[-1500:]


def main():
    src, seed_id, props = Path(sys.argv[1]), sys.argv[2], sys.argv[3:]
    out = VERIF / 'seeded' / seed_id
    out.mkdir(parents=True, exist_ok=True)
    for f in ('patch.diff', 'demo.py', 'notes.md'):
        if (src / f).exists():
            shutil.copy(src / f, out / f)
    meta = {'seed': seed_id, 'breaks_property': props[0], 'checked_against': props, 'source': 'independent sub-agent given only the property text'}
    wt = f'/tmp/wt_verify_{seed_id}'
    sh(f'git -C /repo worktree remove --force {wt}')
    r = sh(f'git -C /repo worktree add -q --detach {wt} HEAD')
    assert r.returncode == 0, r.stderr
    try:
        rc0, o0 = run_demo(wt, out / 'demo.py')
        ra = sh(f'git -C {wt} apply {out / "patch.diff"}')
        rc1, o1 = run_demo(wt, out / 'demo.py')
        meta['confirmed'] = {'demo_exit_clean': rc0, 'patch_applies': ra.returncode == 0, 'demo_exit_patched': rc1, 'demo_tail_patched': o1[-600:]}
    finally:
        sh(f'git -C /repo worktree remove --force {wt}')
    ok = rc0 == 0 and ra.returncode == 0 and rc1 != 0
    meta['confirmed']['ok'] = ok
    results = {}
    if ok:
        assert sh('git -C /repo status --porcelain').stdout.strip() == '', '/repo not clean'
        r = sh(f'git -C /repo apply {out / "patch.diff"}')
        assert r.returncode == 0, r.stderr
        try:
            for pid in props:
                t0 = time.time()
                p = sh(f'./check {pid} --tier quick', cwd=VERIF, timeout=3600)
                lines = [l for l in p.stdout.splitlines() if l.startswith('VIOLATION') or l.startswith('KNOWN') or l.startswith('[')]
                results[pid] = {'exit': p.returncode, 'lines': lines[-8:], 'wall_s': round(time.time() - t0, 1)}
                if p.returncode == 2:
                    results[pid]['stderr_tail'] = p.stderr[-800:]
        finally:
            sh('git -C /repo checkout -- .')
            # restore generated files / evidence to the clean-tree state
    meta['check_results'] = results
    meta['caught_by'] = [pid for pid, r in results.items() if r['exit'] == 1]
    if (src / 'notes.md').exists():
        meta['needs_to_manifest'] = (src / 'notes.md').read_text()[:1500]
    (out / 'meta.json').write_text(json.dumps(meta, indent=1))
    print(json.dumps({k: meta[k] for k in ('seed', 'confirmed', 'caught_by')}, indent=1)[:1500])
    for pid, r in results.items():
        print(pid, r['exit'], r['lines'][-3:])


if __name__ == '__main__':
    main()
