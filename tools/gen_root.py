#!/usr/bin/env python3
"""Regenerates lean/CirqVerif.lean: the root imports every Props / Obligations module so that the
manifest's setup_cmd (`lake build CirqVerif driver`) pre-builds everything the checks need."""
from pathlib import Path

ROOT = Path(__file__).resolve().parent.parent / 'lean'
mods = []
for sub in ('Props', 'Obligations'):
    for f in sorted((ROOT / 'CirqVerif' / sub).glob('*.lean')):
        mods.append(f'CirqVerif.{sub}.{f.stem}')
(ROOT / 'CirqVerif.lean').write_text(''.join(f'import {m}\n' for m in mods))
print('\n'.join(mods))
