#!/usr/bin/env python3
"""Regenerates the tables of DESIGN.md §8.2 / §8.4 (between the GENERATED markers) from known_findings.json and seeded/*/meta.json."""
import json
import re
import subprocess
from pathlib import Path

ROOT = Path(__file__).resolve().parent.parent


def first_line(path):
    try:
        for ln in path.read_text().splitlines():
            ln = ln.strip('# ').strip()
            if ln:
                return ln
    except OSError:
        pass
    return ''


def main():
    kf = json.loads((ROOT / 'known_findings.json').read_text())
    lst = kf['findings'] if isinstance(kf, dict) else kf
    subj = {}
    for ln in subprocess.run('git -C /repo log --format=%h%x09%s', shell=True, capture_output=True, text=True).stdout.splitlines():
        h, _, s = ln.partition('\t')
        subj[h[:7]] = s
    out = ['<!-- GENERATED:findings (tools/gen_design_tables.py) -->', '',
           'Repaired by minimal `fix:` commits in /repo (each run against upstream\'s own tests of the touched package; the pinned baseline still passes 2478 tests) '
           'and recorded `fixed:` in `known_findings.json`. The signature is the check signature that fires when the fix is reverted.', '',
           '| property | signature | commit | what failed |', '|---|---|---|---|']
    for e in lst:
        if e['status'] == 'fixed':
            what = re.sub(r'^fixed: property=\S+ \S+ ', '', e['what']).replace('|', '\\|')
            out.append(f"| {e['property']} | `{e['signature']}` | {e.get('commit', '')} | {what[:330]} |")
    out += ['', 'Known findings (genuine, not repaired — reason given; printed as `KNOWN-FINDING`, exit 0):', '']
    for e in lst:
        if e['status'] == 'known':
            out.append(f"* **{e['property']} `{e['signature']}`** — {e['what'][:700]}")
    out += ['', '<!-- /GENERATED:findings -->']
    seeds = ['<!-- GENERATED:seeds (tools/gen_design_tables.py) -->', '',
             '| seed | breaks | change (from the sub-agent\'s notes) | caught by (quick tier) |', '|---|---|---|---|']
    for d in sorted((ROOT / 'seeded').iterdir()):
        mp = d / 'meta.json'
        if not mp.exists():
            continue
        m = json.loads(mp.read_text())
        title = first_line(d / 'notes.md')[:160].replace('|', '\\|')
        caught = ', '.join(m.get('caught_by', [])) or '— (missed)'
        sigs = []
        for pid, r in m.get('check_results', {}).items():
            for ln in r.get('lines', []):
                mm = re.search(r'replays/(\S+?)_\d+\.json', ln)
                if mm:
                    sigs.append(mm.group(1))
        seeds.append(f"| {m['seed']} | {m['breaks_property']} | {title} | {caught}{(': ' + ', '.join(sorted(set(sigs))[:3])) if sigs else ''} |")
    seeds += ['', '<!-- /GENERATED:seeds -->']
    text = (ROOT / 'DESIGN.md').read_text()
    for name, block in (('findings', out), ('seeds', seeds)):
        pat = re.compile(rf'<!-- GENERATED:{name}.*?<!-- /GENERATED:{name} -->', re.S)
        assert pat.search(text), name
        text = pat.sub(lambda _: '\n'.join(block), text)
    (ROOT / 'DESIGN.md').write_text(text)


if __name__ == '__main__':
    main()
