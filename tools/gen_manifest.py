#!/usr/bin/env python3
"""Regenerates MANIFEST.json from the table below (keeps the manifest valid and in one place)."""
import json
from pathlib import Path

ROOT = Path(__file__).resolve().parent.parent
ALL = [f'C{i:02d}' for i in range(1, 21)]

# property -> (level text, level note, technique, design section)
CHECKS = {
    'C07': (
        'Lean 4 theorems over all mappings and action sequences: the routing bookkeeping (MappingManager: logical->physical and physical->logical arrays) keeps the '
        'two arrays mutually inverse permutations under apply_swap (C07_applySwap_inv) and hence under every sequence of router actions (C07_route_inv); the physical '
        'events a router emits — operations placed at the current places of their qubits, SWAP insertions — read back from the initial mapping by un-mapping operations and '
        'tracking SWAPs are exactly the logical operations in placement order, ending in the reported mapping (C07_replay_route). T2: RouteCQC.route_circuit on generated '
        'circuits x connected device graphs (lines, rings, grids, trees, extra edges) x lookahead radii x initial mappers: two-qubit operations on graph edges only; the routed '
        'circuit read back by the Lean replay lists the original operations in an order respecting every qubit (C06 check, so C06_reordering_preserves_state applies) and ends '
        'in the reported swap map; numerically the routed circuit followed by the inverse permutation equals the mapped original (Lean C01 product). Target gatesets (CZ, '
        'partial CZ, sqrt-iSWAP incl. required count, Sycamore, Google CZ, IonQ QIS / Aria / Forte, AQT, Pasqal): output accepted by the gateset and equal up to global phase '
        '(Lean C01 product). AQT / IonQ / Pasqal devices: validate_operation accepts only gateset members on device qubits and accepts every such operation (AQT, IonQ). '
        'Props.C07Timesteps (Model/C07Timesteps): the factoring of a circuit into timesteps that RouteCQC routes by keeps, for every circuit, each operation strictly after every earlier two-qubit operation it '
        'conflicts with (shared qubit, measurement key written / read) and not before any earlier one-qubit operation on a shared qubit or key (C07_timesteps_respect_dependencies, invariant by induction over '
        'the operations; C07_layout_is_assignment ties the timesteps to the layout returned); the timesteps stream compares both lists of timesteps of the implementation with the model exactly, and routing of '
        'measured / classically controlled circuits is read back with keys as wires.',
        'Trusted: Lean kernel; harness + drivers; the SWAP matrix (C03) links SWAP events to SWAP operations; gateset membership and device metadata read from the library; '
        'compilation correctness itself is T2 (numerical, through the Lean product); GridDevice is covered by C16; directed device graphs are not covered.',
        'Lean 4 proof (array-permutation invariant by induction over swap sequences; replay theorem) + differential correspondence',
        'DESIGN.md §3 C07',
    ),
    'C06': (
        'Lean 4 theorems over all operation lists: two lists with the same distinct operations and the same order on every wire (qubits, measurement and control '
        'keys) differ by exchanges of adjacent independent operations (C06_same_wire_order_is_swaps: the projection lemma of trace theory, by induction on the first '
        'list with the bubbling lemma); such exchanges preserve every semantics in which independent operations commute (C06_swaps_preserve_semantics), in particular '
        'the state computed by the tensor action of C01 for any commutative ring of amplitudes (C06_reordering_preserves_state via C01_apply_comm); the executable '
        'check run on real outputs implies the hypothesis (C06_check_sound). T2: the structure-only transformers (align_left / align_right / drop_empty_moments / '
        'synchronize_terminal_measurements / stratified_circuit) must pass that check on generated circuits with uniquely tagged operations — the theorem then covers '
        'their output — and must not change any operation; the rewriting transformers (expand_composite, eject_z, eject_phased_paulis, the single-qubit and k-qubit merging '
        'passes, drop_negligible_operations, optimize_for_target_gateset for CZ / sqrt-iSWAP, unroll_circuit_op, add_dynamical_decoupling, defer_measurements) are compared '
        'by the Lean reference semantics: ordered product up to global phase (C01) or exact joint record distribution (C02); tags_to_ignore, deep and argument purity are '
        'checked on the objects; an equal circuit with the operations of every moment listed in reverse must have the same distribution (moment-order independence). '
        'Props.C06Rules: the commutation rules the phase-ejecting passes rely on, proved on the documented matrices for every exponent over any commutative ring with a lawful phase map '
        '(Z**a through PhasedX lowers the phase exponent, Z**a is absorbed by PhasedXZ, Z powers commute with CZ**t and change sides through swap-like gates, a Z**a after a pending pi pulse '
        'moves its axis by a/2, a Pauli X passes CZ**t by inverting it and leaving Z**t on the other qubit); the rule stream checks that eject_z / eject_phased_paulis emit exactly those right-hand sides.',
        'Trusted: Lean kernel; harness + drivers; the abstraction of an operation to the wires it touches; cirq.unitary(op) (C03) and unroll_circuit_op (C12); rewriting '
        'transformers are T2 only; gauge compiling, randomized measurements, qubit management, lightcone and symbolize transformers are not covered yet (partial).',
        'Lean 4 proof (trace-theory projection lemma + commutation) + differential correspondence through the Lean reference semantics',
        'DESIGN.md §3 C06',
    ),
    'C15': (
        'Lean 4 theorems for every unit q > 0 and every integer vector (every rational multiple of pi/4): the normalisation of KAK interaction coefficients '
        '(kak_canonicalize_vector: canonical shifts in closed form, three conditional swaps, two conditional double negations, the final shift of z and the boundary '
        'fix) returns coefficients with 0 <= |z| <= y <= x <= pi/4 and z >= 0 when x = pi/4 (C15_canonicalize_canonical), reaches them by symmetry moves only — shifts by '
        'multiples of pi/2, double negations, swaps (C15_canonicalize_move), leaves canonical vectors unchanged (C15_canonical_fixed) and is idempotent '
        '(C15_canonicalize_idempotent); on the face x = pi/4 the flip (x, y, z) -> (pi/2 - x, y, -z) is a composition of those moves (C15_flip_move), an involution, and the '
        'canonical form of a vector with z < 0 (C15_face_identifies); one unit below the face such a vector is its own canonical form (C15_below_face_fixed), and flipping it '
        'brings the two representatives back within one unit (C15_flip_repairs_face_jump: the discontinuity behind the repaired four-FSim defect); lemmas cshift_range / '
        'cshift_congr / sort3_spec. T2: unitaries at every distance 1e-11 .. 1e-5 from the faces and corners of the chamber; decompose_cphase_into_two_fsim (exact);  cirq.kak_canonicalize_vector on all small integer vectors (all chamber '
        'boundaries) against the model and its local-gate identity; kak_decomposition / kak_vector / kron factoring / single-qubit angle, axis-angle, Pauli-rotation, '
        'PhasedXZ forms / map_eigenvalues; synthesis into <= 3 CZ (partial or not), sqrt-iSWAP (required counts), 4 FSim, MS, Sycamore; two-qubit state preparation; '
        'three-qubit and Shannon synthesis; multi-controlled rotations; Clifford-tableau synthesis — products of returned operations computed by the Lean reference '
        'interpreter and compared with the input, with gate counts and gate kinds.',
        'Trusted: Lean kernel; harness + drivers; the model is exact arithmetic (atol = 0) on rational multiples of pi/4, real inputs are reached by density; numpy '
        'linear algebra for reference matrices; all routines other than the coefficient normalisation are T2 only (floating-point linear algebra is not modelled).',
        'Lean 4 proof (case analysis + linear integer arithmetic over all inputs) + differential correspondence and reconstruction checks',
        'DESIGN.md §3 C15',
    ),
    'C11': (
        'Lean 4 theorem for every value tree: the shared-object mechanism of the JSON format (VAL / REF markers: the key of a SerializableByKey object is taken '
        'before its contents are written, equal objects met later become references, the reader registers a value when its JSON object closes) round-trips — '
        'readJson (toJson v) = some v for all v, any nesting, shared objects inside shared objects, any number of occurrences (C11_roundtrip; state-threaded induction '
        'with the invariant that an unresolved key belongs to an enclosing, strictly larger object, so no reference to it can be emitted); a second occurrence is '
        'always a reference (C11_second_occurrence_is_ref). T2: for generated nestings of real frozen circuits the markers of the text cirq.to_json emits, in '
        'document order, must equal those of the model applied to the tree of _json_dict_ values; the value-level clauses are evaluated on an instance pool (every '
        'stored example of the five packages + generated gates / tagged operations / circuits / circuit operations / sweeps / results / symbolic values, alone and nested '
        'in lists, tuples and dicts): read(write(x)) == x with equal hash, eval(repr(x)) == x, deepcopy and pickle equal with equal hash; every stored .json / '
        '.json_inward document reads to the value of its .repr; qid comparisons are total orders consistent with equality and hashing.',
        'Trusted: Lean kernel; harness + driver; python json / pickle / copy modules; the abstraction of objects to trees of _json_dict_ values; == of the library; '
        'the per-class _json_dict_ / _from_json_dict_ pairs are covered by T2 on the instance pool only (no per-class Lean model).',
        'Lean 4 proof (state-threaded structural induction over value trees) + differential correspondence on emitted documents and an instance pool',
        'DESIGN.md §3 C11',
    ),
    'C17': (
        'Lean 4: Spec/Vendor.lean transcribes the vendors\' gate definitions (IonQ QIS gates generic in angle / amplitude types, IonQ native GPI / GPI2 / MS / ZZ, '
        'AQT R / MS / Z) and the little-endian outcome encoding. Props.C17: exact kernel-decided identities of the QIS gates in Q(zeta_8) (matrices of h, y, t, v; '
        'v*v = x, v*vi = 1, s*s = z, t*t = s, h*h = 1, rx(pi) = -iX, ry(pi), rz(pi), rx(pi/2)^2 = rx(pi), v = e^{i pi/4} rx(pi/2), xx/yy/zz(pi) = -i P(x)P; an unknown '
        'name is an error) and, for every register width and outcome, decoding the little-endian integer of a bit assignment returns the assignment and conversely '
        '(C17_leBits_leValue, C17_leValue_leBits: every outcome goes to the right qubit). Props.C17b: the QIS gates the serializer writes for X / Y / Z / XX / YY / ZZ powers (rx, ry, rz, xx, yy, zz at '
        'rotation pi*t), evaluated symbolically with the vendor definitions, equal the documented Cirq matrices with global shift -1/2 for EVERY exponent (C17_rule_*; any commutative ring with a lawful phase '
        'map, instantiated for C in NonVacuity/ComplexModel); the rule stream checks that the serializer writes exactly those names and rotations. T2: the payload produced by cirq_ionq.Serializer (QIS and native gate sets, '
        'single and many-circuit jobs) and by the AQT sampler\'s JSON generator is interpreted gate by gate with those definitions by the compiled Lean interpreter '
        'and compared, up to global phase, with the Lean ordered product of the circuit\'s operation matrices (C01); measurement metadata is compared with the keys and '
        'targets of the circuit; cirq_ionq.Job.results().to_cirq_result() on little-endian histograms (QPU and simulator) is compared with the model of the encoding.',
        'Trusted: Lean kernel; harness + driver; Spec/Vendor.lean as transcription of the public gate documentation (IonQ pauliexp included: single-term exponentials); the field names of the vendor '
        'payloads are those the serializers emit (e.g. the native zz gate carries its angle as "phase", as pinned by the package\'s tests; the vendor API cannot be consulted offline); HTTP layers, Pasqal payloads '
        'and vendor-side parameter ranges are not modelled; parameterised gates are exercised on floats only.',
        'Lean 4 proof (kernel-decided exact gate identities; induction for the outcome encoding) + differential correspondence on real payloads',
        'DESIGN.md §3 C17',
    ),
    'C16': (
        'Lean 4 theorems for every length / table: bit packing round-trips for every number of repetitions (C16_unpack_pack, by induction over '
        'byte chunks with the little-endian byte lemma bitsLE_byteLE), a key\'s records (repetitions x instances x qubits) stored as one packed '
        'column per qubit read back unchanged (C16_fromCols_toCols, C16_decode_encode), and for the shared constants table of the program format: '
        'the position handed out for a constant holds that constant (C16_intern_resolves), interning never moves earlier entries '
        '(C16_intern_extends), a constant is never stored twice (C16_intern_nodup) and resolving the positions handed out for any sequence of '
        'constants against the final table returns exactly that sequence (C16_internAll_resolves: shared constants never mix up operations). T2: '
        'pack_bits / unpack_bits / results_to_proto bytes against the model; results_from_proto round trip incl. reordered measurement info; every '
        'serialized program\'s constants table against the interning model; circuits over the serializable vocabulary (numeric / symbolic arguments, '
        'tags, internal gates, classical controls, nested circuit operations, multi-program form), sweeps (float32 / float64, run contexts) and '
        'device specifications round-tripped through the real protos and compared by an oracle that does not use the serializer; validate_operation '
        'decisions against the specification.',
        'Trusted: Lean kernel; harness + driver; protobuf library; the structural round-trip oracle (1e-6 relative tolerance, global phase); the '
        'program / sweep / device round trips are T2 only (no Lean model of the message trees); v1 formats, calibration messages and engine_result '
        'wrappers are not covered.',
        'Lean 4 proof (induction over bit lists, record tables and interning sequences) + differential correspondence on real protos',
        'DESIGN.md §3 C16',
    ),
    'C19': (
        'Lean 4: Spec/Qasm.lean transcribes qelib1.inc / stdgates.inc — every library gate expanded into the built-ins U(theta,phi,lambda) and CX — '
        'polymorphically in the angle and amplitude types. Props.C19 evaluates the same definitions exactly (angles in units of pi/4, amplitudes in '
        'Q(zeta_8)) and the kernel decides that x, y, z, h, s, sdg, t, tdg, id, sx, sxdg, cx (both argument orders), cz, cy, swap, ch, ccx (15-gate '
        'Clifford+T expansion = Toffoli), cswap and rx/ry/rz/cu1/crz at representable angles denote their textbook matrices (C19_qelib_*); an '
        'undefined name is an error, never the identity (C19_undefined_gate); stdgates.inc has no sxdg (C19_stdgates3_no_sxdg); classical registers '
        'are little-endian integers and writing a bit changes exactly that bit (C19_creg_value, C19_setBit_get, C19_setBit_other). Props.C19b: the parametric '
        'spellings Cirq prints, expanded symbolically by the same expandGate with angles in half turns, equal the documented matrices of Spec/GateDocs for EVERY parameter value over any '
        'commutative ring with a lawful phase map: rx(pi*t) = Rx / X**t, ry(pi*t) = Y**t, rz(pi*t) = u1 = Z**t, ry(pi/4) rx(pi*t) ry(-pi/4) = H**t, u3(-t, p+1/2, -p-1/2) and the u2 spellings at '
        'exponent +-1/2 = PhasedX(t, p), and QasmUGate\'s Rz Ry Rz decomposition with its phase correction = U(theta, phi, lambda) (C19_emit_*, C19_qasm_u_gate); '
        'NonVacuity/ComplexModel.lean (the only file importing Mathlib) proves that R, C with e^{i pi x} satisfy the hypotheses (Lawful, LawfulQ, LawfulQ8, Lawful2); the emission stream '
        'checks that Cirq prints exactly those spellings. T2: '
        'Circuit.to_qasm text (both versions, random qubit_order and precision) is read by an independent syntactic reader and interpreted by the '
        'compiled Lean semantics; its unitary must equal, up to global phase and within the requested precision, the Lean ordered product of the '
        'circuit\'s operation matrices (C01), and for measured circuits (invert masks, repeated keys, classical controls, resets) the joint '
        'distribution of the classical registers must equal that of the last record of each key under the Lean branching semantics (C02).',
        'Trusted: Lean kernel; harness/qasm_reader.py (syntax) + harness + driver; Spec/Qasm.lean as transcription of qelib1.inc (Qiskit-extended) '
        'with the OpenQASM matrices of U and CX and Spec/GateDocs as transcription of the docstrings; the multi-qubit decompositions Cirq falls back to (generic two-qubit powers, matrix gates) are '
        'exercised by T2 on floats only; T2 sees generated circuits only.',
        'Lean 4 proof (kernel-decided exact evaluation of the standard library; register laws) + differential correspondence through an independent reader',
        'DESIGN.md §3 C19',
    ),
    'C20': (
        'Lean 4 theorems over all schedules / fault sequences: Collector — in every state reachable by any order of job completions at most '
        '`concurrency` jobs are in flight, every started job is delivered or still running, no job is known (hence delivered) twice '
        '(C20_collector_invariants, induction over completions with a permutation ledger), when nothing runs the delivered jobs are exactly the '
        'started ones (C20_collector_exactly_once), and once the sample budget is used up no job starts (C20_collector_budget); stream client — '
        'for every sequence of stream breaks before / after the server processed a request and server replies the job is created at most once '
        '(C20_job_created_at_most_once), the retry table answers every error the server can give (C20_retry_table_total) and from any request in '
        'flight three fault-free exchanges return the result (C20_client_converges). T1: _get_retry_request_or_raise tabulated on every error '
        'code x request kind and kernel-decided equal to the Lean table. T2: the real Collector.collect driven in a thread by a fake sampler '
        '(every completion order of 3-4 jobs + random schedules with failures and budgets), the real StreamManager on its AsyncioExecutor against a '
        'scripted fake server through all fault scripts up to length 3/4, ResponseDemux under every publish order; PauliSumCollector driven to exhaustion (per-term budget, job cap, tags, estimate); '
        'EngineJob after a broken stream against a scripted unary server (re-created at most once and only when unknown, awaited for any number of status queries, result fetched once).',
        'Trusted: Lean kernel; harness + driver; duet / asyncio semantics; thread races inside one step, real gRPC transport, engine_client '
        'request paths and cancellation of polling are outside the model (partial).',
        'Lean 4 proof (invariants by induction over schedules and fault sequences) + kernel-decided retry table + trace correspondence',
        'DESIGN.md §3 C20',
    ),
    'C12': (
        'Lean 4 specification of unrolling nested circuit operations (repetitions incl. 0 and negative, qubit maps, key-name maps, repetition '
        'ids and parent paths as key scopes, binding of classical conditions) with theorems: the scoping pass neither drops, duplicates nor '
        'reorders operations (C12_scopePass_structure); every measurement key of the unrolled form is the written key prefixed by its scopes '
        '(C12_scopePass_mkeys); a condition binds to the measurement of the innermost enclosing scope in which the key has been recorded and '
        'otherwise stays external (C12_bind_innermost, C12_bind_external); zero repetitions unroll to nothing and |repetitions| copies '
        'otherwise (C12_reps_zero, C12_reps_length); qubit maps compose; which recorded measurements a condition may bind to (a measurement in an enclosing body or in '
        'an earlier sibling sub-circuit that adds no scope is visible, a scoped sibling and the other iterations of a loop are not: C12_enclosing_visible, '
        'C12_unscoped_sibling_visible, C12_scoped_sibling_not_visible, C12_other_iteration_not_visible, C12_same_body_visible); the terminal-measurement queries on the flat '
        'form (Model/C12Terminal) for a body repeated n >= 2 times answer as for two repetitions, and a body repeated zero times does not count '
        '(C12_all_terminal_two_repetitions, C12_any_terminal_two_repetitions, C12_terminal_zero_repetitions), instantiated with the unrolling specification: for a circuit '
        'containing a sub-circuit operation, r + 2 repetitions answer as two (C12_loop_terminal_two_repetitions; the justification of the cap in the repaired '
        'Circuit.are_all_matches_terminal). T2: generated nestings (depth 0..3) are built as real '
        'CircuitOperations; unroll_circuit_op(deep=True) must equal the specified flat list (ids, qubits, full keys, bound condition keys, '
        'inversion and order); key / qubit queries of the wrapped circuit equal those of the unrolled one; its unitary and its exact joint '
        'record distribution (all simulator branches enumerated) equal those of the specified unrolled circuit run by the Lean interpreter.',
        'Trusted: Lean kernel; harness + drivers; abstraction of operations to (id, qubits, key, KeyCondition list); parameter maps and '
        'repeat_until loops are not in the model; KNOWN FINDING unroll:unroll_circuit_op_greedy_frontier:key-dependency (see known_findings.json).',
        'Lean 4 proof about the unrolling specification + differential correspondence (structure, unitary, exact distributions)',
        'DESIGN.md §3 C12',
    ),
    'C10': (
        'Lean 4 theorems for every sweep built from Points, Linspace, ListSweep, UnitSweep by Product / Zip / ZipLongest / Concat (any nesting): '
        'len equals the number of assignments iteration yields (C10_len_eq_tuples), indexing with any integer incl. negatives equals the '
        'corresponding element of the iteration and raises outside the range (C10_getItem_eq, C10_getItem_ok), the leftmost product factor is '
        'the outermost loop, Zip stops at the shorter and ZipLongest runs to the longer operand repeating the last assignment '
        '(C10_extendTo_get), Linspace starts at start and ends at stop (C10_linspace_endpoints); for expression trees and resolver chains: '
        'one substitution pass commutes with evaluation (C10_subst_commutes) and whenever recursive resolution returns (no loop) its '
        'value equals the original expression under every assignment consistent with the bindings (C10_resolveRec_sound). T2: generated '
        'nested sweeps (len, keys, param tuples, every index, slices), sympy expression trees with resolver chains incl. cyclic ones '
        '(RecursionError), parameterised circuits: resolver chains, resolve-then-matrix, partial resolution, simulate_sweep, flatten.',
        'Trusted: Lean kernel; harness + driver; sympy number arithmetic; Pow and other sympy node types are outside the model; KNOWN '
        'FINDING circuit:flatten:subcircuit (see known_findings.json).',
        'Lean 4 proof (structural induction on sweeps and expressions) + differential correspondence',
        'DESIGN.md §3 C10',
    ),
    'C13': (
        'Kernel-decided obligations on tables regenerated from the running code on every run (exact Q(zeta_8) arithmetic, no sampling): for '
        'CliffordTableau.apply_x / apply_y / apply_z at exponents 1/2, 1, 3/2, apply_h, apply_cz and apply_cx the update of *every* row '
        'pattern (all (x,z,r) resp. (xc,zc,xt,zt,r)) is the signed Pauli U P U^dagger for the matrix U that cirq.unitary reports for the gate, '
        'and U is unitary (tableau_rule_<g>); _rowsum multiplies commuting row Paulis with the right sign (rowsum_is_product). Lean theorems: '
        'row patterns are Hermitian unitaries, Y = iXZ. T2: random Clifford circuits on 1..5 qubits: CliffordSimulator CH-form amplitudes incl. '
        'global phase against the Lean interpreter; tableau stabilizers stabilise that state and pair symplectically with the destabilizers; '
        'all 24 single-qubit Clifford gates (from_unitary, inverse, decompose, to_phased_xz_gate, all 576 merged_with, tableau round trip) and '
        'two-qubit Clifford elements built from op lists (from_op_list, inverse, powers, decompositions, tableau then / inverse).',
        'Trusted: Lean kernel; extractor + harness + driver; lifting of a row rule from the tabulated one/two-qubit patterns to n-qubit '
        'tableaux, CH-form update rules and tableau composition (`then`) are covered by T2 only (partial, see DESIGN.md); measurement branch '
        'probabilities of the Clifford simulator are checked under C02.',
        'kernel-decided exhaustive tables regenerated from the code (Lean 4, decide +kernel) + differential check',
        'DESIGN.md §3 C13',
    ),
    'C14': (
        'Lean 4 theorems for every number of qubits: the product of two Pauli strings computed with the single-qubit table (power of i '
        'included) acts on every computational basis state exactly as the composition of the two operators (C14_pauli_mul_hom, induction '
        'over the qubits); two strings commute, coefficients included, iff they anticommute on an even number of qubits (C14_commutes_iff); '
        'the 8-bit accumulation of per-qubit exponents masked with 3 is the exponent modulo 4 for every length (C14_dense_mul_phase); Props.C14b: over any commutative ring the n-th power of '
        'a*1 + sigma with sigma^2 = w*1 (the recurrence that is multiplication in the algebra) has the closed forms pow_pauli_combination uses when v^2 = w, and a^n, n*a^(n-1) when w = 0 '
        '(C14_pow_pauli_closed_form, C14_pow_pauli_degenerate, by induction on n); (a+v)^n = (a-v)^n alone does not select the degenerate branch (C14_pow_pauli_i4). T1: '
        'MutablePauliString._imul_atom_helper (all 32 cases) and _vectorized_pauli_mul_phase (all 16 cases) are tabulated from the running '
        'code on every run and kernel-decided equal to the product table (left product for sign +1, right product for sign -1). T2: products '
        'of PauliString / MutablePauliString / DensePauliString against the Lean product; negation, scalars, powers, sums, sum products, '
        'dense slicing, conjugated_by / after / before under random Clifford operation lists, PauliStringPhasor and its decomposition, '
        'PauliSumExponential, expectation values from state vectors, density matrices and the simulator under random qubit maps against '
        'matrices built by the harness.',
        'Trusted: Lean kernel; harness + driver; T2 laws other than product/commutation are decided per generated case against numpy '
        'matrices, not proved; in-place mutable operations are specified through the immutable product they implement (as the property says).',
        'Lean 4 proof (induction over qubits) + exhaustive kernel tables decided by the kernel + differential check',
        'DESIGN.md §3 C14',
    ),
    'C09': (
        'Lean 4 theorems: the Kraus-branch selection loop of the state-vector trajectory simulator (p -= weight; if p < 0: break) selects '
        'branch k exactly when the uniform draw lies in the k-th interval of the cumulative weights, for any non-negative weights '
        '(C09_select_iff over the rationals); the Choi <-> superoperator index reshuffle is an involution for every dimension '
        '(C09_reshuffle_involution); Props.C09b: the documented Kraus operators of bit_flip, phase_flip, amplitude_damp, phase_damp, asymmetric_depolarize, generalized_amplitude_damp and reset satisfy '
        'sum_k K_k^dagger K_k = 1 for every parameter whose weights add up to one (so the selection probabilities of C09_select_iff sum to one for every state), over any commutative ring with a conjugation '
        'fixing the square roots (C09_*_tp; hypotheses instantiated for C and every 0 <= p <= 1 in NonVacuity/ComplexModel); Props.C09c: the key InsertionNoiseModel chooses for an operation is a most specific matching key for every list of keys when "proper subtype" is a strict partial order (C09_insertion_key_minimal). The reference semantics (Spec.Circuit: one branch per Kraus operator, and independently the '
        'density-matrix evolution sum_k K rho K^dagger; the two are cross-checked on every case) is compared with DensityMatrixSimulator final '
        'states (validity: Hermitian, unit trace, positive), with the exact recombination of *all* state-vector trajectories enumerated '
        'through a symbolic uniform draw, with conversions Kraus / mixture / superoperator / Choi and back, and with noise-model simulation '
        'against simulating circuit.with_noise(model); run() with a noise model (one- and several-qubit measurements in any moment, terminal fast path or not, noise before or after) against the exact '
        'record distribution of the circuit the noise model produces (C02 reference semantics).',
        'Trusted: Lean kernel; harness + scripted PRNG + driver (T2 on generated circuits; tolerance 1e-6); Kraus operators come from cirq.kraus '
        '(C03); thermal / device-derived noise parameters are not modelled; KNOWN FINDING noise:prefix-split (see known_findings.json).',
        'Lean 4 proof (selection loop, reshuffle) + exact trajectory enumeration and density-matrix correspondence',
        'DESIGN.md §3 C09',
    ),
    'C02': (
        'Lean 4 theorems over any commutative ring, any register shape (qudits) and any axes: the unnormalised collapse onto a measurement '
        'outcome is the action of the projector |a><a| on the measured axes (C02_proj_is_operator); it commutes with every operation on '
        'disjoint qudits and with every other measurement (C02_measure_commutes_with_disjoint_op, C02_projections_commute: a terminal '
        'measurement can be sampled at once from the final state, a deferred one gives the same branches); outcomes are orthogonal and '
        'complete (C02_proj_orthogonal, C02_outcomes_complete: probabilities sum to one); repeated keys append records. The reference '
        'semantics Spec.Circuit.run (Born rule with collapse, confusion map before invert mask, repeated keys, KeyCondition / '
        'BitMaskKeyCondition feed-forward, qudits) is compared with the *exact* joint record distribution of Simulator (split on/off), '
        'DensityMatrixSimulator and CliffordSimulator obtained by enumerating every branch of their random draws through a scripted PRNG.',
        'Trusted: Lean kernel; harness + scripted PRNG + driver (T2 on generated circuits, tolerance 2e-6); RandomState.choice(p) picks k '
        'with probability p[k]; the invert mask on a qudit digit >= 2 follows the code (documentation speaks of qubits only); the Lean '
        'interpreter itself is a specification (its array projection is not yet proved equal to projFn).',
        'Lean 4 proof (projector algebra of the reference semantics) + exact branch-enumeration correspondence',
        'DESIGN.md §3 C02',
    ),
    'C04': (
        'Lean 4 theorems over any commutative ring, any register shape and any axis position: the in-place slicing kernels of '
        'XPowGate / YPowGate / ZPowGate / HPowGate._apply_unitary_ (two-slice updates incl. the sequence one-=zero; one*=-0.5; zero-=one; '
        '*=sqrt2) equal the action of the gate matrix on that axis (C04_kernel_X/Y/Z/H via sliceKernel2_eq); applying the sub-operation '
        'on the slices selected by the control values equals the controlled block matrix (C04_controlled_slice). Props.C04Rules: the _decompose_ patterns of the gate library multiplied out on the '
        'documented matrices for EVERY exponent, phase exponent and global shift (over any commutative ring with a lawful phase map; satisfied by C: NonVacuity/ComplexModel): PhasedX = Z**-p X Z**p, '
        'H**t = Y**1/4 X**t Y**-1/4 (and the exponent-1 pattern), PhasedXZ, CX**t = Y**-1/2 CZ**t Y**1/2, SWAP**t = CNOT CNOT**t(b,a) CNOT, the 8-gate ISWAP**t pattern, ZZ**t, XX**t, YY**t, FSim = XX YY CZ, '
        'PhasedISWAP, CY**t, CCX**t = H CCZ**t H, the 19-gate CCZ**t pattern with its global phase, and the extraction of a controlled sub-gate global shift as a Z power on the control for X, Z, CZ powers (C04_decompose_*, C04_controlled_shift_*); the decompose-rule stream checks that decompose_once yields exactly these patterns. T2: for generated '
        'gates and wrapper compositions (tags, with_qubits, double inverse, CircuitOperation, ParallelGate, qutrit gates) the reported '
        'matrix, apply_unitary on permuted / non-adjacent axes of 1..6-axis tensors with spectator axes of dimension 2/3/5 (operation- and '
        'gate-level), act_on of the state-vector simulation state, decompose_once / decompose (product taken by the Lean interpreter), '
        'kraus / mixture / superoperator and the has_* predicates are compared through the Lean action of the matrix.',
        'Trusted: Lean kernel; harness + driver; the matrix of each operation comes from cirq.unitary (C03); kernels other than X/Y/Z/H, '
        'density-matrix / Clifford act_on and ancilla decompositions are covered by T2 only.',
        'Lean 4 proof (kernel = matrix action, controlled slicing) + differential correspondence across protocols',
        'DESIGN.md §3 C04',
    ),
    'C08': (
        'Lean 4 theorems over any commutative ring: for orthogonal idempotent eigen-projectors (kernel-decided for the tables extracted from '
        'the running code, Obligations/C03) the matrices of G**t1 and G**t2 multiply to that of G**(t1+t2) and G**t G**-t is the identity, '
        'for all exponents and shifts (C08_eigen_powers_add, C08_eigen_inverse); ProductOfSums.expand denotes the product set '
        '(C08_cv_expand); a controlled operation acts as its target exactly on the basis states whose control digits are selected and '
        'as the identity elsewhere, for any control predicate, axes and qudit shape (C08_controlled_apply). T2: powers / inverses / '
        'powers of powers of 13 families; ControlledGate, controlled_by and controlled() shortcuts with ints / value sets / sums of '
        'products / qutrit controls / nesting against the Lean block matrix; phase_by against Z-conjugation through the Lean interpreter; '
        'commutes, ==, approx_eq, equal_up_to_global_phase (incl. exponents differing by candidate periods), has_stabilizer_effect and '
        'trace_distance_bound checked against the matrices.',
        'Trusted: Lean kernel; harness + drivers; predicate soundness (commutes / equality / stabilizer effect / trace-distance bound) '
        'and phase_by are decided per generated case, not proved for all inputs (named partial in DESIGN.md).',
        'Lean 4 proof (spectral calculus, control-value semantics, controlled action) + differential correspondence',
        'DESIGN.md §3 C08',
    ),
    'C03': (
        'Lean 4 theorems for all exponents t and global shifts s over any commutative ring with a lawful phase map (so over the complex '
        'numbers with the real exponential): the closed form printed in the docstring of XPowGate, YPowGate, ZPowGate, HPowGate, CZPowGate, '
        'ZZPowGate, SwapPowGate, XXPowGate, YYPowGate equals the eigen-decomposition sum_k e^{i pi t (theta_k + s)} P_k '
        '(C03_<Gate>_doc). T3 ties the (theta_k, P_k) tables to the running code: _eigen_components() of every EigenGate subclass (20 '
        'classes incl. Rx/Ry/Rz/MS/CCX/CCZ/ISWAP/PhasedISWAP) is extracted on every run into exact Q(zeta_8) Lean data and obligations are '
        're-decided by the kernel: projectors idempotent, orthogonal, complete, Hermitian, and equal to the table the documentation '
        'theorem is about. T2: cirq.unitary / cirq.kraus of 30 gate families, every named constant, diagonal/identity gates, IonQ and '
        'Google gates and 7 channels at special and random parameters against the transcription executed on floats.',
        'Trusted: Lean kernel; Spec/GateDocs.lean is a hand transcription of the docstrings; families without a doc theorem yet (CX, ISWAP, '
        'CCX/CCZ, FSim, PhasedX(Z), PhasedISwap, IonQ gates, channels, qudit X/Z) are covered by T2 (and projector obligations) only; '
        'the embedding Q(zeta_8) -> C is a ring monomorphism (standard, not formalised); float evaluation of sin/cos/exp for T2.',
        'Lean 4 proof (ring identities for all parameters) + kernel-decided obligations on tables regenerated from the code + differential check',
        'DESIGN.md §3 C03',
    ),
    'C01': (
        'Lean 4 theorems, for every commutative ring of amplitudes, every register shape (qubits and qudits), every circuit and '
        'initial state: the array interpreter the implementation is compared with computes the ordered product of the local '
        'operators (C01_interpreter_is_ordered_product, a refinement proof through the mixed-radix index bijection); operators on the '
        'same axes compose to the matrix product (C01_apply_comp); operators on disjoint wires commute (C01_apply_comm: order within '
        'a moment / prefix splitting is immaterial); application is linear in the initial state. Tie: every simulation entry point '
        '(Circuit.unitary, final_state_vector, cirq.final_state_vector, Simulator x dtype x split_untangled_states x {simulate, '
        'simulate_moment_steps per moment, simulate_sweep}, DensityMatrixSimulator, ClassicalStateSimulator) is run on generated '
        'circuits x qubit orders x initial-state forms and compared with the Lean interpreter fed the operations\' matrices.',
        'Trusted: Lean kernel; harness + driver; matrices come from cirq.unitary(op) (C03/C04 tie those to the documentation); CFloat '
        'execution and tolerance comparison (2e-5 complex64, 1e-7 complex128); models of the in-place kernels / buffer swapping are '
        'not yet proved equal to the matrix action (covered by T2 only).',
        'Lean 4 proof (refinement + algebra of local operators) + differential correspondence on simulation entry points',
        'DESIGN.md §3 C01',
    ),
    'C05': (
        'Lean 4 theorems over all circuits / op trees / indices / five strategies / cache states: Circuit.insert conserves the '
        'multiset of operations (C05_insert_conserve) and keeps every moment on disjoint qubits (C05_insert_wf); every history '
        'of public mutating calls (constructor, append, insert, insert_into_range, batch_*, clear, item assignment/deletion, *=) '
        'keeps the circuit well-formed (C05_history_wf, induction over the history); earliest_available_moment is exactly the '
        'documented backward scan (C05_earliest_available_spec); grouping into moment-compatible batches flattens to its input. '
        'concat_ragged (Model/C05Concat, Props/C05Concat), for all circuits and alignments: every operation is kept exactly once (C05_concat2_conserves, C05_concatRagged_conserves), the result has '
        'max(n1, n2, n1+n2-overlap) moments (C05_concat2_length), on every shared wire - qubit, measurement or control key - the first circuit stays strictly before the second (C05_concat2_order), '
        'no moment gets two operations on a qubit (C05_concat2_wf, C05_concatRagged_wf) and the overlap is maximal (C05_concat2_maximal); the concat stream compares the exact moment layout of '
        'Circuit / FrozenCircuit.concat_ragged (static, bound, mixed arguments, every spelling of align) with the model; Circuit.zip likewise (C05_zip_wf, C05_zip_length, C05_zip_conserves). '
        'The moment look-ups (Props/C05Lookup): next_moment_operating_on returns the first moment from the start index on that touches the qubits and nothing exactly when there is none '
        '(C05_next_moment_spec, C05_next_moment_none), prev_moment_operating_on the last one before the end index (C05_prev_moment_spec), and with max_distance the same answer when it lies '
        'inside the window counted from the start / end index itself, also past the end of the circuit (C05_next_moment_within, C05_prev_moment_within). '
        'The model mirrors Circuit.insert & co. and is tied to cirq.Circuit by history-driven differential correspondence; the '
        'ordering clauses of the property (existing / inserted / after-prefix / before-suffix with the stated EARLIEST exception) '
        'and the cached summaries are evaluated on the implementation\'s own circuits after every call by a Lean specification '
        'checker (not yet proved of the model for all inputs).',
        'Trusted: Lean kernel; harness + driver (T2 sees generated histories only: ~1.2k quick / 56k thorough incl. all single-insert '
        'histories over a 6-op alphabet); abstraction of operations to (id, qubits, measurement keys, control keys); order clauses '
        'are checked per history, not proved.',
        'Lean 4 proof (induction over op trees and call histories) + differential correspondence on edit histories',
        'DESIGN.md §3 C05',
    ),
    'C18': (
        'Lean 4 theorems for every width and mixed radix: digits<->int and bits<->int are mutual inverses, the binary fast '
        'path equals long division, out-of-range inputs are rejected exactly, bit packing round-trips for every length, '
        'data-frame cells / histograms / records<->measurements / result addition are the stated functions of the record '
        'table. The executable Lean model is tied to cirq.value.digits, cirq.study.result by differential correspondence on '
        'generated inputs (0..130-bit values, 0..70 qubits, qudit digits, repeated keys, malformed stream). The shapes the samplers report for '
        'circuits with sub-circuit operations are read off the unrolling specification (Model.C12.recordShapes; C12_instances_repeated: a body repeated n times '
        'records each of its keys n times as often; C12_loop_instances: the same for the loops of the specification without repetition ids, whose full keys do not depend on the iteration) for generated nestings, at zero and at two repetitions.',
        'Trusted: Lean kernel; harness + driver (T2 sees generated inputs only); numpy/pandas container semantics. Sampler '
        'entry points are compared against the model of the base class with a counting fake sampler.',
        'Lean 4 proof (induction over digit lists) + differential correspondence model/implementation',
        'DESIGN.md §3 C18',
    ),
}

NOT_YET = 'check not built yet in this revision (see DESIGN.md build order); not claimed'


def main():
    checks = []
    for pid in ALL:
        if pid not in CHECKS:
            continue
        text, note, tech, ref = CHECKS[pid]
        checks.append(
            {
                'property_id': pid,
                'quick_cmd': f'./check {pid} --tier quick',
                'thorough_cmd': f'./check {pid} --tier thorough',
                'evidence_file': f'evidence/{pid}.json',
                'replay_cmd_template': f'./check {pid} --replay {{path}}',
                'engine': 'lean4-proof+correspondence',
                'level_claimed': {'category': 'proof', 'text': text, 'design_ref': ref},
                'level_note': note,
                'technique': tech,
            }
        )
    man = {
        'version': 1,
        'setup_cmd': 'cd lean && lake build CirqVerif driver NonVacuity',
        'hooks': {
            'guard': 'CIRQ_VERIF',
            'enable': 'no source hooks: checks import /repo working-tree packages in-process (PYTHONPATH) and observe public APIs',
            'baseline_off_cmd': 'cd /repo && /venv/bin/python -m pytest -ra -q -p no:cacheprovider --timeout=900 --continue-on-collection-errors',
            'source_commits': [],
            'add_only': True,
        },
        'engines': [
            {
                'name': 'lean4-proof+correspondence',
                'path': 'check',
                'serves_properties': sorted(CHECKS),
                'kind_free_text': 'Lean 4 theorems about executable models (lean/CirqVerif), tied to /repo by regenerated tables and by a '
                'differential line-protocol correspondence (harness/ vs lean/Driver)',
            }
        ],
        'checks': checks,
        'not_applicable': [{'property_id': p, 'reason': NOT_YET} for p in ALL if p not in CHECKS],
        'notes': 'See DESIGN.md. Fix commits in /repo and known findings are listed in known_findings.json.',
    }
    (ROOT / 'MANIFEST.json').write_text(json.dumps(man, indent=1) + '\n')


if __name__ == '__main__':
    main()
