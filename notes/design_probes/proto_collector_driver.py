import sys, threading, queue, itertools, time
sys.path[:0]=['/repo/cirq-core']
import cirq, duet, numpy as np
q=cirq.LineQubit(0)
class FakeSampler(cirq.Sampler):
    def __init__(self,events): self.futs={}; self.events=events; self.n=0
    async def run_async(self,program,*,repetitions):
        i=self.n; self.n+=1
        f=duet.AwaitableFuture(); self.futs[i]=f
        self.events.put(('start',i,repetitions))
        return await f
    def run_sweep(self,*a,**k): raise NotImplementedError
class Col(cirq.Collector):
    def __init__(self,jobs,events): self.jobs=list(jobs); self.events=events
    def next_job(self):
        j=self.jobs.pop(0) if self.jobs else None
        self.events.put(('next_job',None if j is None else (j.repetitions if isinstance(j,cirq.CircuitSampleJob) else 'tree')))
        return j
    def on_job_result(self,job,result): self.events.put(('result',job.tag))
def run(order,njobs=4,conc=2,budget=None):
    ev=queue.Queue()
    jobs=[cirq.CircuitSampleJob(cirq.Circuit(cirq.measure(q,key='m')),repetitions=10+i,tag=i) for i in range(njobs)]
    s=FakeSampler(ev); c=Col(jobs,ev)
    done=[]
    def target():
        try: c.collect(s,concurrency=conc,max_total_samples=budget); done.append('ok')
        except Exception as e: done.append(repr(e))
        ev.put(('end',))
    th=threading.Thread(target=target); th.start()
    trace=[]
    def drain(timeout=0.2):
        while True:
            try: e=ev.get(timeout=timeout)
            except queue.Empty: return
            trace.append(e)
            if e[0]=='end': return
    drain()
    for step in order:
        running=[i for i,f in s.futs.items() if not f.done()]
        if not running: break
        i=running[step%len(running)]
        s.futs[i].set_result(cirq.ResultDict(params=cirq.ParamResolver({}),measurements={'m':np.zeros((1,1),dtype=int)}))
        trace.append(('complete',i))
        drain()
    th.join(timeout=2)
    return trace,done
t0=time.time()
tr,d=run([1,0,0,0,0,0])
print(d); print(tr)
tr,d=run([0,0,0,0,0,0],budget=25)
print(d); print(tr)
print(time.time()-t0)
