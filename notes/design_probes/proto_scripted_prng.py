import sys, itertools
sys.path[:0]=['/repo/cirq-core']
import numpy as np, cirq
class Scripted(np.random.RandomState):
    def __init__(self, script):
        super().__init__(0); self.script=list(script); self.log=[]; self.pos=0
    def _next(self,n):
        v=self.script[self.pos] if self.pos<len(self.script) else 0
        self.pos+=1; return v % n if n else v
    def choice(self,a,size=None,replace=True,p=None):
        n=a if isinstance(a,int) else len(a)
        pv=None if p is None else tuple(np.round(np.asarray(p,dtype=float),9))
        if size is None:
            k=self._next(n); self.log.append(('choice',n,pv,k)); return k if isinstance(a,int) else a[k]
        ks=[self._next(n) for _ in range(int(np.prod(size)))]
        self.log.append(('choice*',n,pv,tuple(ks))); return np.array(ks).reshape(size)
    def random(self,size=None):
        v=self._next(0); self.log.append(('random',v)); return float(v)
    def randint(self,low,high=None,size=None,dtype=int):
        n=low if high is None else high-low
        k=self._next(n); self.log.append(('randint',n,k)); return k+(0 if high is None else low)
q=cirq.LineQubit.range(2)
c=cirq.Circuit(cirq.H(q[0]),cirq.CNOT(q[0],q[1]),cirq.measure(q[0],key='a'),cirq.X(q[1]).with_classical_controls('a'),cirq.measure(q[1],key='b'))
for script in itertools.product([0,1],repeat=2):
    p=Scripted(script)
    r=cirq.Simulator(seed=p,dtype=np.complex128).run(c,repetitions=1)
    print(script,{k:v.tolist() for k,v in r.records.items()},p.log)
p=Scripted([1,0,3])
r=cirq.Simulator(seed=p).run(cirq.Circuit(cirq.H(q[0]),cirq.measure(*q,key='m')),repetitions=3); print(r.records, p.log)
p=Scripted([1,0])
r=cirq.DensityMatrixSimulator(seed=p).run(c,repetitions=1); print(r.records,p.log)
p=Scripted([1,0])
r=cirq.CliffordSimulator(seed=p).run(c,repetitions=1); print(r.records,p.log)
p=Scripted([0.3])
s=cirq.Simulator(seed=p,dtype=np.complex128).simulate(cirq.Circuit(cirq.H(q[0]),cirq.amplitude_damp(0.3)(q[0]))); print(np.round(s.final_state_vector,4),p.log)
