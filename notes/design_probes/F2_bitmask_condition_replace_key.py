import sys
sys.path[:0]=['/repo/cirq-core']
import cirq, numpy as np
c=cirq.BitMaskKeyCondition('a',bitmask=2,target_value=2,equal_target=True,index=0)
print(c, '->', c.replace_key(cirq.MeasurementKey('a'),cirq.MeasurementKey('b')))
k=cirq.KeyCondition(cirq.MeasurementKey('a'),index=0)
print(repr(k.replace_key(cirq.MeasurementKey('a'),cirq.MeasurementKey('b'))))
q=cirq.LineQubit.range(3)
inner=cirq.FrozenCircuit(cirq.X(q[0]),cirq.measure(q[0],q[1],key='a'),cirq.X(q[2]).with_classical_controls(c))
# (a & 2)==2 : a = 0b10 =2 -> q0 bit is MSB => true -> X on q2 -> measure q2 = 1
flat=cirq.Circuit(inner, cirq.measure(q[2],key='out'))
print('flat', cirq.Simulator(seed=0).run(flat,repetitions=20).histogram(key='out'))
op=cirq.CircuitOperation(inner).with_measurement_key_mapping({'a':'b'})
wrapped=cirq.Circuit(op, cirq.measure(q[2],key='out'))
print(op.mapped_circuit())
print('wrapped', cirq.Simulator(seed=0).run(wrapped,repetitions=20).histogram(key='out'))
c2=cirq.BitMaskKeyCondition('a',bitmask=1,target_value=1,equal_target=True)
inner2=cirq.FrozenCircuit(cirq.X(q[0]),cirq.measure(q[0],q[1],key='a'),cirq.X(q[2]).with_classical_controls(c2))
for circ in (cirq.Circuit(inner2, cirq.measure(q[2],key='out')), cirq.Circuit(cirq.CircuitOperation(inner2).with_measurement_key_mapping({'a':'b'}), cirq.measure(q[2],key='out')), cirq.Circuit(cirq.CircuitOperation(inner2,repetitions=1,use_repetition_ids=True), cirq.measure(q[2],key='out'))):
    print(cirq.Simulator(seed=0).run(circ,repetitions=20).histogram(key='out'))
