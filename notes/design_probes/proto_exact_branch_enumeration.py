import sys, random, itertools, warnings, collections
sys.path[:0]=['/repo/cirq-core']
warnings.simplefilter('ignore')
import numpy as np, cirq
exec(open(__import__('os').path.join(__import__('os').path.dirname(__file__),'proto_scripted_prng.py')).read().split("q=cirq.LineQubit.range(2)")[0].split("import numpy as np, cirq\n")[1])
rng=random.Random(21)
def enum_dist(make_sim, circuit, maxdepth=12):
    """exhaustively enumerate branches: returns dict records->prob"""
    out=collections.defaultdict(float)
    stack=[[]]
    while stack:
        script=stack.pop()
        p=Scripted(script+[0]*50)
        try: r=make_sim(p).run(circuit,repetitions=1)
        except Exception as e: return {'EXC':repr(e)[:80]}
        used=p.log
        # determine prob of this path & expand siblings at first unexplored position
        prob=1.0
        used=[('choice',e[1],e[2],e[3][0]) if e[0]=='choice*' else e for e in used]
        for i,ent in enumerate(used):
            if ent[0]=='choice':
                _,n,pv,k=ent; prob*= (pv[k] if pv is not None else 1.0/n)
            elif ent[0]=='randint':
                _,n,k=ent; prob*=1.0/n
            elif ent[0]=='random': raise RuntimeError('channel')
            if i>=len(script):
                # first time we see this position: push siblings
                n=ent[1]
                for alt in range(1,n):
                    pa=(ent[2][alt] if ent[0]=='choice' and ent[2] is not None else 1.0/n)
                    if pa>1e-12: stack.append([e[3] if e[0]=='choice' else e[2] for e in used[:i]]+[alt])
        if prob>1e-12:
            key=tuple(sorted((k,tuple(map(tuple,v[0].tolist()))) for k,v in r.records.items()))
            out[key]+=prob
    return dict(out)
qs=cirq.LineQubit.range(3)
def rcirc(terminal):
    ops=[]
    for _ in range(rng.randint(1,5)):
        a,b=rng.sample(qs,2)
        ops.append(rng.choice([cirq.H(a),cirq.X(a)**0.5,cirq.CNOT(a,b),cirq.X(a),cirq.Y(a)**0.25,cirq.CZ(a,b)]))
    ms=[]
    keys=iter('abcdef')
    for _ in range(rng.randint(1,3)):
        k=rng.randint(1,2); t=rng.sample(qs,k)
        inv=tuple(rng.random()<.4 for _ in range(k))
        cm={}
        if rng.random()<.4:
            cm={(0,):np.array(rng.choice([[[0.9,0.1],[0.2,0.8]],[[1,0],[0.5,0.5]],[[0,1],[1,0]]]))}
        ms.append(cirq.MeasurementGate(k,key=next(keys),invert_mask=inv,confusion_map=cm).on(*t))
    return ops,ms
bad=[]
for it in range(150):
    ops,ms=rcirc(True)
    c_term=cirq.Circuit(ops,ms)
    # non-terminal variant: append identity-like ops on measured qubits (forces general path), same distribution
    c_non=cirq.Circuit(ops,ms,[cirq.X(q)**2 for q in qs])
    for name,mk in (('sv',lambda p: cirq.Simulator(seed=p,dtype=np.complex128)),('dm',lambda p: cirq.DensityMatrixSimulator(seed=p,dtype=np.complex128)),('svsplit',lambda p: cirq.Simulator(seed=p,dtype=np.complex128,split_untangled_states=False))):
        d1=enum_dist(mk,c_term); d2=enum_dist(mk,c_non)
        if 'EXC' in d1 or 'EXC' in d2: bad.append((name,'exc',d1.get('EXC'),d2.get('EXC'))); continue
        keys=set(d1)|set(d2)
        if any(abs(d1.get(k,0)-d2.get(k,0))>1e-6 for k in keys):
            hasboth=any(m.gate.confusion_map and any(m.gate.full_invert_mask()) for m in ms)
            bad.append((name,'dist',hasboth,c_term))
import collections
print(collections.Counter((b[0],b[1],b[2]) for b in bad))
for b in bad:
    if b[1]=='dist' and not b[2]: print(b[3]); break
for b in bad:
    if b[1]=='exc': print(b); break
