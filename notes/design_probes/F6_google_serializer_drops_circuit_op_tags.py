import sys, warnings
sys.path[:0]=['/repo/cirq-core','/repo/cirq-google']
warnings.simplefilter('ignore')
import cirq, cirq_google as cg
a,b=cirq.GridQubit.rect(1,2)
co=cirq.CircuitOperation(cirq.FrozenCircuit(cirq.X(a),cirq.CZ(a,b)),repetitions=2)
for tag in ('strtag',cg.CalibrationTag('x'),cg.InternalTag(name='a',package='b'),cg.PhysicalZTag()):
    c=cirq.Circuit(co.with_tags(tag), cirq.X(a).with_tags(tag))
    c2=cg.CIRCUIT_SERIALIZER.deserialize(cg.CIRCUIT_SERIALIZER.serialize(c))
    print(repr(tag), [op.tags for op in c2.all_operations()], c2==c)
