import sys
sys.path[:0]=['/repo/cirq-core']
import cirq
k=cirq.KeyCondition(cirq.MeasurementKey('a'),index=0)
r=cirq.read_json(json_text=cirq.to_json(k)); print(repr(k),repr(r),k==r)
b=cirq.BitMaskKeyCondition('a',bitmask=2,target_value=2,equal_target=True,index=0)
r=cirq.read_json(json_text=cirq.to_json(b)); print(repr(b),repr(r),b==r)
q=cirq.LineQubit.range(2)
# index semantic: two measurements under same key, condition on the first
c=cirq.Circuit(cirq.X(q[0]),cirq.measure(q[0],key='a'),cirq.X(q[0]),cirq.measure(q[0],key='a'),cirq.X(q[1]).with_classical_controls(k),cirq.measure(q[1],key='out'))
print(cirq.Simulator(seed=0).run(c,repetitions=5).records['out'][:,0,0])
c2=cirq.with_measurement_key_mapping(c,{'a':'b'})
print(cirq.Simulator(seed=0).run(c2,repetitions=5).records['out'][:,0,0])
