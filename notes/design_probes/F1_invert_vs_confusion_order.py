import sys
sys.path[:0]=['/repo/cirq-core']
import cirq, numpy as np
q=cirq.LineQubit(0)
m=cirq.MeasurementGate(1,key='k',invert_mask=(True,),confusion_map={(0,):np.array([[1,0],[0.5,0.5]])}).on(q)
c1=cirq.Circuit(m)                       # terminal -> fast path
c2=cirq.Circuit(m, cirq.I(q).with_classical_controls('k'))  # non-terminal path? 
c3=cirq.Circuit(m, cirq.X(q)**0.0)   # op after measurement on same qubit
for c in (c1,c2,c3):
    for S in (cirq.Simulator(seed=1), cirq.DensityMatrixSimulator(seed=1)):
        r=S.run(c,repetitions=2000)
        print(type(S).__name__, r.histogram(key='k'))
