import sys, os, glob, inspect, io, contextlib, warnings
sys.path[:0]=['/repo/cirq-core','/repo/cirq-google','/repo/cirq-ionq','/repo/cirq-aqt','/repo/cirq-pasqal']
warnings.simplefilter('ignore')
import cirq, cirq_google, cirq_ionq, cirq_aqt, cirq_pasqal, numpy as np, sympy, pandas as pd, datetime, networkx as nx
dirs={'cirq':'/repo/cirq-core/cirq/protocols/json_test_data','cirq_google':'/repo/cirq-google/cirq_google/json_test_data','cirq_ionq':'/repo/cirq-ionq/cirq_ionq/json_test_data','cirq_aqt':'/repo/cirq-aqt/cirq_aqt/json_test_data','cirq_pasqal':'/repo/cirq-pasqal/cirq_pasqal/json_test_data'}
glb={'cirq':cirq,'cirq_google':cirq_google,'cirq_ionq':cirq_ionq,'cirq_aqt':cirq_aqt,'cirq_pasqal':cirq_pasqal,'np':np,'sympy':sympy,'pd':pd,'pandas':pd,'datetime':datetime,'nx':nx,'networkx':nx}
def walk(o,seen,out):
    if id(o) in seen: return
    seen.add(id(o))
    if hasattr(o,'_json_dict_') and not isinstance(o,type):
        out.append(o)
        try: d=o._json_dict_()
        except Exception: return
        for v in d.values(): walk(v,seen,out)
    elif isinstance(o,(list,tuple,set,frozenset)):
        for v in o: walk(v,seen,out)
    elif isinstance(o,dict):
        for k,v in o.items(): walk(k,seen,out); walk(v,seen,out)
nfiles=0; flagged={}; rt_fail={}
for pkg,d in dirs.items():
    for f in sorted(glob.glob(d+'/*.repr')):
        try:
            with contextlib.redirect_stderr(io.StringIO()):
                obj=eval(open(f).read(),dict(glb))
        except Exception as e:
            continue
        nfiles+=1
        objs=[]; walk(obj,set(),objs)
        for o in objs:
            cls=type(o)
            try: keys=set(o._json_dict_().keys())-{'cirq_type'}
            except Exception: continue
            fn=getattr(cls,'_from_json_dict_',None)
            target=fn if fn is not None else cls.__init__
            try: sig=inspect.signature(target)
            except Exception: continue
            named={p.name for p in sig.parameters.values() if p.kind in (p.POSITIONAL_OR_KEYWORD,p.KEYWORD_ONLY)}
            haskw=any(p.kind==p.VAR_KEYWORD for p in sig.parameters.values())
            ignored=keys-named
            if ignored and haskw and fn is not None:
                # check whether the body uses kwargs
                src=inspect.getsource(fn)
                uses='kwargs[' in src or 'kwargs.get' in src or '**kwargs)' in src.split(':',1)[1]
                if not uses: flagged.setdefault(cls.__name__,set()).update(ignored)
            # direct roundtrip
            try:
                with contextlib.redirect_stderr(io.StringIO()):
                    r=cirq.read_json(json_text=cirq.to_json(o))
                ok = (r==o) if not isinstance(o,(np.ndarray,pd.DataFrame)) else True
                if ok is not True and not (hasattr(ok,'all') ): rt_fail.setdefault(cls.__name__,f)
            except Exception as e:
                rt_fail.setdefault(cls.__name__,repr(e)[:80])
print('files',nfiles)
print('ignored-keys', {k:sorted(v) for k,v in flagged.items()})
print('roundtrip-fail', rt_fail)
