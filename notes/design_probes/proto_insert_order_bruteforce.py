import sys, random, itertools
sys.path[:0]=['/repo/cirq-core']
import cirq
assert cirq.__file__.startswith('/repo')
Q=cirq.LineQubit.range(4)
S=[cirq.InsertStrategy.EARLIEST,cirq.InsertStrategy.NEW,cirq.InsertStrategy.INLINE,cirq.InsertStrategy.NEW_THEN_INLINE]
S.append(cirq.InsertStrategy.LATEST) if hasattr(cirq.InsertStrategy,'LATEST') else None
cnt=[0]
def mkop(rng):
    cnt[0]+=1
    k=rng.choice([1,1,2])
    qs=rng.sample(Q,k)
    r=rng.random()
    if r<0.2:
        op=cirq.measure(*qs,key=rng.choice('ab'))
    elif r<0.35:
        op=(cirq.X(qs[0]) if k==1 else cirq.CZ(*qs)).with_classical_controls(rng.choice('ab'))
    else:
        op=(cirq.X(qs[0]) if k==1 else cirq.CZ(*qs))
    return op.with_tags(cnt[0])
def conflicts(a,b):
    if set(a.qubits)&set(b.qubits): return True
    ma,mb=cirq.measurement_key_objs(a),cirq.measurement_key_objs(b)
    ca,cb=cirq.control_keys(a),cirq.control_keys(b)
    return bool(ma&mb or ma&cb or ca&mb)
def pos(c):
    return {op.tags[-1]:i for i,m in enumerate(c) for op in m}
bad={}
for seed in range(40000):
    rng=random.Random(seed)
    c=cirq.Circuit()
    for _ in range(rng.randint(0,4)):
        c.append(cirq.Moment([]) if rng.random()<.1 else mkop(rng), strategy=rng.choice(S))
    if rng.random()<.5: c=cirq.Circuit(c.moments)  # drop cache
    before=pos(c); n=len(c)
    idx=rng.randint(-1,n+1)
    strat=rng.choice(S)
    new=[mkop(rng) for _ in range(rng.randint(1,3))]
    k=max(min(idx if idx>=0 else n+idx,n),0)
    c2=c.copy() if rng.random()<.5 else c
    try:
        c2.insert(idx,new,strategy=strat)
    except Exception as e:
        bad.setdefault(('exc',strat.name,type(e).__name__),seed); continue
    after=pos(c2)
    ids=[o.tags[-1] for o in new]
    # ops preserved
    if sorted(after)!=sorted(list(before)+ids): bad.setdefault(('lost',strat.name),seed)
    allops={op.tags[-1]:op for m in c2 for op in m}
    for a,b in itertools.combinations(before,2):
        if (before[a]<before[b])!=(after[a]<after[b]) or (before[a]==before[b])!=(after[a]==after[b]): bad.setdefault(('exist',strat.name),seed)
    for i,a in enumerate(ids):
        for b in ids[i+1:]:
            if conflicts(allops[a],allops[b]) and not after[a]<after[b]: bad.setdefault(('ins-ins',strat.name),seed)
        for b in before:
            if conflicts(allops[a],allops[b]):
                if before[b]<k and not after[b]<after[a]: bad.setdefault(('after-prev',strat.name),seed)
                if before[b]>=k and not after[a]<after[b]: bad.setdefault(('before-next',strat.name,len(ids)>1),seed)
print(bad)
seed=225
rng=random.Random(seed); cnt[0]=0
c=cirq.Circuit()
for _ in range(rng.randint(0,4)):
    c.append(cirq.Moment([]) if rng.random()<.1 else mkop(rng), strategy=rng.choice(S))
if rng.random()<.5: c=cirq.Circuit(c.moments)
n=len(c); idx=rng.randint(-1,n+1); strat=rng.choice(S)
new=[mkop(rng) for _ in range(rng.randint(1,3))]
print(c); print(idx,strat,new)
c.insert(idx,new,strategy=strat); print(c)
