import sys, warnings
sys.path[:0]=['/repo/cirq-core']
warnings.simplefilter('ignore')
import cirq, sympy, numpy as np
q=cirq.LineQubit.range(3)
def show(title,c):
    flat=cirq.Circuit(cirq.decompose(c,keep=lambda o: not isinstance(o.untagged,cirq.CircuitOperation)))
    print('==',title)
    print(' mkeys',sorted(map(str,cirq.measurement_key_objs(c))),sorted(map(str,cirq.measurement_key_objs(flat))))
    print(' ckeys',sorted(map(str,cirq.control_keys(c))),sorted(map(str,cirq.control_keys(flat))))
    print(' params',sorted(cirq.parameter_names(c)),sorted(cirq.parameter_names(flat)))
# repetitions 0
op=cirq.CircuitOperation(cirq.FrozenCircuit(cirq.X(q[0])**sympy.Symbol('t'),cirq.measure(q[0],key='m'),cirq.X(q[1]).with_classical_controls('z')),repetitions=0)
show('reps0',cirq.Circuit(op))
# control key inside bound by inner measurement w/ repetition ids
op=cirq.CircuitOperation(cirq.FrozenCircuit(cirq.measure(q[0],key='m'),cirq.X(q[1]).with_classical_controls('m')),repetitions=2,use_repetition_ids=True)
show('reps2 ids',cirq.Circuit(op))
op=cirq.CircuitOperation(cirq.FrozenCircuit(cirq.X(q[1]).with_classical_controls('m'),cirq.measure(q[0],key='m')),repetitions=2,use_repetition_ids=True)
show('ctrl-before-meas reps2 ids',cirq.Circuit(cirq.measure(q[2],key='m'),op))
op=cirq.CircuitOperation(cirq.FrozenCircuit(cirq.X(q[1]).with_classical_controls('m'),cirq.measure(q[0],key='m')),repetitions=2)
show('ctrl-before-meas reps2 noids',cirq.Circuit(cirq.measure(q[2],key='m'),op))
