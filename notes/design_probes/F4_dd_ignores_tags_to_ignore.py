import sys, warnings
sys.path[:0]=['/repo/cirq-core']
warnings.simplefilter('ignore')
import cirq, numpy as np
q=cirq.LineQubit.range(3)
c=cirq.Circuit(
 cirq.Moment(cirq.CZ(q[0],q[1]),cirq.Y(q[2])),
 cirq.Moment(cirq.H(q[1]),cirq.X(q[2])),
 cirq.Moment(cirq.S(q[0]).with_tags('ignore'),(cirq.X(q[1])**0.25).with_tags('ignore')),
 cirq.Moment((cirq.ZZ(q[0],q[1])**0.5).with_tags('ignore'), ),
 cirq.Moment(cirq.ISWAP(q[1],q[2])**-1, cirq.PhasedXZGate(axis_phase_exponent=1,x_exponent=0.25,z_exponent=1)(q[0])),
)
print(c)
ctx=cirq.TransformerContext(tags_to_ignore=('ignore',))
out=cirq.add_dynamical_decoupling(c,context=ctx)
print(out)
print([op for op in out.all_operations() if 'ignore' in op.tags])
