"""Evaluate the LaTeX matrices written in gate docstrings.

A small translator from the LaTeX subset the docstrings use (bmatrix blocks, scalar prefactors, `where` definitions of
shorthands, \\frac, \\sqrt, e^{..}, \\cos, \\sin, greek parameter names, implicit multiplication) to python
expressions.  Anything it does not understand makes the whole matrix *unparsed* (counted, never an alarm).
"""
from __future__ import annotations

import cmath
import math
import re

import numpy as np

FUNCS = ('cos', 'sin', 'exp', 'sqrt', 'conj')
GREEK = ('gamma', 'theta', 'phi', 'zeta', 'chi', 'alpha', 'beta', 'delta', 'rho')
_NUM = r'\d+\.\d+|\d+'


def _segment(word, names):
    """split glued letters ('it', 'isf') into known names, longest first"""
    if not word:
        return []
    for cand in sorted(names, key=len, reverse=True):
        if word.startswith(cand):
            rest = _segment(word[len(cand):], names)
            if rest is not None:
                return [cand] + rest
    return None


def latex_to_py(s, names):
    """one scalar LaTeX expression -> python expression over `names` (plus i, pi); None when not understood"""
    s = s.strip().rstrip('.,').strip()
    if not s:
        return None
    for a, b in (('\\left', ''), ('\\right', ''), ('\\,', ' '), ('\\;', ' '), ('\\cdot', '*'), ('\\times', '*')):
        s = s.replace(a, b)
    s = re.sub(r'\\(%s)_(\d)' % '|'.join(GREEK), r' \1_\2 ', s)
    s = re.sub(r'\\(%s)(?![a-zA-Z])' % '|'.join(GREEK), r' \1 ', s)
    s = re.sub(r'([A-Za-z_0-9]+)\^\*', r'conj(\1)', s)
    s = re.sub(r'(?<![A-Za-z\\])ie\^', 'i e^', s)
    for _ in range(30):
        n = re.sub(r'\\frac\s*\{([^{}]*)\}\s*\{([^{}]*)\}', r'((\1)/(\2))', s)
        n = re.sub(r'\\sqrt\s*\{([^{}]*)\}', r'sqrt(\1)', n)
        n = re.sub(r'(?<![A-Za-z])e\^\s*\{([^{}]*)\}', r'exp(\1)', n)
        n = re.sub(r'\^\s*\{([^{}]*)\}', r'**(\1)', n)
        if n == s:
            break
        s = n
    if '{' in s or '}' in s:
        return None
    s = re.sub(r'\\(cos|sin|exp)(?![a-zA-Z])', r' \1', s)
    s = s.replace('\\pi', ' pi ')
    if '\\' in s:
        return None
    s = re.sub(r'(?<![A-Za-z])e\^\s*(-?\s*[A-Za-z0-9_]+)', r'exp(\1)', s)
    s = s.replace('^', '**')
    toks = re.findall(_NUM + r'|[A-Za-z]+(?:_\d)?|\*\*|[-+*/()]', s)
    if ''.join(toks) != re.sub(r'\s+', '', s):
        return None
    known = set(names) | set(FUNCS) | {'i', 'pi'}
    split = []
    for tk in toks:
        if re.fullmatch(r'[A-Za-z]+(?:_\d)?', tk) and tk not in known:
            parts = _segment(tk, known)
            if parts is None:
                return None
            split.extend(parts)
        else:
            split.append(tk)
    out, prev = [], None
    is_operand = lambda x: re.fullmatch(_NUM + r'|[A-Za-z]+(?:_\d)?', x) is not None
    for tk in split:
        starts = tk == '(' or is_operand(tk)
        prev_ends = prev is not None and (prev == ')' or (is_operand(prev) and prev not in FUNCS))
        if starts and prev_ends:
            out.append('*')
        if prev in FUNCS and tk != '(':
            return None  # 'cos x' without parentheses: scope unclear
        out.append({'i': '1j'}.get(tk, tk))
        prev = tk
    return ' '.join(out)


def _env(values):
    env = {'cos': cmath.cos, 'sin': cmath.sin, 'exp': cmath.exp, 'sqrt': cmath.sqrt, 'conj': lambda z: complex(z).conjugate(), 'pi': math.pi,
           '__builtins__': {}}
    env.update(values)
    return env


def definitions(doc):
    """`$$ c = \\cos(...) $$` style shorthands: name -> LaTeX"""
    defs = {}
    for block in re.findall(r'\$\$(.*?)\$\$', doc, re.S):
        m = re.fullmatch(r'\s*([A-Za-z])\s*=\s*(.+?)\s*', block, re.S)
        if m and '\\begin' not in block:
            defs[m.group(1)] = m.group(2)
    return defs


def matrices(doc):
    """every bmatrix of the docstring: dict(prefix=LaTeX scalar in front ('' if none), suffix_ok, rows=[[LaTeX]])"""
    res = []
    for m in re.finditer(r'\\begin\{bmatrix\}(.*?)\\end\{bmatrix\}', doc, re.S):
        before = doc[:m.start()]
        cut = max(before.rfind('$$'), before.rfind('\\\\'), before.rfind('\\begin{aligned}') + len('\\begin{aligned}') - 1 if '\\begin{aligned}' in before else -1)
        prefix = before[cut + 2:] if cut >= 0 else ''
        if '=' in prefix:
            prefix = prefix[prefix.rfind('=') + 1:]
        prefix = prefix.replace('&', ' ').strip()
        after = doc[m.end():]
        ends = [x for x in (after.find('$$'), after.find('\\\\'), after.find('\\end{aligned}')) if x >= 0]
        suffix = after[:min(ends)] if ends else after[:40]
        rows = [r for r in re.split(r'\\\\', m.group(1)) if r.strip()]
        res.append({'prefix': prefix, 'suffix_ok': suffix.strip() in ('', '.', ','), 'rows': [[e for e in re.split(r'&&|&', r)] for r in rows]})
    return res


def evaluate(doc, entry, params):
    """numeric value of one docstring matrix at the given parameter values (dict); None when not understood.
    Also returns the set of parameter names the matrix really depends on."""
    defs = definitions(doc)
    names = set(params) | set(defs)
    values = dict(params)
    pending = dict(defs)
    for _ in range(len(pending) + 1):
        for k in list(pending):
            py = latex_to_py(pending[k], names)
            if py is None:
                return None
            try:
                values[k] = eval(py, _env(values))  # noqa: S307 (expression over a closed environment)
                del pending[k]
            except NameError:
                continue
            except Exception:
                return None
    if pending or not entry['suffix_ok']:
        return None
    rows = entry['rows']
    n = len(rows)
    if any(len(r) != n for r in rows):
        # rows of sparse matrices may leave trailing cells out; cells inside a row are positional
        if any(len(r) > n for r in rows):
            return None
    out = np.zeros((n, n), dtype=complex)
    scale = 1
    if entry['prefix']:
        py = latex_to_py(entry['prefix'], names)
        if py is None:
            return None
        try:
            scale = eval(py, _env(values))  # noqa: S307
        except Exception:
            return None
    for r, row in enumerate(rows):
        for c, e in enumerate(row):
            if not e.strip():
                continue
            py = latex_to_py(e, names)
            if py is None:
                return None
            try:
                out[r, c] = eval(py, _env(values))  # noqa: S307
            except Exception:
                return None
    return scale * out
