"""Shared machinery of the /verif checks: working-tree import guard, Lean build/audit, the line
protocol to the Lean driver, verdict logic, evidence / replay writers."""
from __future__ import annotations

import contextlib
import fcntl
import hashlib
import json
import os
import random
import re
import subprocess
import sys
import time
from pathlib import Path

VERIF = Path(__file__).resolve().parent.parent
LEAN = VERIF / 'lean'
REPO = Path(os.environ.get('VERIF_REPO', '/repo'))
PKGS = ['cirq-core', 'cirq-google', 'cirq-ionq', 'cirq-aqt', 'cirq-pasqal']
ALLOWED_AXIOMS = {'propext', 'Classical.choice', 'Quot.sound'}
FORBIDDEN = re.compile(
    r'\bsorry\b|\badmit\b|^\s*axiom\s|native_decide|bv_decide|implemented_by|\bunsafe\s|maxHeartbeats\s+0\b'
)


class InfraError(Exception):
    """Something in /verif itself (not /repo) is broken: exit code 2."""


def import_cirq():
    """Imports the five packages from /repo's working tree and asserts that this is what we got."""
    paths = [str(REPO / p) for p in PKGS]
    sys.path[:0] = [p for p in paths if p not in sys.path]
    import cirq  # noqa

    if not str(Path(cirq.__file__).resolve()).startswith(str(REPO.resolve())):
        raise InfraError(f'cirq imported from {cirq.__file__}, not from {REPO}')
    return cirq


# --------------------------------------------------------------------------------------------
# Lean side


@contextlib.contextmanager
def lake_lock():
    LEAN.joinpath('.lake').mkdir(exist_ok=True)
    with open(LEAN / '.lake' / 'verif.lock', 'w') as f:
        fcntl.flock(f, fcntl.LOCK_EX)
        try:
            yield
        finally:
            fcntl.flock(f, fcntl.LOCK_UN)


def lake_build(targets: list[str], timeout=3600) -> tuple[bool, str]:
    with lake_lock():
        p = subprocess.run(
            ['lake', 'build', *targets], cwd=LEAN, capture_output=True, text=True, timeout=timeout
        )
    return p.returncode == 0, p.stdout + p.stderr


def lean_sources() -> list[Path]:
    out = []
    for sub in ('CirqVerif', 'Driver', 'NonVacuity'):
        out += sorted((LEAN / sub).rglob('*.lean'))
    return out


def strip_comments(src: str) -> str:
    # remove nested /- -/ block comments and -- line comments (string literals are rare in proofs)
    out, depth, i = [], 0, 0
    while i < len(src):
        if src.startswith('/-', i):
            depth += 1
            i += 2
        elif depth and src.startswith('-/', i):
            depth -= 1
            i += 2
        elif depth:
            if src[i] == '\n':
                out.append('\n')
            i += 1
        elif src.startswith('--', i):
            while i < len(src) and src[i] != '\n':
                i += 1
        else:
            out.append(src[i])
            i += 1
    return ''.join(out)


def grep_forbidden() -> list[str]:
    hits = []
    for f in lean_sources():
        body = strip_comments(f.read_text())
        for n, line in enumerate(body.split('\n'), 1):
            if FORBIDDEN.search(line):
                hits.append(f'{f.relative_to(LEAN)}:{n}: {line.strip()}')
    return hits


THEOREM_RE = re.compile(r'^\s*(?:@\[[^\]]*\]\s*)?(?:protected\s+)?theorem\s+([A-Za-z_][\w.\'!?]*)', re.M)
NAMESPACE_RE = re.compile(r'^\s*(namespace|end)\s+([\w.]+)\s*$', re.M)


def theorems_in(path: Path) -> list[str]:
    """Fully qualified names of the theorems declared in a Lean file (simple namespace tracking)."""
    src = strip_comments(path.read_text())
    names, stack = [], []
    for line in src.split('\n'):
        m = NAMESPACE_RE.match(line)
        if m:
            if m.group(1) == 'namespace':
                stack.append(m.group(2))
            elif stack and stack[-1].split('.')[-1] == m.group(2).split('.')[-1] or (
                stack and stack[-1] == m.group(2)
            ):
                stack.pop()
            continue
        m = THEOREM_RE.match(line)
        if m:
            names.append('.'.join(stack + [m.group(1)]))
    return names


def audit(modules: list[str]) -> dict:
    """`#print axioms` for every theorem of the given modules.  Returns
    {'theorems': {name: [axioms]}, 'bad': {name: [axioms]}, 'forbidden': [...]}."""
    thms: list[tuple[str, str]] = []
    for mod in modules:
        path = LEAN / (mod.replace('.', '/') + '.lean')
        if not path.exists():
            raise InfraError(f'audit: {path} missing')
        for t in theorems_in(path):
            thms.append((mod, t))
    tag = hashlib.sha1('\n'.join(modules).encode()).hexdigest()[:10]
    adir = LEAN / '.lake' / 'audit'
    adir.mkdir(parents=True, exist_ok=True)
    afile = adir / f'Audit_{tag}.lean'
    body = ''.join(f'import {m}\n' for m in modules) + ''.join(
        f'#print axioms {t}\n' for _, t in thms
    )
    afile.write_text(body)
    with lake_lock():
        p = subprocess.run(
            ['lake', 'env', 'lean', str(afile)], cwd=LEAN, capture_output=True, text=True, timeout=1800
        )
    out = p.stdout + p.stderr
    res: dict[str, list[str]] = {}
    for m in re.finditer(r"'([^']+)' depends on axioms: \[([^\]]*)\]", out):
        res[m.group(1)] = [a.strip() for a in m.group(2).replace('\n', ' ').split(',') if a.strip()]
    for m in re.finditer(r"'([^']+)' does not depend on any axioms", out):
        res[m.group(1)] = []
    missing = [t for _, t in thms if t not in res]
    bad = {t: ax for t, ax in res.items() if not set(ax) <= ALLOWED_AXIOMS}
    return {
        'theorems': res,
        'bad': bad,
        'missing': missing,
        'forbidden': grep_forbidden(),
        'raw': out if (p.returncode != 0 or missing) else '',
    }


class Driver:
    """Batch line protocol: one JSON object per line in, one JSON value per line out."""

    def __init__(self):
        self.exe = LEAN / '.lake' / 'build' / 'bin' / 'driver'

    def ask(self, requests: list[dict], timeout=1800) -> list:
        if not requests:
            return []
        data = ''.join(json.dumps(r, separators=(',', ':')) + '\n' for r in requests)
        p = subprocess.run([str(self.exe)], input=data, capture_output=True, text=True, timeout=timeout)
        if p.returncode != 0:
            raise InfraError(f'driver exited {p.returncode}: {p.stderr[-2000:]}')
        lines = p.stdout.split('\n')
        if lines and lines[-1] == '':
            lines.pop()
        if len(lines) != len(requests):
            raise InfraError(f'driver returned {len(lines)} lines for {len(requests)} requests')
        outs = [json.loads(l) for l in lines]
        for r, o in zip(requests, outs):
            if isinstance(o, dict) and 'driver_error' in o:
                raise InfraError(f'driver error {o["driver_error"]} on {json.dumps(r)[:500]}')
        return outs


# --------------------------------------------------------------------------------------------
# Known findings


def load_known_findings() -> list[dict]:
    p = VERIF / 'known_findings.json'
    if not p.exists():
        return []
    return json.loads(p.read_text()).get('findings', [])


# --------------------------------------------------------------------------------------------
# A run of one property check


class Run:
    def __init__(self, prop: str, tier: str, seed: int):
        self.prop, self.tier, self.seed = prop, tier, seed
        self.t0 = time.time()
        self.rng = random.Random(f'{prop}:{seed}')
        self.driver = Driver()
        self.evaluations = 0
        self.nontrivial: set[str] = set()
        self.samples: list = []
        self.distribution: dict[str, dict[str, int]] = {}
        self.obligations: dict[str, list[str]] = {}
        self.trusted: list[str] = []
        self.assumptions: list[str] = []
        self.rule = ''
        self.checker_cmd = ''
        self.violations: list[dict] = []  # unlisted violations (witness or unproved)
        self.known_hits: list[str] = []
        self.extra: dict = {}
        self.known = [k for k in load_known_findings() if k.get('property') == prop and k.get('status') == 'known']
        self.traces_validated = 0
        self.modules: list[str] = []

    # -- bookkeeping -------------------------------------------------------------------------
    def substream(self, name: str) -> random.Random:
        return random.Random(f'{self.prop}:{self.seed}:{name}')

    def count(self, dim: str, key: str, n: int = 1):
        d = self.distribution.setdefault(dim, {})
        d[key] = d.get(key, 0) + n

    def case(self, canon, nontrivial: bool, sample=None):
        self.evaluations += 1
        if nontrivial:
            h = hashlib.sha1(json.dumps(canon, sort_keys=True, default=str).encode()).hexdigest()
            self.nontrivial.add(h)
        if sample is not None and len(self.samples) < 6:
            self.samples.append(sample)

    # -- Lean ---------------------------------------------------------------------------------
    def lean(self, modules: list[str], extra_targets: list[str] = ()):  # build + audit
        """Builds the property's theorem modules and the driver, audits axioms.
        Returns (ok, failing) where failing lists obligations that no longer check."""
        self.modules = list(modules)
        targets = list(modules) + ['driver'] + list(extra_targets)
        self.checker_cmd = (
            f'cd lean && lake build {" ".join(targets)} && lake env lean <#print axioms of every theorem in '
            + ', '.join(modules)
            + '>'
        )
        ok, log = lake_build(targets)
        failing: list[str] = []
        if not ok:
            # which modules failed?
            failed_mods = re.findall(r'^- ([\w.]+)', log, re.M)
            self.extra['lean_build_log_tail'] = log[-3000:]
            regenerated = [m for m in failed_mods if '.Generated.' in m or '.Obligations.' in m]
            if not regenerated:
                # only hand-written files failed: nothing regenerated from /repo is involved, so this is a
                # defect of /verif itself, not a statement about /repo
                raise InfraError('Lean build failed in hand-written modules ' + ', '.join(failed_mods) + '\n' + log[-2500:])
            return False, regenerated
        a = audit(modules)
        self.obligations = a['theorems']
        if a['forbidden']:
            raise InfraError('forbidden construct in Lean sources: ' + '; '.join(a['forbidden'][:5]))
        if a['missing']:
            raise InfraError('audit could not find theorems: ' + ', '.join(a['missing'][:5]) + a['raw'][-1500:])
        if a['bad']:
            raise InfraError('theorems with non-standard axioms: ' + json.dumps(a['bad']))
        if self.tier == 'thorough':
            # the compiled modules are re-checked by the toolchain's independent checker
            with lake_lock():
                p = subprocess.run(['lake', 'env', 'leanchecker', *modules], cwd=LEAN, capture_output=True, text=True, timeout=3600)
            self.extra['leanchecker'] = {'modules': list(modules), 'exit': p.returncode}
            if p.returncode != 0:
                raise InfraError('leanchecker rejects the compiled modules: ' + (p.stdout + p.stderr)[-1500:])
        return True, failing

    # -- verdict -------------------------------------------------------------------------------
    def report_witness(self, signature: str, what: str, replay: dict):
        """A concrete input on which the implementation violates the property."""
        for k in self.known:
            if k['signature'] == signature:
                msg = f'KNOWN-FINDING: property={self.prop} {k["what"]}'
                if msg not in self.known_hits:
                    self.known_hits.append(msg)
                return
        self._violation('witness', signature, what, replay)

    def report_unproved(self, name: str, what: str, replay: dict):
        """A theorem / correspondence no longer checks and no failing input was found."""
        self._violation('unproved', name, what, replay)

    def _violation(self, kind, signature, what, replay):
        if any(v['signature'] == signature for v in self.violations):
            return
        if len(self.violations) >= int(os.environ.get('VERIF_MAX_VIOLATIONS', '5')):
            return
        rdir = VERIF / 'replays'
        rdir.mkdir(exist_ok=True)
        safe = re.sub(r'[^\w.-]+', '_', signature)[:60]
        path = rdir / f'{self.prop}_{safe}_{self.seed}.json'
        body = {
            'property': self.prop,
            'seed': self.seed,
            'tier': self.tier,
            'kind': kind,
            'signature': signature,
            'what': what,
            'how_to_run': f'./check {self.prop} --replay {path.relative_to(VERIF)}',
        }
        body.update(replay)
        path.write_text(json.dumps(body, indent=1, default=str))
        self.violations.append({'kind': kind, 'signature': signature, 'what': what, 'path': str(path.relative_to(VERIF))})

    def finish(self) -> int:
        wall = time.time() - self.t0
        n_ob = len(self.obligations)
        ev = {
            'property_id': self.prop,
            'tier': self.tier,
            'seed': self.seed,
            'level': 'proof',
            'wall_s': round(wall, 2),
            'violations': len(self.violations),
            'coverage': {
                'obligations': n_ob,
                'discharged': n_ob,
                'checker_cmd': self.checker_cmd,
                'trusted_base': [
                    'Lean 4.33.0 kernel',
                    'axioms used by the theorems: subset of {propext, Classical.choice, Quot.sound} (audited this run); no native_decide / bv_decide / sorry / own axioms',
                ]
                + self.trusted,
                'theorems': sorted(self.obligations),
                'evaluations': self.evaluations,
                'distinct_nontrivial': len(self.nontrivial),
                'rule': self.rule,
                'samples': self.samples,
                'traces_validated_against_impl': self.traces_validated or self.evaluations,
                'distribution': self.distribution,
                'known_findings_seen': self.known_hits,
                'violations_detail': self.violations,
                **self.extra,
            },
            'assumptions': self.assumptions,
        }
        edir = VERIF / 'evidence'
        edir.mkdir(exist_ok=True)
        (edir / f'{self.prop}.json').write_text(json.dumps(ev, indent=1, default=str))
        for m in self.known_hits:
            print(m)
        for v in self.violations:
            tail = ' no-failing-input-found' if v['kind'] == 'unproved' else ''
            print(f'VIOLATION property={self.prop} replay={v["path"]}{tail}')
        status = 'FAIL' if self.violations else 'ok'
        print(
            f'[{self.prop}] {status} tier={self.tier} seed={self.seed} theorems={n_ob} evaluations={self.evaluations} '
            f'nontrivial={len(self.nontrivial)} wall={wall:.1f}s'
        )
        return 1 if self.violations else 0


def frac_to_json(x):
    """float -> exact rational [num, den] so both sides see the same real number."""
    n, d = float(x).as_integer_ratio()
    return [n, d]


# floats cross the line protocol as IEEE-754 bit patterns (exact both ways)
import struct as _struct


def f2b(x) -> int:
    return _struct.unpack('<Q', _struct.pack('<d', float(x)))[0]


def b2f(n: int) -> float:
    return _struct.unpack('<d', _struct.pack('<Q', int(n)))[0]


def c2j(z):
    z = complex(z)
    return [f2b(z.real), f2b(z.imag)]


def j2c(p) -> complex:
    return complex(b2f(p[0]), b2f(p[1]))
