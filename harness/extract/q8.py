"""Recognition of exact Q(zeta_8) numbers from floats (for T1/T3 extraction) and Lean printing."""
from __future__ import annotations

import math
from fractions import Fraction

SQ = 1 / math.sqrt(2)
_CANDS = None


def _cands(maxden=16, maxnum=2):
    global _CANDS
    if _CANDS is None:
        vals = {}
        fr = sorted({Fraction(n, d) for d in (1, 2, 4, 8, 16) for n in range(-maxnum * d, maxnum * d + 1)})
        for a in fr:
            for u in fr:
                x = float(a) + float(u) * SQ
                key = round(x, 11)
                # prefer the simplest representation
                cost = (a.denominator + u.denominator, abs(a.numerator) + abs(u.numerator))
                if key not in vals or cost < vals[key][0]:
                    vals[key] = (cost, a, u)
        _CANDS = vals
    return _CANDS


def recognize_real(x: float):
    """x = a + u/sqrt(2) with small dyadic rationals a, u; returns (a, u) or raises"""
    c = _cands()
    key = round(x, 11)
    for k in (key, round(x + 1e-11, 11), round(x - 1e-11, 11)):
        if k in c:
            _, a, u = c[k]
            if abs(float(a) + float(u) * SQ - x) < 1e-9:
                return a, u
    raise ValueError(f'cannot recognise {x!r} in Q(sqrt 2)')


def recognize(z: complex):
    """complex float -> (a, b, c, d) with z = a + b*zeta + c*i + d*zeta^3, zeta = (1+i)/sqrt2"""
    a, u = recognize_real(z.real)  # real = a + (b - d)/sqrt2
    c, v = recognize_real(z.imag)  # imag = c + (b + d)/sqrt2
    b = (u + v) / 2
    d = (v - u) / 2
    return a, b, c, d


def lean_rat(q: Fraction) -> str:
    if q.denominator == 1:
        return f'({q.numerator} : Rat)' if q.numerator < 0 else f'{q.numerator}'
    return f'(({q.numerator} : Rat) / {q.denominator})'


def lean_q8(z: complex) -> str:
    a, b, c, d = recognize(z)
    return f'⟨{lean_rat(a)}, {lean_rat(b)}, {lean_rat(c)}, {lean_rat(d)}⟩'


def lean_qmat(m) -> str:
    return '[' + ', '.join('[' + ', '.join(lean_q8(complex(z)) for z in row) + ']' for row in m) + ']'
