"""C19 — Exported OpenQASM describes the same computation as the circuit.

Lean: CirqVerif.Spec.Qasm transcribes qelib1.inc / stdgates.inc (every library gate expanded into the built-ins
U and CX) polymorphically; Props.C19 evaluates the same definitions exactly in Q(zeta_8) and proves that the
parameter-free gates denote their textbook matrices, and proves the classical-register laws.  Tie (T2): the text
`Circuit.to_qasm` emits is read by an independent, purely syntactic reader (harness/qasm_reader.py) and
interpreted by the compiled Lean semantics; the result is compared with the Lean reference semantics of the
circuit itself (C01 ordered product for unitary circuits, up to global phase; C02 branching semantics for the
joint distribution of the classical registers).
"""
from __future__ import annotations

import json
import math

import numpy as np

from harness import common, gen, qasm_reader
from harness.props.c02 import lean_ops

MODULES = ['CirqVerif.Props.C19', 'CirqVerif.Props.C19Ccx', 'CirqVerif.Props.C19Cswap', 'CirqVerif.Props.C19b', 'NonVacuity.ComplexModel']


def phase_close(a, b, tol):
    a, b = np.asarray(a), np.asarray(b)
    k = np.argmax(np.abs(b))
    idx = np.unravel_index(k, b.shape)
    if abs(b[idx]) < 1e-9 or abs(a[idx]) < 1e-9:
        return np.allclose(a, b, atol=tol)
    ph = a[idx] / b[idx]
    ph /= abs(ph)
    return np.allclose(a, ph * b, atol=tol)


def stmts_json(stmts):
    out = []
    for s in stmts:
        if s['kind'] == 'gate':
            out.append({'kind': 'gate', 'name': s['name'], 'params': [common.f2b(p) for p in s['params']], 'qs': s['qs']})
        elif s['kind'] == 'if':
            out.append({'kind': 'if', 'creg': s['creg'], 'value': s['value'], 'equal': s['equal'], 'body': stmts_json([s['body']])[0]})
        else:
            out.append(s)
    return out


_OPAQUE = {}


def opaque_gate(cirq, u):
    """a user gate that only knows its matrix (no `_qasm_`, no `_decompose_`): the writer's generic fallback has to export it"""
    if 'cls' not in _OPAQUE:
        class OpaqueGate(cirq.Gate):
            def __init__(self, matrix):
                self._m = np.asarray(matrix)

            def _num_qubits_(self):
                return int(round(math.log2(self._m.shape[0])))

            def _unitary_(self):
                return self._m

            def __repr__(self):
                return f'OpaqueGate({np.round(self._m, 6).tolist()!r})'

        _OPAQUE['cls'] = OpaqueGate
    return _OPAQUE['cls'](u)


def extra_qasm_gates(cirq, rng, k):
    """gate families with their own QASM output that the shared generators do not emphasise"""
    t = gen.rand_exponent(rng)
    if k == 1:
        return rng.choice([
            cirq.X**t, cirq.Y**t, cirq.Z**t, cirq.H, cirq.S, cirq.S**-1, cirq.T, cirq.T**-1, cirq.X**0.5, cirq.X**-0.5, cirq.I,
            cirq.rx(rng.uniform(-7, 7)), cirq.ry(rng.uniform(-7, 7)), cirq.rz(rng.uniform(-7, 7)), cirq.H**t,
            cirq.circuits.qasm_output.QasmUGate(rng.uniform(-2, 2), rng.uniform(-2, 2), rng.uniform(-2, 2)),
            cirq.PhasedXPowGate(phase_exponent=gen.rand_exponent(rng), exponent=t),
            cirq.PhasedXPowGate(phase_exponent=gen.rand_exponent(rng), exponent=rng.choice([0.5, -0.5, 1.5, -1.5, 2.5, 3.5, -3.5])),
            opaque_gate(cirq, gen.rand_unitary(rng, 2)),
        ])
    if k == 2:
        return rng.choice([
            cirq.CZ, cirq.CNOT, cirq.SWAP, cirq.ISWAP, cirq.CZ**t, cirq.CNOT**t, cirq.SWAP**t, cirq.ISWAP**t, cirq.ZZ**t, cirq.XX**t, cirq.YY**t,
            cirq.ControlledGate(cirq.Y), cirq.ControlledGate(cirq.H), cirq.ControlledGate(cirq.Z**t), cirq.cphase(rng.uniform(-3, 3)),
            cirq.IdentityGate(2), cirq.FSimGate(rng.uniform(-3, 3), rng.uniform(-3, 3)), cirq.ControlledGate(cirq.rz(rng.uniform(-3, 3))),
            cirq.ControlledGate(cirq.X, control_values=[0]),
            # controlled Paulis / Hadamard whose global shift becomes a relative phase under control
            cirq.ControlledGate(rng.choice([cirq.XPowGate, cirq.YPowGate, cirq.ZPowGate, cirq.HPowGate])(exponent=1, global_shift=rng.choice([-0.5, 0.5, 0.25, 1]))),
            cirq.ControlledGate(rng.choice([cirq.rx, cirq.ry, cirq.rz])(math.pi)),
            # gates without an export of their own: matrix-only user gates and the writer's two-qubit fallback used directly
            opaque_gate(cirq, rng.choice([cirq.unitary(cirq.SWAP), cirq.unitary(cirq.ISWAP), cirq.unitary(cirq.ZZ ** 0.3), gen.rand_unitary(rng, 4), gen.rand_unitary(rng, 4)])),
            cirq.circuits.qasm_output.QasmTwoQubitGate.from_matrix(rng.choice([cirq.unitary(cirq.SWAP), gen.rand_unitary(rng, 4), cirq.unitary(cirq.ZZ ** -0.4)])),
        ])
    return rng.choice([cirq.CCX, cirq.CCZ, cirq.CSWAP, cirq.CCX**t, cirq.CCZ**t, cirq.ControlledGate(cirq.CZ**t), cirq.IdentityGate(3), cirq.CCY, cirq.CCY, cirq.CCY**t, cirq.CCY**-1, cirq.CCX**-1])


def unitary_circuit(cirq, rng):
    if rng.random() < 0.5:
        circuit, qs = gen.random_unitary_circuit(cirq, rng, max_wires=4, max_ops=7)
        return circuit, qs
    n = rng.randint(1, 4)
    qs = cirq.LineQubit.range(n)
    ops = []
    for _ in range(rng.randint(1, 7)):
        k = min(rng.choice([1, 1, 2, 2, 3]), n)
        ops.append(extra_qasm_gates(cirq, rng, k).on(*rng.sample(qs, k)))
    return cirq.Circuit(ops), qs


def measured_circuit(cirq, rng):
    n = rng.randint(1, 3)
    qs = cirq.LineQubit.range(n)
    ops, keys = [], {}
    names = ['a', 'b', 'k 1', 'c']
    for _ in range(rng.randint(2, 8)):
        r = rng.random()
        if r < 0.45 or (r < 0.6 and not keys):
            k = min(rng.choice([1, 1, 2]), n)
            g = extra_qasm_gates(cirq, rng, k) if rng.random() < 0.6 else {1: gen.one_qubit_gate, 2: gen.two_qubit_gate}[k](cirq, rng)
            ops.append(g.on(*rng.sample(qs, k)))
        elif r < 0.72 or not keys:
            if keys and rng.random() < 0.15:
                key = rng.choice(list(keys))  # the same key measured again (same width)
                width = keys[key]
            else:
                free = [x for x in names if x not in keys]
                if not free:
                    continue
                key = free[0]
                width = min(rng.choice([1, 1, 2, 2, 3]), n)
                keys[key] = width
            t = rng.sample(qs, width)
            ops.append(cirq.measure(*t, key=key, invert_mask=tuple(rng.random() < 0.4 for _ in t)))
        elif r < 0.93:
            key = rng.choice(list(keys))
            count = sum(1 for o in ops if cirq.is_measurement(o) and key in cirq.measurement_key_names(o))
            index = rng.choice([-1, -1, -1, 0, count - 1])
            base = rng.choice([cirq.X, cirq.Z, cirq.H, cirq.X**0.5, cirq.Y**0.3]).on(rng.choice(qs))
            if rng.random() < 0.35:
                # sub-operations whose QASM form takes several statements: all of them are conditional
                kk = min(rng.choice([1, 2, 3]), n)
                multi = {1: [cirq.H**0.5, cirq.PhasedXPowGate(phase_exponent=0.3, exponent=0.4), cirq.H**-0.25],
                         2: [cirq.CZ**0.5, cirq.ISWAP, cirq.SWAP**0.5, cirq.ZZ**0.3, cirq.IdentityGate(2)], 3: [cirq.CCZ, cirq.CCX**0.5, cirq.CSWAP, cirq.CCY]}[kk]
                base = rng.choice(multi).on(*rng.sample(qs, kk))
            if rng.random() < 0.35 and ' ' not in key:
                import sympy

                cond = cirq.SympyCondition(sympy.Eq(sympy.Symbol(key), rng.randrange(2 ** keys[key])))
            else:
                cond = cirq.KeyCondition(cirq.MeasurementKey(key), index)
            # (the same control spelled as an `If` operation)
            ops.append(cirq.If(cond, base) if hasattr(cirq, 'If') and rng.random() < 0.35 else base.with_classical_controls(cond))
        else:
            ops.append(cirq.reset(rng.choice(qs)))
    if not keys:
        ops.append(cirq.measure(qs[0], key='a'))
    if rng.random() < 0.7:
        # make the effect of every earlier (conditional) operation observable
        ops.append(cirq.measure(*qs, key='fin'))
    return cirq.Circuit(ops), qs


def key_of_creg(prog, name):
    if name in prog.creg_comment:
        return prog.creg_comment[name]
    return name[2:] if name.startswith('m_') else name


def run(ctx: common.Run):
    import cirq

    ctx.rule = (
        'unitary stream: circuits of 1..7 operations on 1..4 qubits over the gate library (families with their own QASM form at special '
        'and generic exponents, arbitrary 1/2-qubit matrices, 3-qubit gates), random qubit_order and precision, both language versions; '
        'measured stream: 1..3 qubits with measurements (invert masks, 1..2 bits, repeated keys), single-key classical controls, resets; '
        'non-trivial = at least one multi-qubit or decomposed operation (unitary stream) / at least two outcomes (measured stream); '
        'distinct by emitted text'
    )
    ctx.trusted += [
        'harness/qasm_reader.py (syntax only: tokenising statements, evaluating real parameter expressions) and harness/props/c19.py',
        'lean/CirqVerif/Spec/Qasm.lean is the transcription of qelib1.inc (Qiskit-extended: sx, sxdg, swap, cswap, p, cp) and of the OpenQASM '
        'definition of U and CX; Props.C19 proves it denotes the textbook matrices for the parameter-free gates',
        'the circuit side uses cirq.unitary(op) per operation (C03) composed by the Lean reference semantics (C01/C02)',
        'classical registers correspond to keys by name (m_<key>) or by the "// Measurement: <key>" comment on the declaration',
    ]
    ok, failing = ctx.lean(MODULES)
    if not ok:
        ctx.report_unproved('lean-build', f'{failing}', {'theorem_or_correspondence': failing})
        return
    check_qudits_rejected(ctx, cirq)
    check_emission(ctx, cirq)
    n = 150 if ctx.tier == 'quick' else 2500
    rng = ctx.substream('qasm')
    # ---------------------------------------------------------------- unitary circuits
    cases, reqs = [], []
    q3 = cirq.LineQubit.range(3)
    corpus_u = [  # minimised past failures run first
        (cirq.Circuit(cirq.ThreeQubitDiagonalGate([-0.2, -3.4, 0.99, 1.7, 3.5, -2.3, -3.9, 3.8]).on(q3[1], q3[0], q3[2])), list(q3), '2.0'),
        (cirq.Circuit(cirq.ThreeQubitDiagonalGate([-0.2, -3.4, 0.99, 1.7, 3.5, -2.3, -3.9, 3.8]).on(q3[2], q3[0], q3[1])), list(q3), '3.0'),
        (cirq.Circuit(cirq.X(q3[0]) ** -0.5, cirq.X(q3[1]) ** 0.5), list(q3[:2]), '3.0'),
    ]
    for i in range(n + len(corpus_u)):
        if i < len(corpus_u):
            circuit, order, version = corpus_u[i]
            precision = 10
        else:
            circuit, qs = unitary_circuit(cirq, rng)
            order = list(qs)
            rng.shuffle(order)
            version = rng.choice(['2.0', '2.0', '3.0'])
            precision = rng.choice([10, 10, 10, 6, 14])
        try:
            text = circuit.to_qasm(qubit_order=order, precision=precision, version=version)
        except (ValueError, TypeError) as e:
            ctx.count('rejected', f'{type(e).__name__}:{str(e)[:40]}')
            if isinstance(e, TypeError) or 'Cannot output operation' in str(e):
                # every operation of these circuits has a matrix (possibly under classical control): it must be decomposed, not refused
                ctx.report_witness('qasm:not-decomposed', f'to_qasm refuses an operation that has no QASM form of its own instead of decomposing it: {type(e).__name__}: {str(e)[:120]}',
                                   {'lines': [{'circuit': repr(circuit), 'version': version}], 'impl_out': [str(e)[:300]], 'spec_out': ['decomposed into exportable operations'], 'theorem_or_correspondence': 'Spec.Qasm (decomposition)'})
            continue
        rep = {'lines': [{'circuit': repr(circuit), 'order': [repr(q) for q in order], 'version': version, 'precision': precision, 'qasm': text}]}
        try:
            prog = qasm_reader.parse(text)
        except qasm_reader.QasmSyntaxError as e:
            ctx.report_witness(f'qasm:syntax:v{version[0]}', f'the emitted OpenQASM {version} text is not readable: {e}', dict(rep, impl_out=[text[-400:]], spec_out=[str(e)],
                               theorem_or_correspondence='qasm_reader.parse'))
            continue
        if prog.qreg is None:
            ctx.count('unitary', 'empty')
            continue
        ops = [{'m': [common.c2j(z) for z in cirq.unitary(op).reshape(-1)], 'axes': [order.index(q) for q in op.qubits]}
               for op in circuit.all_operations() if op.qubits]
        cases.append((circuit, order, version, precision, text, prog, rep))
        reqs.append({'p': 'C19', 'op': 'unitary', 'nq': prog.qreg[1], 'stmts': stmts_json(prog.stmts), 'stdgates3': version == '3.0'})
        reqs.append({'p': 'C01', 'op': 'unitary', 'shape': [2] * len(order), 'ops': ops})
    outs = ctx.driver.ask(reqs)
    for j, (circuit, order, version, precision, text, prog, rep) in enumerate(cases):
        q_out, c_out = outs[2 * j], outs[2 * j + 1]
        ops_list = list(circuit.all_operations())
        nontrivial = any(len(o.qubits) >= 2 for o in ops_list)
        ctx.case(text, nontrivial, sample={'qasm': text[:500]} if nontrivial and len(ctx.samples) < 2 else None)
        ctx.count('version', version)
        for s in prog.stmts:
            ctx.count('gate', s.get('name', s['kind']))
        if 'undefined_gate' in q_out:
            g = q_out['undefined_gate']
            ctx.report_witness(f'qasm:undefined-gate:{g}:v{version[0]}',
                               f'the emitted OpenQASM {version} uses the gate "{g}", which the standard library of that version does not define',
                               dict(rep, impl_out=[g], spec_out=['stdgates.inc' if version == '3.0' else 'qelib1.inc'], theorem_or_correspondence='Spec.Qasm.expandGate / stdgates3'))
            continue
        if prog.qreg[1] != len(order):
            ctx.report_witness('qasm:register-size', 'the quantum register does not have one qubit per circuit qubit', dict(rep, impl_out=[prog.qreg[1]], spec_out=[len(order)], theorem_or_correspondence='register'))
            continue
        got = np.array([[common.j2c(z) for z in row] for row in q_out['matrix']])
        want = np.array([[common.j2c(z) for z in row] for row in c_out])
        tol = max(10.0 ** (-precision) * 40 * (len(prog.stmts) + 1), 2e-7)
        ctx.count('unitary', 'compared')
        if not phase_close(got, want, tol):
            ctx.report_witness(f'qasm:unitary:v{version[0]}', 'the emitted OpenQASM text does not denote the unitary of the circuit (up to global phase)',
                               dict(rep, impl_out=[str(np.round(got, 5).tolist())[:1500]], spec_out=[str(np.round(want, 5).tolist())[:1500]],
                                    theorem_or_correspondence='Spec.Qasm.gateListColumns vs applyOps'))
    # ---------------------------------------------------------------- measured circuits
    cases, reqs = [], []
    import sympy

    corpus_m = [
        (cirq.Circuit(cirq.X(q3[0]), cirq.measure(q3[0], q3[1], key='a'), cirq.X(q3[2]).with_classical_controls(sympy.Eq(sympy.Symbol('a'), 2)),
                      cirq.measure(q3[2], key='out')), list(q3), '2.0'),
        (cirq.Circuit(cirq.X(q3[0]), cirq.measure(q3[0], key='a'), cirq.measure(q3[1], key='a'),
                      cirq.X(q3[2]).with_classical_controls(cirq.KeyCondition(cirq.MeasurementKey('a'), 0)), cirq.measure(q3[2], key='out')), list(q3), '2.0'),
        (cirq.Circuit(cirq.X(q3[0]), cirq.measure(q3[0], q3[1], key='k 1'), cirq.X(q3[2]).with_classical_controls('k 1'),
                      cirq.measure(q3[2], key='out')), list(q3), '3.0'),
    ]
    # a key compared with a constant, for every register width, constant and measured value (H on every measured qubit: all values occur
    # in one distribution); the register is little-endian while the key's integer is big-endian over its qubits
    q4 = cirq.LineQubit.range(4)
    combos = [(w, c) for w in (2, 3) for c in range(2 ** w)]
    if ctx.tier == 'quick':
        combos = [(w, c) for (w, c) in combos if (w + c + ctx.seed) % 2 == 0 or c in (1, 2)]
    for w, c in combos:
        corpus_m.append((cirq.Circuit(cirq.H.on_each(*q4[:w]), cirq.measure(*q4[:w], key='a'), cirq.X(q4[3]).with_classical_controls(sympy.Eq(sympy.Symbol('a'), c)), cirq.measure(q4[3], key='out')),
                         list(q4[:w]) + [q4[3]], '2.0' if c % 2 else '3.0'))
    for i in range(n + len(corpus_m)):
        if i < len(corpus_m):
            circuit, order, version = corpus_m[i]
        else:
            circuit, qs = measured_circuit(cirq, rng)
            order = list(qs)
            rng.shuffle(order)
            version = rng.choice(['2.0', '2.0', '3.0'])
        try:
            text = circuit.to_qasm(qubit_order=order, version=version)
        except (ValueError, TypeError) as e:
            ctx.count('rejected', f'{type(e).__name__}:{str(e)[:40]}')
            if isinstance(e, TypeError) or 'Cannot output operation' in str(e):
                # every operation of these circuits has a matrix (possibly under classical control): it must be decomposed, not refused
                ctx.report_witness('qasm:not-decomposed', f'to_qasm refuses an operation that has no QASM form of its own instead of decomposing it: {type(e).__name__}: {str(e)[:120]}',
                                   {'lines': [{'circuit': repr(circuit), 'version': version}], 'impl_out': [str(e)[:300]], 'spec_out': ['decomposed into exportable operations'], 'theorem_or_correspondence': 'Spec.Qasm (decomposition)'})
            continue
        rep = {'lines': [{'circuit': repr(circuit), 'order': [repr(q) for q in order], 'version': version, 'qasm': text}]}
        try:
            prog = qasm_reader.parse(text)
        except qasm_reader.QasmSyntaxError as e:
            ctx.report_witness(f'qasm:syntax:v{version[0]}', f'the emitted OpenQASM {version} text is not readable: {e}', dict(rep, impl_out=[text[-400:]], spec_out=[str(e)],
                               theorem_or_correspondence='qasm_reader.parse'))
            continue
        init = [0j] * (2 ** len(order))
        init[0] = 1
        cases.append((circuit, order, version, text, prog, rep))
        reqs.append({'p': 'C19', 'op': 'dist', 'nq': prog.qreg[1], 'cregs': prog.cregs, 'stmts': stmts_json(prog.stmts), 'stdgates3': version == '3.0'})
        reqs.append({'p': 'C02', 'op': 'dist', 'shape': [2] * len(order), 'init': [common.c2j(z) for z in init], 'ops': lean_ops(cirq, circuit, order)})
    outs = ctx.driver.ask(reqs)
    for j, (circuit, order, version, text, prog, rep) in enumerate(cases):
        q_out, c_out = outs[2 * j], outs[2 * j + 1]
        ctx.count('version', version)
        if 'undefined_gate' in q_out:
            g = q_out['undefined_gate']
            ctx.case(text, False)
            ctx.report_witness(f'qasm:undefined-gate:{g}:v{version[0]}',
                               f'the emitted OpenQASM {version} uses the gate "{g}", which the standard library of that version does not define',
                               dict(rep, impl_out=[g], spec_out=['stdgates.inc' if version == '3.0' else 'qelib1.inc'], theorem_or_correspondence='Spec.Qasm.expandGate / stdgates3'))
            continue
        want = {}
        for b in c_out['branches']:
            final = tuple(sorted((k, tuple(v[-1])) for k, v in b['records']))  # a register holds the last value written
            want[final] = want.get(final, 0.0) + common.b2f(b['p'])
        got = {}
        for b in q_out['branches']:
            final = tuple(sorted((key_of_creg(prog, name), tuple(bits)) for name, bits in b['cregs']))
            got[final] = got.get(final, 0.0) + common.b2f(b['p'])
        # keys never written in some branch are absent from the records but present (all zero) as registers
        allkeys = {k for f in got for k, _ in f}
        widths = {k: len(v) for f in got for k, v in f}
        want2 = {}
        for f, p in want.items():
            d = dict(f)
            full = tuple(sorted((k, d.get(k, (0,) * widths[k])) for k in allkeys))
            want2[full] = want2.get(full, 0.0) + p
        ctx.case(text, len(want2) >= 2, sample={'qasm': text[:500]} if len(want2) >= 3 and len(ctx.samples) < 4 else None)
        ctx.count('dist', 'compared')
        keys = set(got) | set(want2)
        if not all(abs(got.get(k, 0.0) - want2.get(k, 0.0)) < 1e-6 for k in keys):
            repeated = len({k for o in circuit.all_operations() if cirq.is_measurement(o) for k in cirq.measurement_key_names(o)}) < sum(1 for o in circuit.all_operations() if cirq.is_measurement(o))
            sig = f'qasm:dist:v{version[0]}' + (':repeated-key' if repeated else '')
            ctx.report_witness(sig, 'the classical registers of the emitted OpenQASM program do not have the joint distribution of the circuit\'s measurement results',
                               dict(rep, impl_out=[sorted((repr(k), round(v, 8)) for k, v in got.items())], spec_out=[sorted((repr(k), round(v, 8)) for k, v in want2.items())],
                                    theorem_or_correspondence='Spec.Qasm.runProgram vs Spec.Circuit.run'))


def check_emission(ctx, cirq):
    """Cirq prints exactly the spellings whose meaning Props/C19b.lean proves for every parameter value (angles in half turns):
    the theorem on the left decides what the line means, this stream that the line is what the gate family emits."""
    rng = ctx.substream('emission')
    q = cirq.LineQubit(0)
    n = 40 if ctx.tier == 'quick' else 600

    def generic():
        while True:
            t = round(rng.uniform(-0.99, 0.99), 4)
            if min(abs(t - x) for x in (-1, -0.75, -0.5, -0.25, 0, 0.25, 0.5, 0.75, 1)) > 1e-3:
                return t

    for it in range(n):
        t, p, shift = generic(), round(rng.uniform(-1, 1), 4), rng.choice([0, -0.5, 0.25])
        th, ph, lm = (round(rng.uniform(0.01, 1.99), 4) for _ in range(3))
        cases = [
            ('C19_emit_rx', cirq.XPowGate(exponent=t, global_shift=shift), [('rx', [t])]),
            ('C19_emit_rx', cirq.rx(math.pi * t), [('rx', [t])]),
            ('C19_emit_ry', cirq.YPowGate(exponent=t, global_shift=shift), [('ry', [t])]),
            ('C19_emit_ry', cirq.ry(math.pi * t), [('ry', [t])]),
            ('C19_emit_rz', cirq.ZPowGate(exponent=t, global_shift=shift), [('rz', [t])]),
            ('C19_emit_rz', cirq.rz(math.pi * t), [('rz', [t])]),
            ('C19_emit_hpow', cirq.HPowGate(exponent=t, global_shift=shift), [('ry', [0.25]), ('rx', [t]), ('ry', [-0.25])]),
            ('C19_emit_phasedx', cirq.PhasedXPowGate(exponent=t, phase_exponent=p), [('u3', [-t, p + 0.5, -p - 0.5])]),
            ('C19_emit_phasedx_half', cirq.PhasedXPowGate(exponent=0.5, phase_exponent=p), [('u2', [p - 0.5, -p + 0.5])]),
            ('C19_emit_phasedx_neg_half', cirq.PhasedXPowGate(exponent=-0.5, phase_exponent=p), [('u2', [p + 0.5, -p - 0.5])]),
            ('C19_qasm_u_gate', cirq.circuits.qasm_output.QasmUGate(th, ph, lm), [('u3', [th, ph, lm])]),
        ]
        for rule, gate, want in cases:
            ctx.count('check', 'emission:' + rule)
            ctx.case(['emission', rule, repr(gate)], True)
            rep = {'lines': [{'rule': rule, 'gate': repr(gate)}], 'theorem_or_correspondence': rule}
            try:
                text = cirq.Circuit(gate.on(q)).to_qasm(precision=10)
                prog = qasm_reader.parse(text)
                got = [(s['name'], [x / math.pi for x in s['params']]) for s in prog.stmts if s['kind'] == 'gate']
            except Exception as e:  # noqa: BLE001
                ctx.report_witness(f'emission:{rule}:raises', 'a library gate cannot be exported', dict(rep, impl_out=[f'{type(e).__name__}: {e}'[:300]], spec_out=[repr(want)]))
                continue
            same = len(got) == len(want) and all(a[0] == b[0] and len(a[1]) == len(b[1]) and all(abs(x - y) < 1e-8 for x, y in zip(a[1], b[1])) for a, b in zip(got, want))
            if same:
                continue
            # a different spelling is not a violation by itself: the float interpretation of the text decides
            out = ctx.driver.ask([{'p': 'C19', 'op': 'unitary', 'nq': 1, 'stmts': stmts_json([s for s in prog.stmts if s['kind'] == 'gate']), 'stdgates3': False}])[0]
            u = cirq.unitary(gate)
            cols = np.array([[common.j2c(z) for z in row] for row in out['matrix']]) if 'matrix' in out else None
            if cols is not None and phase_close(cols, u, 1e-6):
                ctx.report_unproved(rule, 'the gate is no longer exported with the spelling the theorem is about (the text still denotes the gate in floats)', dict(rep, impl_out=[repr(got)], spec_out=[repr(want)]))
            else:
                ctx.report_witness(f'emission:{rule}', 'the exported line does not denote the gate', dict(rep, impl_out=[repr(got)], spec_out=[repr(want)]))


def check_qudits_rejected(ctx, cirq):
    """OpenQASM has qubits only: a circuit on qudits is refused, not written with the qubit gates of the same name"""
    q3 = cirq.LineQid(0, 3)
    for g in (cirq.XPowGate(dimension=3), cirq.ZPowGate(dimension=3), cirq.IdentityGate(qid_shape=(3,)), cirq.MatrixGate(np.eye(3), qid_shape=(3,))):
        for version in ('2.0', '3.0'):
            ctx.count('check', 'qudit-rejected')
            ctx.case(['qudit', repr(g), version], True)
            try:
                text = cirq.Circuit(g.on(q3)).to_qasm(version=version)
            except (ValueError, TypeError):
                continue
            ctx.report_witness('qasm:qudit-exported', 'a qudit operation is written as a qubit gate', {'lines': [{'gate': repr(g), 'version': version}], 'impl_out': [text[-200:]], 'spec_out': ['rejected'],
                                                                                                      'theorem_or_correspondence': 'Spec.Qasm (qubit registers)'})


def replay(ctx, rep):
    print(json.dumps(rep, indent=1)[:3000])
    return 1
