"""C02 — Measurement outcomes follow the Born rule exactly, incl. feed-forward.

Lean: CirqVerif.Spec.Circuit is the reference semantics (projective measurement with unnormalised collapse,
confusion map applied before the invert mask, repeated keys, classical control reading the records);
Props.C02 proves the projector algebra it rests on.  Tie (T2): a scripted PRNG passed as `seed` makes the
real simulators enumerate *every* branch of their random draws with the exact probability they request;
the resulting joint record distribution is compared with the Lean distribution — for terminal and
mid-circuit measurement placements, Simulator (split on/off), DensityMatrixSimulator, CliffordSimulator.
"""
from __future__ import annotations

import json

import numpy as np

from harness import common, gen
from harness.scripted import Scripted, enumerate_branches

MODULES = ['CirqVerif.Props.C02']


# ------------------------------------------------------------------------------ circuit generator
def gen_circuit(cirq, rng, clifford=False, qudits=False, deep=False):
    n = rng.randint(2, 3) if deep else rng.randint(1, 3)
    dims = [2] * n
    if qudits:
        dims = [rng.choice([2, 3]) for _ in range(n)]
    qs = [cirq.LineQid(i, d) if d != 2 else cirq.LineQubit(i) for i, d in enumerate(dims)]
    ops = []
    keys_seen = []
    nkeys = 0

    def unitary_op():
        k = min(rng.choice([1, 1, 2]), n)
        t = rng.sample(qs, k)
        if any(q.dimension != 2 for q in t):
            return gen.qudit_gate(cirq, rng, [q.dimension for q in t]).on(*t)
        if clifford:
            g = {1: [cirq.H, cirq.X, cirq.Y, cirq.Z, cirq.S, cirq.X**0.5, cirq.Y**-0.5, cirq.S**-1],
                 2: [cirq.CNOT, cirq.CZ, cirq.SWAP]}[k]
            return rng.choice(g).on(*t)
        if k == 1:
            return rng.choice([cirq.H, cirq.X**0.5, cirq.Y**0.25, cirq.X, cirq.ry(1.1), cirq.X**0.3, cirq.T]).on(*t)
        return rng.choice([cirq.CNOT, cirq.CZ**0.5, cirq.ISWAP**0.5, cirq.SWAP, cirq.CZ]).on(*t)

    def pauli_measurement():
        nonlocal nkeys
        k = min(rng.choice([1, 2, 2, 3]), n)
        t = rng.sample(qs, k)
        ps = cirq.DensePauliString([rng.choice([cirq.X, cirq.Y, cirq.Z]) for _ in t], coefficient=rng.choice([1, 1, -1])).on(*t)
        key = 'k%d' % nkeys
        nkeys += 1
        keys_seen.append(key)
        return cirq.measure_single_paulistring(ps, key=key)

    def measurement():
        nonlocal nkeys
        if not qudits and rng.random() < 0.25:
            return pauli_measurement()
        k = min(rng.choice([1, 1, 2, 3]), n)
        t = rng.sample(qs, k)
        if keys_seen and rng.random() < 0.25:
            key = rng.choice(keys_seen)  # repeated key (same number of qubits required)
            prev = [o for o in ops if cirq.is_measurement(o) and key in cirq.measurement_key_names(o)][0]
            if isinstance(prev.gate, cirq.PauliMeasurementGate):
                return cirq.measure(*rng.sample(qs, 1), key=key)
            t = rng.sample(qs, len(prev.qubits)) if len(prev.qubits) <= n else t
            if [q.dimension for q in t] != [q.dimension for q in prev.qubits]:
                t = list(prev.qubits)
        else:
            key = 'k%d' % nkeys
            nkeys += 1
            keys_seen.append(key)
        inv = tuple(rng.random() < 0.35 for _ in t) if not clifford or True else ()
        cm = {}
        if not clifford and rng.random() < 0.35:
            pos = tuple(sorted(rng.sample(range(len(t)), rng.choice([1, 1, min(2, len(t))]))))
            d = int(np.prod([t[p].dimension for p in pos]))
            m = np.array([[rng.random() + (3 if i == j else 0) for j in range(d)] for i in range(d)])
            if rng.random() < 0.3:
                m = np.array([[1.0 if j == (i + 1) % d else 0.0 for j in range(d)] for i in range(d)])  # deterministic relabel
            m = m / m.sum(axis=1, keepdims=True)
            cm = {pos: m}
            if len(t) >= 2 and rng.random() < 0.3:
                # a second group, possibly overlapping the first (each group is conditioned on the actual outcome)
                pos2 = tuple(sorted(rng.sample(range(len(t)), rng.choice([1, 2]))))
                if pos2 != pos:
                    d2 = int(np.prod([t[p].dimension for p in pos2]))
                    m2 = np.array([[rng.random() + (2 if i == j else 0) for j in range(d2)] for i in range(d2)])
                    cm[pos2] = m2 / m2.sum(axis=1, keepdims=True)
        return cirq.MeasurementGate(len(t), key=key, invert_mask=inv, confusion_map=cm, qid_shape=tuple(q.dimension for q in t)).on(*t)

    def controlled():
        base = unitary_op()
        key = rng.choice(keys_seen)
        meas = [o for o in ops if cirq.is_measurement(o) and key in cirq.measurement_key_names(o)]
        count = len(meas)
        r = rng.random()
        if r < 0.5 or clifford:
            idx = rng.choice([-1, -1, 0, count - 1, -count])
            cond = cirq.KeyCondition(cirq.MeasurementKey(key), idx)
        else:
            width = len(meas[0].qubits)
            mask = rng.choice([None, 1, 2, 3, (1 << width) - 1])
            target = rng.randrange(1 << width)
            cond = cirq.BitMaskKeyCondition(key, index=rng.choice([-1, 0]), target_value=target if mask is None else target & mask,
                                            equal_target=rng.random() < 0.5, bitmask=mask)
        r2 = rng.random()
        if r2 < 0.55 or not hasattr(cirq, 'If'):
            return base.with_classical_controls(cond)
        # a second condition (possibly on another key / another record of the same key) and the `If` spellings of the same control
        key2 = rng.choice(keys_seen)
        count2 = len([o for o in ops if cirq.is_measurement(o) and key2 in cirq.measurement_key_names(o)])
        cond2 = cirq.KeyCondition(cirq.MeasurementKey(key2), rng.choice([-1, 0, count2 - 1]))
        v = rng.randrange(6)
        if v == 0:
            return base.with_classical_controls(cond, cond2)
        if v == 1:
            return cirq.If(cond, base)
        if v == 2:
            return cirq.If([cond, cond2], base)
        if v == 3:
            return cirq.If(cond2, cirq.If(cond, base))
        if v == 4:
            return cirq.If(cond, base.with_classical_controls(cond2))
        return cirq.If([cond2, cond], base).with_tags('t')

    for _ in range(rng.randint(6, 11) if deep else rng.randint(1, 7)):
        r = rng.random()
        if r < 0.45 or (not keys_seen and r < 0.6):
            ops.append(unitary_op())
        elif r < 0.8 or not keys_seen:
            ops.append(measurement())
        else:
            ops.append(controlled())
    if not any(cirq.is_measurement(o) for o in ops):
        ops.append(measurement())
    style = rng.random()
    if style < 0.4:
        # force the measurements to be terminal: move them to the end (legal only without feed-forward)
        if not any(cirq.control_keys(o) for o in ops):
            ms = [o for o in ops if cirq.is_measurement(o)]
            used = set()
            term = []
            for m in ms:  # terminal fast path requires distinct qubits per measurement? keep as generated
                term.append(m)
            ops = [o for o in ops if not cirq.is_measurement(o)] + term
    circuit = cirq.Circuit(ops)
    return circuit, qs


# ------------------------------------------------------------------------------ translation to Lean ops
def _sympy_eq(c):
    import sympy

    e = c.expr
    if isinstance(e, sympy.Equality) and isinstance(e.lhs, sympy.Symbol) and isinstance(e.rhs, sympy.Integer) and int(e.rhs) >= 0:
        return str(e.lhs), int(e.rhs)
    return None


def lean_ops(cirq, circuit, order):
    pos = {q: i for i, q in enumerate(order)}
    out = []

    def conv(op):
        if isinstance(op, cirq.ClassicallyControlledOperation) or (hasattr(cirq, 'If') and isinstance(op, cirq.If)):
            conds = []
            for c in op.classical_controls:
                if isinstance(c, cirq.KeyCondition):
                    conds.append({'key': str(c.key), 'index': c.index})
                elif isinstance(c, cirq.BitMaskKeyCondition):
                    meas = [o for o in circuit.all_operations() if cirq.is_measurement(o) and str(c.key) in cirq.measurement_key_names(o)]
                    conds.append({'key': str(c.key), 'index': c.index, 'bitmask_kind': 1, 'target': c.target_value, 'equal': c.equal_target,
                                  'mask': c.bitmask, 'dims': [q.dimension for q in meas[0].qubits]})
                elif isinstance(c, cirq.SympyCondition) and _sympy_eq(c) is not None:
                    # Eq(Symbol(key), constant): the (big-endian) integer value of the latest record equals the constant
                    key, target = _sympy_eq(c)
                    meas = [o for o in circuit.all_operations() if cirq.is_measurement(o) and key in cirq.measurement_key_names(o)]
                    conds.append({'key': key, 'index': -1, 'bitmask_kind': 1, 'target': target, 'equal': True, 'mask': None,
                                  'dims': [q.dimension for q in meas[0].qubits]})
                else:
                    raise common.InfraError(f'unsupported condition {c!r}')
            return {'kind': 'cc', 'conds': conds, 'op': conv(op.without_classical_controls())}
        if isinstance(op.gate, cirq.MeasurementGate):
            g = op.gate
            cms = [{'positions': list(k), 'matrix': [[common.f2b(x) for x in row] for row in np.asarray(m)]} for k, m in g.confusion_map.items()]
            return {'kind': 'meas', 'key': str(g.key), 'axes': [pos[q] for q in op.qubits], 'invert': [bool(b) for b in g.full_invert_mask()], 'confusion': cms}
        if isinstance(op.gate, cirq.PauliMeasurementGate):
            # projectors (1 ± observable)/2 built from the Pauli factors and the sign, not from Cirq's decomposition
            obs = op.gate.observable()
            mats = {'I': np.eye(2), 'X': np.array([[0, 1], [1, 0]]), 'Y': np.array([[0, -1j], [1j, 0]]), 'Z': np.diag([1, -1])}
            full = np.array([[complex(obs.coefficient)]])
            for pg in obs:
                full = np.kron(full, mats[str(pg)])
            eye = np.eye(full.shape[0])
            projs = [(eye + full) / 2, (eye - full) / 2]
            return {'kind': 'pmeas', 'key': str(op.gate.key), 'projs': [[common.c2j(z) for z in pm.reshape(-1)] for pm in projs], 'axes': [pos[q] for q in op.qubits]}
        if isinstance(op.gate, cirq.ResetChannel):
            return {'kind': 'reset', 'axes': [pos[q] for q in op.qubits]}
        if cirq.has_unitary(op):
            return {'kind': 'u', 'm': [common.c2j(z) for z in cirq.unitary(op).reshape(-1)], 'axes': [pos[q] for q in op.qubits]}
        ks = cirq.kraus(op)
        return {'kind': 'kraus', 'ks': [[common.c2j(z) for z in np.asarray(k).reshape(-1)] for k in ks], 'axes': [pos[q] for q in op.qubits]}

    for moment in circuit:
        for op in moment.operations:
            out.append(conv(op.untagged))
    return out


def _or(x, default):
    return default if x is NotImplemented else x


def records_key(records):
    return tuple(sorted((k, tuple(tuple(int(x) for x in inst) for inst in v[0])) for k, v in records.items()))


def lean_dist(out):
    d = {}
    for b in out['branches']:
        key = tuple(sorted((k, tuple(tuple(inst) for inst in v)) for k, v in b['records']))
        d[key] = d.get(key, 0.0) + common.b2f(b['p'])
    return d


def dist_close(a, b, tol=2e-6):
    keys = set(a) | set(b)
    return all(abs(a.get(k, 0.0) - b.get(k, 0.0)) <= tol for k in keys)


def run(ctx: common.Run):
    import cirq

    ctx.rule = (
        'random circuits on 1..3 wires (qubits; qutrits in the qudit stream) with 1..7 operations: unitary gates, measurements (1..3 qudits, '
        'invert masks, row-stochastic confusion maps on subsets, repeated keys), operations controlled by KeyCondition(key, index) / '
        'BitMaskKeyCondition; terminal and mid-circuit placement; every branch of the random draws of the simulator is enumerated; '
        'non-trivial = >= 2 branches with non-zero probability; distinct by circuit repr'
    )
    ctx.trusted += [
        'harness/props/c02.py + harness/scripted.py + lean/Driver/C02.lean (T2 on generated circuits only; probability tolerance 2e-6)',
        'numpy RandomState.choice(p=...) selects index k with probability p[k] (the scripted generator records p and returns k)',
        'operation matrices are cirq.unitary(op) (C03)',
    ]
    ok, failing = ctx.lean(MODULES)
    if not ok:
        ctx.report_unproved('lean-build', f'{failing}', {'theorem_or_correspondence': failing})
        return
    check_seeded_sampling(ctx, cirq)
    check_state_api_seeds(ctx, cirq)
    # feed-forward on the integer value of mixed-dimension records (the classical data store against the Lean digits model)
    from harness.props import c18
    c18.check_classical_store_ints(ctx, cirq)
    check_scoped_feed_forward(ctx, cirq)
    check_sampling_is_pure(ctx, cirq)
    n = 160 if ctx.tier == 'quick' else 1500
    rng = ctx.substream('circuits')
    corpus = common.VERIF / 'corpus' / 'C02'
    cases = []
    for i in range(n):
        mode = rng.choice(['general'] * 4 + ['clifford'] * 2 + ['clifford-deep'] * 2 + ['qudit'])
        circuit, qs = gen_circuit(cirq, rng, clifford=mode.startswith('clifford'), qudits=(mode == 'qudit'), deep=(mode == 'clifford-deep'))
        # the same circuit spelled through a key rewrite: the records are those of the plain circuit under the renamed keys
        spell = rng.choice(['plain'] * 5 + ['keymap-subcircuit', 'rep-id', 'op-rekey', 'nested', 'path-prefix'])
        keys = sorted(cirq.measurement_key_names(circuit))
        if spell == 'keymap-subcircuit':
            run_c, ren = cirq.Circuit(cirq.CircuitOperation(circuit.freeze(), measurement_key_map={k: 'r_' + k for k in keys})), (lambda k: 'r_' + k)
        elif spell == 'rep-id':
            run_c, ren = cirq.Circuit(cirq.CircuitOperation(circuit.freeze(), repetitions=1, repetition_ids=['a'], use_repetition_ids=True)), (lambda k: 'a:' + k)
        elif spell == 'op-rekey':
            run_c, ren = cirq.Circuit(_or(cirq.with_measurement_key_mapping(op, {k: 'r_' + k for k in keys}), op) for op in circuit.all_operations()), (lambda k: 'r_' + k)
        elif spell == 'nested':
            inner = cirq.CircuitOperation(circuit.freeze(), measurement_key_map={k: 'i_' + k for k in keys})
            run_c, ren = cirq.Circuit(cirq.CircuitOperation(cirq.FrozenCircuit(inner), repetitions=1, repetition_ids=['b'], use_repetition_ids=True)), (lambda k: 'b:i_' + k)
        elif spell == 'path-prefix':
            run_c, ren = cirq.Circuit(_or(cirq.with_key_path_prefix(op, ('p',)), op) for op in circuit.all_operations()), (lambda k: 'p:' + k)
        else:
            run_c, ren = circuit, None
        cases.append((mode if ren is None else mode + '+' + spell, circuit, qs, run_c, ren))
    # the F1 witness (terminal measurement with invert mask and asymmetric confusion map) always runs
    q = cirq.LineQubit(0)
    m = cirq.MeasurementGate(1, key='k', invert_mask=(True,), confusion_map={(0,): np.array([[1, 0], [0.5, 0.5]])}).on(q)
    cases.insert(0, ('corpus-F1-terminal', cirq.Circuit(m), [q], cirq.Circuit(m), None))
    cases.insert(1, ('corpus-F1-midcircuit', cirq.Circuit(m, cirq.I(q)), [q], cirq.Circuit(m, cirq.I(q)), None))
    reqs = []
    for mode, circuit, qs, run_c, ren in cases:
        dims = [q.dimension for q in qs]
        init = [0j] * int(np.prod(dims))
        init[0] = 1
        reqs.append({'p': 'C02', 'op': 'dist', 'shape': dims, 'init': [common.c2j(z) for z in init], 'ops': lean_ops(cirq, circuit, qs)})
    outs = ctx.driver.ask(reqs)
    for (mode, circuit, qs, run_c, ren), out in zip(cases, outs):
        want = lean_dist(out)
        plain = circuit
        if ren is not None:
            want = {tuple(sorted((ren(k), v) for k, v in key)): pr for key, pr in want.items()}
            ctx.count('spelling', mode.split('+')[1])
            circuit = run_c
        mode = mode.split('+')[0]
        ctx.count('mode', mode if mode.startswith('clifford') else mode.split('-')[0])
        terminal = plain.are_all_measurements_terminal()
        ctx.count('placement', 'terminal' if terminal else 'mid-circuit')
        ctx.case(repr(circuit), len(want) >= 2, sample={'circuit': str(circuit), 'branches': len(want)} if len(want) >= 3 and len(ctx.samples) < 3 else None)
        sims = {
            'Simulator[split=True]': lambda p: cirq.Simulator(seed=p, dtype=np.complex128, split_untangled_states=True),
            'Simulator[split=False]': lambda p: cirq.Simulator(seed=p, dtype=np.complex128, split_untangled_states=False),
            'DensityMatrixSimulator': lambda p: cirq.DensityMatrixSimulator(seed=p, dtype=np.complex128),
        }
        if mode.startswith('clifford'):
            sims['CliffordSimulator'] = lambda p: cirq.CliffordSimulator(seed=p)
            sims['StabilizerSampler'] = lambda p: cirq.StabilizerSampler(seed=p)
        for sname, mk in sims.items():
            def once(prng, mk=mk):
                r = mk(prng).run(circuit, repetitions=1)
                return records_key(r.records)
            try:
                got = enumerate_branches(once)
            except (ValueError, TypeError, NotImplementedError) as e:
                ctx.count('sim_error', f'{sname}:{type(e).__name__}')
                continue
            except RuntimeError as e:
                if 'too many branches' not in str(e):
                    raise
                ctx.count('sim_skip', f'{sname}:branch-cap')
                continue
            ctx.count('simulator', sname)
            if not dist_close(got, want):
                sig = f'dist:{"terminal" if terminal else "mid"}:{sname.split("[")[0]}'
                ctx.report_witness(
                    sig, f'{sname}.run: joint distribution of records differs from the Born-rule semantics ({"terminal" if terminal else "mid-circuit"} measurements)',
                    {'lines': [{'circuit': repr(circuit)}], 'impl_out': [sorted((repr(k), round(v, 9)) for k, v in got.items())],
                     'spec_out': [sorted((repr(k), round(v, 9)) for k, v in want.items())], 'theorem_or_correspondence': 'Spec.Circuit.run (runDist)'})
        # sampling never changes the state
        if not any(cirq.control_keys(o) for o in plain.all_operations()):
            pre = cirq.Circuit(o for o in plain.all_operations() if not cirq.is_measurement(o))
            step = None
            for step in cirq.Simulator(seed=1, dtype=np.complex128).simulate_moment_steps(pre, qubit_order=qs):
                pass
            if step is not None:
                before = step.state_vector(copy=True)
                step.sample(list(qs), repetitions=3)
                mops = [o for o in plain.all_operations() if isinstance(o.gate, cirq.MeasurementGate)][:1]
                if mops:
                    step.sample_measurement_ops(mops, repetitions=2)
                after = step.state_vector(copy=True)
                ctx.count('check', 'sample-is-pure')
                if not np.allclose(before, after, atol=1e-9):
                    ctx.report_witness('sample:mutates', 'sampling a step result changed its state', {'lines': [{'circuit': repr(pre)}],
                                       'impl_out': [repr(after.tolist())], 'spec_out': [repr(before.tolist())], 'theorem_or_correspondence': 'sample_pure'})


def check_scoped_feed_forward(ctx, cirq):
    """feed-forward across nested sub-circuits: a control key refers to the measurement of that name in the innermost enclosing scope
    (loops with repetition ids at two levels, the same key name measured again in an outer scope, conditions three levels down).
    The flat form and its binding come from the Lean unrolling specification (Model.C12), its record distribution from the Lean
    Born-rule semantics; every simulator runs the nested circuit."""
    from harness.props import c12

    rng = ctx.substream('scoped-ff')
    n = 24 if ctx.tier == 'quick' else 300
    cases = []
    for i in range(n):
        g = c12.Gen(rng)
        # codes with: a measurement in the middle body (always), the same name measured in the outer body / at top level, ids at every level
        # (bits of the template code: 5 = the middle loop has repetition ids, 7 = a key map renames the key in the middle loop, 8 = the same
        # name is also measured in the outer body, 11 = and at top level)
        code = None
        if rng.random() < 0.6:
            code = (rng.randrange(8192) | (1 << 5) | (1 << 8)) & ~(1 << 7)
        moments = g.scoped_template(code)
        # what the conditioned operations did is read out at the end
        i = g.next_id; g.next_id += 1
        g.gates[i] = ('meas', None)
        moments = moments + [[{'op': {'id': i, 'q': [0, 1, 2], 'mkey': {'path': [], 'name': 'zz'}, 'conds': []}}]]
        cases.append((g, moments))
    specs = ctx.driver.ask([{'p': 'C12', 'op': 'unroll', 'moments': m} for _, m in cases])
    reqs, meta = [], []
    for (g, moments), spec in zip(cases, specs):
        b = c12.Builder(cirq, g.gates)
        try:
            wrapped = cirq.Circuit([cirq.Moment([b.node(x) for x in m]) for m in moments])
        except ValueError as e:
            ctx.count('scoped_ff', 'rejected: ' + str(e)[:40])
            continue
        if not any(f['mkey'] for f in spec) or len(spec) > 40:
            continue
        spec_circuit = cirq.Circuit(b.flat_to_cirq(f) for f in spec)
        init = [0j] * (2 ** c12.NQ)
        init[0] = 1
        reqs.append({'p': 'C02', 'op': 'dist', 'shape': [2] * c12.NQ, 'init': [common.c2j(z) for z in init], 'ops': lean_ops(cirq, spec_circuit, list(b.qs))})
        meta.append((wrapped, moments))
    outs = ctx.driver.ask(reqs)
    for (wrapped, moments), out in zip(meta, outs):
        want = lean_dist(out)
        ctx.case(['scoped-ff', repr(moments)], len(want) >= 2)
        for sname, mk in (('Simulator', lambda p: cirq.Simulator(seed=p, dtype=np.complex128)), ('DensityMatrixSimulator', lambda p: cirq.DensityMatrixSimulator(seed=p, dtype=np.complex128))):
            def once(prng, mk=mk):
                return records_key(mk(prng).run(wrapped, repetitions=1).records)
            try:
                got = enumerate_branches(once, max_branches=400)
            except (RuntimeError, ValueError) as e:
                ctx.count('scoped_ff', f'skip:{sname}:{type(e).__name__}')
                continue
            ctx.count('check', f'scoped-feed-forward:{sname}')
            if not dist_close(got, want):
                ctx.report_witness(f'dist:scoped-feed-forward:{sname}', f'{sname}.run of a circuit with nested sub-circuits: the joint distribution of records is not that of the program with every '
                                   'control key bound to the innermost enclosing measurement of that name',
                                   {'lines': [{'circuit': repr(wrapped), 'structure': moments}], 'impl_out': [sorted((repr(k), round(v, 9)) for k, v in got.items())],
                                    'spec_out': [sorted((repr(k), round(v, 9)) for k, v in want.items())], 'theorem_or_correspondence': 'Model.C12.unrollCircuit + Spec.Circuit.run'})


def check_sampling_is_pure(ctx, cirq):
    """asking any state object for samples, or for a measurement without collapse, leaves it as it was: state vector, density matrix and
    stabilizer states (CH form and tableau), entangled and superposed"""
    rng = ctx.substream('pure-sampling')
    qs = cirq.LineQubit.range(3)
    for it in range(6 if ctx.tier == 'quick' else 40):
        prep = cirq.Circuit(cirq.H(qs[0]), cirq.CNOT(qs[0], qs[1]), cirq.H(qs[2]) if rng.random() < 0.5 else cirq.X(qs[2]), [cirq.S(q) for q in qs if rng.random() < 0.4],
                            cirq.CNOT(qs[1], qs[2]) if rng.random() < 0.5 else [])
        want = prep.final_state_vector(qubit_order=qs, dtype=np.complex128)
        ctx.case(['pure-sampling', repr(prep)], True)
        # (a) CliffordState: measurement without collapse
        cs = cirq.CliffordSimulator(seed=1).simulate(prep, qubit_order=qs).final_state
        for k in range(3):
            meas = {}
            cs.apply_measurement(cirq.measure(qs[k], key=f'k{k}'), meas, np.random.RandomState(rng.randrange(1 << 30)), collapse_state_vector=False)
        got = cs.state_vector()
        ctx.count('check', 'pure:CliffordState.apply_measurement(collapse=False)')
        ph = np.vdot(want, got)
        if abs(abs(ph) - 1) > 1e-6:
            ctx.report_witness('sample:mutates:CliffordState', 'CliffordState.apply_measurement(collapse_state_vector=False) changed the state',
                               {'lines': [{'circuit': repr(prep)}], 'impl_out': [repr(np.round(got, 6).tolist())], 'spec_out': [repr(np.round(want, 6).tolist())], 'theorem_or_correspondence': 'sample_pure'})
        # (b) simulation states of every kind: sample() is pure
        for name, sim in (('StateVector', cirq.Simulator(seed=1, dtype=np.complex128)), ('DensityMatrix', cirq.DensityMatrixSimulator(seed=1, dtype=np.complex128)),
                          ('Clifford', cirq.CliffordSimulator(seed=1))):
            for split in ((True, False) if name != 'Clifford' else (True,)):
                if name != 'Clifford':
                    sim = type(sim)(seed=1, dtype=np.complex128, split_untangled_states=split)
                step = None
                for step in sim.simulate_moment_steps(prep, qubit_order=qs):
                    pass
                rep = lambda st: (st.state.state_vector() if name == 'Clifford' else st.state_vector(copy=True)) if name != 'DensityMatrix' else st.density_matrix(copy=True)
                before = np.array(rep(step))
                step.sample(list(qs), repetitions=5, seed=rng.randrange(1 << 30))
                step.sample([qs[1]], repetitions=2, seed=rng.randrange(1 << 30))
                step.sample_measurement_ops([cirq.measure(qs[0], qs[2], key='m')], repetitions=3, seed=rng.randrange(1 << 30))
                after = np.array(rep(step))
                ctx.count('check', f'pure:{name}:step.sample')
                if not np.allclose(before, after, atol=1e-9):
                    ctx.report_witness(f'sample:mutates:{name}', f'sampling a {name} step result (split_untangled_states={split}) changed its state',
                                       {'lines': [{'circuit': repr(prep)}], 'impl_out': [repr(np.round(after, 6).tolist())], 'spec_out': [repr(np.round(before, 6).tolist())], 'theorem_or_correspondence': 'sample_pure'})


def check_state_api_seeds(ctx, cirq):
    """the measure / sample entry points of the state objects draw all their outcomes from one random source: over forty integer seeds
    a two-qubit |++> measured on both axes shows all four outcomes (an integer seed re-used per axis would only ever give 00 and 11)"""
    builders = {
        'StabilizerStateChForm.measure': lambda: cirq.StabilizerStateChForm(2), 'CliffordTableau.measure': lambda: cirq.CliffordTableau(2),
    }
    for name, mk in builders.items():
        seen = set()
        for seed in range(40):
            st = mk()
            st.apply_h(0)
            st.apply_h(1)
            seen.add(tuple(int(b) for b in st.measure([0, 1], seed=seed)))
        ctx.count('check', 'state-api-seeds')
        ctx.case(['state-api-seeds', name], True)
        if seen != {(0, 0), (0, 1), (1, 0), (1, 1)}:
            ctx.report_witness(f'seed:per-axis:{name.split(".")[0]}', f'{name}(axes=[0, 1], seed=<int>) on |++>: the outcomes of the two axes are perfectly correlated over 40 seeds (the seed is re-used for every axis)',
                               {'lines': [{'entry_point': name, 'seeds': '0..39', 'state': '|++>'}], 'impl_out': [sorted(seen)], 'spec_out': ['all four outcomes (each has probability 1/4 per seed)'],
                                'theorem_or_correspondence': 'outcome completeness (one random source per call)'})
    psi = np.full(4, 0.5, dtype=np.complex128)
    seen = {tuple(int(b) for b in cirq.measure_state_vector(psi, [0, 1], seed=seed)[0]) for seed in range(40)}
    seen_dm = {tuple(int(b) for b in cirq.measure_density_matrix(np.outer(psi, psi.conj()).reshape(2, 2, 2, 2), [0, 1], seed=seed)[0]) for seed in range(40)}
    seen_s = {tuple(int(b) for b in row) for seed in range(12) for row in cirq.sample_state_vector(psi, [0, 1], repetitions=4, seed=seed)}
    for name, sn in (('measure_state_vector', seen), ('measure_density_matrix', seen_dm), ('sample_state_vector', seen_s)):
        ctx.count('check', 'state-api-seeds')
        if sn != {(0, 0), (0, 1), (1, 0), (1, 1)}:
            ctx.report_witness(f'seed:per-axis:{name}', f'cirq.{name} on |++> with integer seeds does not show all four outcomes', {'lines': [{'entry_point': name}], 'impl_out': [sorted(sn)], 'spec_out': ['all four outcomes'],
                               'theorem_or_correspondence': 'outcome completeness (one random source per call)'})


def check_seeded_sampling(ctx, cirq):
    """sampling with an integer seed: independent qubits must not be sampled from one and the same stream (two columns of 64
    fair coin flips coincide with probability 2^-64; the seeds are fixed, so the check is deterministic)"""
    qs = cirq.LineQubit.range(3)
    circuit = cirq.Circuit(cirq.H.on_each(*qs))
    for name, mk in (('Simulator', lambda: cirq.Simulator(split_untangled_states=True)), ('DensityMatrixSimulator', lambda: cirq.DensityMatrixSimulator(split_untangled_states=True))):
        step = None
        for step in mk().simulate_moment_steps(circuit, qubit_order=qs):
            pass
        for seed in range(4):
            smp = np.asarray(step.sample(list(qs), repetitions=64, seed=seed)).astype(int)
            ctx.count('check', 'sample:int-seed')
            ctx.case(['sample-int-seed', name, seed], True)
            same = [(i, j) for i in range(3) for j in range(i + 1, 3) if (smp[:, i] == smp[:, j]).all() or (smp[:, i] == 1 - smp[:, j]).all()]
            again = np.asarray(step.sample(list(qs), repetitions=64, seed=seed)).astype(int)
            if same or not (again == smp).all():
                ctx.report_witness(f'sample:int-seed:{name}', 'sampling independent qubits with an integer seed gives perfectly correlated columns (or is not reproducible)',
                                   {'lines': [{'circuit': repr(circuit), 'seed': seed, 'simulator': name}], 'impl_out': [smp[:8].tolist(), same], 'spec_out': ['independent fair bits, reproducible for a fixed seed'],
                                    'theorem_or_correspondence': 'Born-rule product distribution'})
                break


def replay(ctx, rep):
    print(json.dumps(rep, indent=1)[:3000])
    return 1
