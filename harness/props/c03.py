"""C03 — Every library gate has the matrix its documentation defines.

Lean: CirqVerif.Spec.GateDocs is the hand transcription of the docstrings' closed forms (trusted);
CirqVerif.Props.C03 proves structural facts about them for all parameter values.  Tie: T3 — the
eigen-components of every EigenGate subclass are extracted from the running code into
Generated/C03Eigen.lean and re-checked (projector laws, agreement with the transcription) on every run;
T2 — `cirq.unitary` / `cirq.kraus` of every family at random and special parameter values is compared
with the transcription executed on floats.
"""
from __future__ import annotations

import itertools
import json
import math

import numpy as np

from harness import common, gen

MODULES = ['CirqVerif.Props.C03', 'CirqVerif.Props.C03b', 'CirqVerif.Obligations.C03', 'NonVacuity.ComplexModel']


def families(cirq, cirq_google, cirq_ionq):
    """(lean name, number of params, builder, param generator kinds)"""
    E, S, R, P = 'exp', 'shift', 'rad', 'prob'
    return [
        ('xpow', [E, S], lambda t, s: cirq.XPowGate(exponent=t, global_shift=s)),
        ('ypow', [E, S], lambda t, s: cirq.YPowGate(exponent=t, global_shift=s)),
        ('zpow', [E, S], lambda t, s: cirq.ZPowGate(exponent=t, global_shift=s)),
        ('hpow', [E, S], lambda t, s: cirq.HPowGate(exponent=t, global_shift=s)),
        ('rx', [R], lambda r: cirq.rx(r)),
        ('ry', [R], lambda r: cirq.ry(r)),
        ('rz', [R], lambda r: cirq.rz(r)),
        ('rx', [R], lambda r: cirq.Rx(rads=r)),
        ('czpow', [E, S], lambda t, s: cirq.CZPowGate(exponent=t, global_shift=s)),
        ('cxpow', [E, S], lambda t, s: cirq.CXPowGate(exponent=t, global_shift=s)),
        ('swappow', [E, S], lambda t, s: cirq.SwapPowGate(exponent=t, global_shift=s)),
        ('iswappow', [E, S], lambda t, s: cirq.ISwapPowGate(exponent=t, global_shift=s)),
        ('xxpow', [E, S], lambda t, s: cirq.XXPowGate(exponent=t, global_shift=s)),
        ('yypow', [E, S], lambda t, s: cirq.YYPowGate(exponent=t, global_shift=s)),
        ('zzpow', [E, S], lambda t, s: cirq.ZZPowGate(exponent=t, global_shift=s)),
        ('ms', [R], lambda r: cirq.ms(r)),
        ('fsim', [R, R], lambda a, b: cirq.FSimGate(theta=a, phi=b)),
        ('phasedfsim', [R, R, R, R, R], lambda a, b, c, d, e: cirq.PhasedFSimGate(theta=a, zeta=b, chi=c, gamma=d, phi=e)),
        ('phasedx', [E, E, S], lambda t, p, s: cirq.PhasedXPowGate(exponent=t, phase_exponent=p, global_shift=s)),
        ('phasedxz', [E, E, E], lambda x, z, a: cirq.PhasedXZGate(x_exponent=x, z_exponent=z, axis_phase_exponent=a)),
        ('phasediswap', [E, E], lambda p, t: cirq.PhasedISwapPowGate(phase_exponent=p, exponent=t)),
        ('cczpow', [E, S], lambda t, s: cirq.CCZPowGate(exponent=t, global_shift=s)),
        ('ccxpow', [E, S], lambda t, s: cirq.CCXPowGate(exponent=t, global_shift=s)),
        ('gpi', [E], lambda p: cirq_ionq.GPIGate(phi=p)),
        ('gpi2', [E], lambda p: cirq_ionq.GPI2Gate(phi=p)),
        ('ionq_ms', [E, E, 'theta'], lambda a, b, t: cirq_ionq.MSGate(phi0=a, phi1=b, theta=t)),
        ('ionq_zz', ['theta'], lambda t: cirq_ionq.ZZGate(theta=t)),
        ('globalphase', [E], lambda t: cirq.GlobalPhaseGate(np.exp(1j * np.pi * t))),
    ]


def constants(cirq, cirq_google):
    pi = math.pi
    return [
        ('cirq.X', cirq.X, 'xpow', [1, 0]), ('cirq.Y', cirq.Y, 'ypow', [1, 0]), ('cirq.Z', cirq.Z, 'zpow', [1, 0]),
        ('cirq.H', cirq.H, 'hpow', [1, 0]), ('cirq.S', cirq.S, 'zpow', [0.5, 0]), ('cirq.T', cirq.T, 'zpow', [0.25, 0]),
        ('cirq.CZ', cirq.CZ, 'czpow', [1, 0]), ('cirq.CNOT', cirq.CNOT, 'cxpow', [1, 0]), ('cirq.CX', cirq.CX, 'cxpow', [1, 0]),
        ('cirq.SWAP', cirq.SWAP, 'swappow', [1, 0]), ('cirq.ISWAP', cirq.ISWAP, 'iswappow', [1, 0]),
        ('cirq.SQRT_ISWAP', cirq.SQRT_ISWAP, 'iswappow', [0.5, 0]), ('cirq.SQRT_ISWAP_INV', cirq.SQRT_ISWAP_INV, 'iswappow', [-0.5, 0]),
        ('cirq.ISWAP_INV', cirq.ISWAP_INV, 'iswappow', [-1, 0]),
        ('cirq.XX', cirq.XX, 'xxpow', [1, 0]), ('cirq.YY', cirq.YY, 'yypow', [1, 0]), ('cirq.ZZ', cirq.ZZ, 'zzpow', [1, 0]),
        ('cirq.CCZ', cirq.CCZ, 'cczpow', [1, 0]), ('cirq.CCX', cirq.CCX, 'ccxpow', [1, 0]), ('cirq.TOFFOLI', cirq.TOFFOLI, 'ccxpow', [1, 0]),
        ('cirq.CCNOT', cirq.CCNOT, 'ccxpow', [1, 0]), ('cirq.CSWAP', cirq.CSWAP, 'cswap', []), ('cirq.FREDKIN', cirq.FREDKIN, 'cswap', []),
        ('cirq.I', cirq.I, 'identity', [2]),
        ('cirq_google.SYC', cirq_google.SYC, 'fsim', [pi / 2, pi / 6]),
        ('cirq_google.WILLOW', getattr(cirq_google, 'WILLOW', cirq_google.SYC), 'fsim', [pi / 2, pi / 9 if hasattr(cirq_google, 'WILLOW') else pi / 6]),
    ]


def gen_param(rng, kind):
    if kind == 'exp':
        return float(gen.rand_exponent(rng))
    if kind == 'shift':
        return float(gen.rand_shift(rng))
    if kind == 'rad':
        return float(rng.choice([0, math.pi, math.pi / 2, -math.pi / 2, math.pi / 4, math.pi / 6, 2 * math.pi, rng.uniform(-7, 7), rng.uniform(-7, 7)]))
    if kind == 'theta':
        return float(rng.choice([0, 0.25, 0.125, 0.05, rng.uniform(0, 0.25)]))
    if kind == 'prob':
        return float(rng.choice([0, 1, 0.5, 0.1, rng.random()]))
    raise ValueError(kind)


def channels(cirq):
    return [
        ('bit_flip', ['prob'], lambda p: cirq.bit_flip(p)),
        ('phase_flip', ['prob'], lambda p: cirq.phase_flip(p)),
        ('amplitude_damp', ['prob'], lambda g: cirq.amplitude_damp(g)),
        ('phase_damp', ['prob'], lambda g: cirq.phase_damp(g)),
        ('generalized_amplitude_damp', ['prob', 'prob'], lambda p, g: cirq.generalized_amplitude_damp(p, g)),
        ('asymmetric_depolarize', ['p3', 'p3', 'p3'], lambda a, b, c: cirq.asymmetric_depolarize(a, b, c)),
        ('reset', [], lambda: cirq.ResetChannel()),
    ]


def mat(out):
    return np.array([[common.j2c(z) for z in row] for row in out])


def run(ctx: common.Run):
    import cirq
    import cirq_google
    import cirq_ionq

    ctx.rule = (
        'every gate family of the transcription x parameters drawn from special values (0, +-1/4, +-1/2, 1, 2, out-of-period) and random '
        'reals x global shifts; every named constant; every documented channel; non-trivial = at least one parameter not in {0, 1}; '
        'distinct by (family, parameters)'
    )
    ctx.trusted += [
        'lean/CirqVerif/Spec/GateDocs.lean is a hand transcription of the docstrings (trusted specification)',
        'harness/props/c03.py + lean/Driver/C03.lean (T2 on sampled parameter values; tolerance 1e-8)',
        'Lean Float sin/cos/sqrt/exp evaluate the elementary functions (execution vehicle for the comparison only)',
    ]
    extract_eigen(ctx, cirq)
    ok, failing = ctx.lean(['CirqVerif.Props.C03', 'CirqVerif.Props.C03b', 'NonVacuity.ComplexModel'] + ctx.obligation_modules)
    if not ok:
        search_eigen_failure(ctx, cirq, failing)
        return
    n = 40 if ctx.tier == 'quick' else 600
    rng = ctx.substream('params')
    reqs, meta = [], []
    for name, kinds, build in families(cirq, cirq_google, cirq_ionq):
        for _ in range(n):
            ps = [gen_param(rng, k) for k in kinds]
            reqs.append({'p': 'C03', 'op': 'gate', 'name': name, 'params': [common.f2b(x) for x in ps]})
            meta.append((name, ps, build))
    for cname, g, fam, ps in constants(cirq, cirq_google):
        reqs.append({'p': 'C03', 'op': 'gate', 'name': fam, 'params': [common.f2b(x) for x in ps]})
        meta.append((cname, ps, (lambda g=g: (lambda *a: g))()))
    # diagonal gates
    for k in (1, 2, 3, 4):
        for _ in range(max(2, n // 10)):
            angles = [rng.uniform(-7, 7) for _ in range(2**k)]
            cls = {2: cirq.TwoQubitDiagonalGate, 3: cirq.ThreeQubitDiagonalGate}.get(k, cirq.DiagonalGate)
            reqs.append({'p': 'C03', 'op': 'gate', 'name': 'diag', 'params': [common.f2b(x) for x in angles]})
            meta.append((f'diag{k}', angles, (lambda cls=cls: (lambda *a: cls(list(a))))()))
    for k in (1, 2, 3):
        reqs.append({'p': 'C03', 'op': 'gate', 'name': 'identity', 'params': [common.f2b(2**k)]})
        meta.append((f'identity{k}', [2**k], (lambda k=k: (lambda *a: cirq.IdentityGate(k)))()))
    outs = ctx.driver.ask(reqs)
    for (name, ps, build), req, out in zip(meta, reqs, outs):
        gate = build(*ps)
        got = cirq.unitary(gate)
        want = mat(out)
        ctx.count('family', req['name'])
        ctx.case([name, ps], any(p not in (0, 1, 0.0, 1.0) for p in ps), sample={'gate': repr(gate)[:200], 'family': req['name'], 'params': ps} if len(ctx.samples) < 4 else None)
        if got.shape != want.shape or not np.allclose(got, want, atol=1e-8, rtol=0):
            ctx.report_witness(
                f'unitary:{req["name"]}', f'cirq.unitary({name}) differs from the documented matrix',
                {'lines': [{'gate': repr(gate), 'family': req['name'], 'params': ps}], 'impl_out': [np.round(got, 9).tolist().__repr__()],
                 'spec_out': [np.round(want, 9).tolist().__repr__()], 'theorem_or_correspondence': f'GateDocs.{req["name"]}'})
    # channels
    creqs, cmeta = [], []
    for name, kinds, build in channels(cirq):
        # the ends of the parameter range first, as floats and as ints (a factory must not read `0` as "not given")
        ends = [[e] * len(kinds) for e in (0.0, 1.0, 0, 1)] + ([[0.0, 1.0], [1, 0]] if len(kinds) == 2 else []) if kinds and kinds[0] == 'prob' else []
        for ps in ends:
            creqs.append({'p': 'C03', 'op': 'kraus', 'name': name, 'params': [common.f2b(float(x)) for x in ps]})
            cmeta.append((name, ps, build))
        for _ in range(max(3, n // 4)):
            if kinds and kinds[0] == 'p3':
                a, b, c = sorted(rng.random() for _ in range(3))
                ps = [a / 3, (b - a) / 3 + 0.01, (c - b) / 3]
            else:
                ps = [gen_param(rng, k) for k in kinds]
            creqs.append({'p': 'C03', 'op': 'kraus', 'name': name, 'params': [common.f2b(x) for x in ps]})
            cmeta.append((name, ps, build))
    couts = ctx.driver.ask(creqs)
    for (name, ps, build), out in zip(cmeta, couts):
        ch = build(*ps)
        got = [np.asarray(k) for k in cirq.kraus(ch)]
        want = [mat(m) for m in out]
        ctx.count('family', 'channel:' + name)
        ctx.case(['ch', name, ps], True)
        # the channel is the same iff the superoperators agree (Kraus lists are unique only up to unitary mixing)
        sg = sum(np.kron(k, k.conj()) for k in got)
        sw = sum(np.kron(k, k.conj()) for k in want)
        tp = sum(k.conj().T @ k for k in got)
        if not np.allclose(sg, sw, atol=1e-8) or not np.allclose(tp, np.eye(tp.shape[0]), atol=1e-8):
            ctx.report_witness(
                f'kraus:{name}', f'cirq.kraus({name}) is not the documented channel',
                {'lines': [{'channel': repr(ch), 'params': ps}], 'impl_out': [repr([np.round(k, 9).tolist() for k in got])],
                 'spec_out': [repr([np.round(k, 9).tolist() for k in want])], 'theorem_or_correspondence': f'GateDocs.{name}'})
    check_sized_families(ctx, cirq, n)
    check_docstring_matrices(ctx, cirq, cirq_google, cirq_ionq)


def docstring_builders(cirq, cirq_google, cirq_ionq):
    """class -> (docstring symbol -> constructor keyword, kind of value).  EigenGate subclasses not listed use t=exponent, s=global_shift."""
    E, S, R, P = 'exp', 'shift', 'rad', 'prob'
    return {
        cirq.Rx: {'t': ('rads', R)}, cirq.Ry: {'t': ('rads', R)}, cirq.Rz: {'t': ('rads', R)},
        cirq.PhasedXPowGate: {'t': ('exponent', E), 'p': ('phase_exponent', E)},
        cirq.PhasedXZGate: {'x': ('x_exponent', E), 'z': ('z_exponent', E), 'a': ('axis_phase_exponent', E)},
        cirq.FSimGate: {'theta': ('theta', R), 'phi': ('phi', R)},
        cirq.PhasedFSimGate: {'theta': ('theta', R), 'zeta': ('zeta', R), 'chi': ('chi', R), 'gamma': ('gamma', R), 'phi': ('phi', R)},
        cirq.PhasedISwapPowGate: {'t': ('exponent', E), 'p': ('phase_exponent', E)},
        cirq_ionq.GPIGate: {'phi': ('phi', E)}, cirq_ionq.GPI2Gate: {'phi': ('phi', E)},
        cirq_ionq.MSGate: {'phi_0': ('phi0', E), 'phi_1': ('phi1', E), 'theta': ('theta', E)},
        cirq_ionq.ZZGate: {'theta': ('theta', E)},
        cirq.AmplitudeDampingChannel: {'gamma': ('gamma', P)}, cirq.PhaseDampingChannel: {'gamma': ('gamma', P)},
        cirq.GeneralizedAmplitudeDampingChannel: {'p': ('p', P), 'gamma': ('gamma', P)},
        cirq.BitFlipChannel: {'p': ('p', P)}, cirq.PhaseFlipChannel: {'p': ('p', P)},
    }


def check_docstring_matrices(ctx, cirq, cirq_google, cirq_ionq):
    """The matrices written in the class docstrings (LaTeX, with their prefactors and `where` shorthands), evaluated at
    random parameter values, are what cirq.unitary (cirq.kraus for channels) reports.  A matrix the translator cannot read is counted
    as unparsed; a parameter-free matrix of a parametrized gate (an example, a named special case) is skipped."""
    import inspect

    from harness import docmat

    rng = ctx.substream('docstrings')
    builders = docstring_builders(cirq, cirq_google, cirq_ionq)
    seen = set()
    for mod in (cirq, cirq_google, cirq_ionq):
        for name in sorted(dir(mod)):
            cls = getattr(mod, name)
            if not inspect.isclass(cls) or not issubclass(cls, cirq.Gate) or cls in seen:
                continue
            seen.add(cls)
            doc = cls.__dict__.get('__doc__') or ''
            entries = docmat.matrices(doc)
            if not entries:
                continue
            spec = builders.get(cls)
            if spec is None and issubclass(cls, cirq.EigenGate) and (cls.__init__ is cirq.EigenGate.__init__ or cls in (cirq.XPowGate, cirq.ZPowGate)):
                spec = {'t': ('exponent', 'exp'), 's': ('global_shift', 'shift')}
            if spec is None:
                ctx.count('docstring', f'no-builder:{cls.__name__}')
                continue
            spec = {k: v for k, v in spec.items() if k not in docmat.definitions(doc)}
            if 's' in spec and spec['s'][0] == 'global_shift' and 'global_shift=s' not in doc:
                del spec['s']   # the docstring describes the gate with its default global shift
            is_channel = not issubclass(cls, cirq.EigenGate) and 'Channel' in cls.__name__
            points = []
            for _ in range(6):
                points.append({k: (gen_param(rng, kind) if kind != 'prob' else round(rng.uniform(0.05, 0.95), 3)) for k, (kw, kind) in spec.items()})
            results = []   # per entry: list of values or None
            for e in entries:
                vals = [docmat.evaluate(doc, e, pt) for pt in points]
                results.append(None if any(v is None for v in vals) else vals)
            for pi, pt in enumerate(points):
                try:
                    g = cls(**{spec[k][0]: v for k, v in pt.items()})
                    want_all = list(cirq.kraus(g)) if is_channel else [cirq.unitary(g)]
                except Exception as ex:  # noqa: BLE001
                    ctx.count('docstring', f'build-error:{cls.__name__}:{type(ex).__name__}')
                    break
                if is_channel:
                    if any(r is None for r in results) or len(results) != len(want_all):
                        ctx.count('docstring', f'unparsed:{cls.__name__}')
                        break
                    pairs = [(k, results[k][pi], want_all[k]) for k in range(len(results))]
                else:
                    pairs = []
                    for k, r in enumerate(results):
                        if r is None:
                            if pi == 0:
                                ctx.count('docstring', f'unparsed:{cls.__name__}[{k}]')
                            continue
                        if spec and all(np.allclose(r[0], v) for v in r[1:]):
                            if pi == 0:
                                ctx.count('docstring', f'parameter-free-skipped:{cls.__name__}[{k}]')
                            continue
                        if r[pi].shape != want_all[0].shape:
                            if pi == 0:
                                ctx.count('docstring', f'other-shape-skipped:{cls.__name__}[{k}]')
                            continue
                        pairs.append((k, r[pi], want_all[0]))
                for k, got_doc, want in pairs:
                    ctx.count('check', 'docstring-matrix')
                    ctx.count('docstring', f'checked:{cls.__name__}')
                    ctx.case(['docstring', cls.__name__, k, sorted(pt.items())], True)
                    if got_doc.shape != want.shape or not np.allclose(got_doc, want, atol=1e-9):
                        ctx.report_witness(f'docstring:{cls.__name__}', f'the matrix written in the docstring of {cls.__name__} (matrix #{k}) is not the matrix the gate reports',
                                           {'lines': [{'class': cls.__name__, 'matrix_index': k, 'parameters': pt, 'docstring_rows': entries[k]['rows'], 'prefactor': entries[k]['prefix']}],
                                            'impl_out': [repr(np.round(want, 8).tolist())], 'spec_out': [repr(np.round(got_doc, 8).tolist())],
                                            'theorem_or_correspondence': 'docstring closed form (evaluated from the source text)'})
                        break


def superop(ks):
    return sum(np.kron(k, k.conj()) for k in ks)


def bool_counts(names, exprs):
    """number of expressions true at every assignment (big-endian), evaluated by Python on 0/1 integers: `~x` is `1 - x`"""
    out = []
    n = len(names)
    for x in range(2**n):
        env = {nm: (x >> (n - 1 - i)) & 1 for i, nm in enumerate(names)}
        out.append(sum(int(eval(e.replace('~', '1-'), {'__builtins__': {}}, env)) & 1 for e in exprs))
    return out


def check_sized_families(ctx, cirq, n):
    """families whose size is a parameter (GateDocs2): qudit X / Z powers, QFT, phase gradient, qubit permutations, Boolean
    Hamiltonians, helper constructors; n-qubit depolarizing, Pauli-string mixtures, qudit reset, measurement, random gates"""
    rng = ctx.substream('sized')
    reqs, meta = [], []

    def add(name, ints, params, gate, phase_free=False, **extra):
        reqs.append(dict({'p': 'C03', 'op': 'gate2', 'name': name, 'ints': ints, 'params': [common.f2b(float(x)) for x in params]}, **extra))
        meta.append(('gate', name, ints, params, gate, phase_free))

    def addk(name, ints, params, ch, **extra):
        reqs.append(dict({'p': 'C03', 'op': 'kraus2', 'name': name, 'ints': ints, 'params': [common.f2b(float(x)) for x in params]}, **extra))
        meta.append(('kraus', name, ints, params, ch, False))

    for d in (2, 3, 4, 5, 7):
        for _ in range(max(3, n // 6)):
            t, s = float(gen.rand_exponent(rng)), float(gen.rand_shift(rng))
            add('qudit_z', [d], [t, s], cirq.ZPowGate(exponent=t, global_shift=s, dimension=d))
            add('qudit_x', [d], [t, s], cirq.XPowGate(exponent=t, global_shift=s, dimension=d))
            if rng.random() < 0.5:  # powers of a power
                u = float(rng.choice([0.5, 2, -1, 3, 1 / 3]))
                add('qudit_z', [d], [t * u, s], cirq.ZPowGate(exponent=t, global_shift=s, dimension=d) ** u)
                add('qudit_x', [d], [t * u, s], cirq.XPowGate(exponent=t, global_shift=s, dimension=d) ** u)
    for k in (1, 2, 3, 4):
        for wr in (False, True):
            add('qft', [k, int(wr)], [], cirq.QuantumFourierTransformGate(k, without_reverse=wr))
            add('qft', [k, int(wr)], [], cirq.qft(*cirq.LineQubit.range(k), without_reverse=wr).gate)
        for _ in range(3):
            t = float(gen.rand_exponent(rng))
            add('phase_gradient', [k], [t], cirq.PhaseGradientGate(num_qubits=k, exponent=t))
            add('phase_gradient', [k], [t * 0.5], cirq.PhaseGradientGate(num_qubits=k, exponent=t) ** 0.5)
        # the period of the gradient is 2**k, not 2: every integer exponent over two periods, and as a power of the unit gate
        for t in range(-(2 ** k), 2 ** (k + 1) + 2):
            add('phase_gradient', [k], [float(t)], cirq.PhaseGradientGate(num_qubits=k, exponent=t))
            if t % 3 == 0:
                add('phase_gradient', [k], [float(t)], cirq.PhaseGradientGate(num_qubits=k, exponent=1) ** t)
    for k in (1, 2, 3, 4):
        for _ in range(4):
            perm = list(range(k))
            rng.shuffle(perm)
            add('qubit_permutation', perm, [], cirq.QubitPermutationGate(perm))
    pool = ['a', 'b', 'a & b', 'a ^ b', 'a | b', '~a', '~a & b', 'a ^ b ^ c', '(a | b) & c', '~(a & c)', 'c', 'b & c', 'a & ~c']
    for _ in range(max(6, n // 3)):
        names = ['a', 'b', 'c'][: rng.choice([2, 3])]
        exprs = [e for e in rng.sample(pool, rng.randint(1, 3)) if 'c' not in e or 'c' in names]
        if not exprs:
            continue
        th = float(rng.choice([0.7, -1.3, math.pi, 2 * math.pi, rng.uniform(-7, 7)]))
        add('boolean_hamiltonian', bool_counts(names, exprs), [th], cirq.BooleanHamiltonianGate(names, exprs, th), phase_free=True)
    for _ in range(max(4, n // 4)):
        r = gen_param(rng, 'rad')
        add('givens', [], [r], cirq.givens(r))
        add('riswap', [], [r], cirq.riswap(r))
        add('cphase', [], [r], cirq.cphase(r))
    for _ in range(max(4, n // 4)):
        t, sh = float(gen.rand_exponent(rng)), float(gen.rand_shift(rng))
        add('cypow', [], [t, sh], cirq.CYPowGate(exponent=t, global_shift=sh))
        add('ccypow', [], [t, sh], cirq.CCYPowGate(exponent=t, global_shift=sh))
        p0, p1 = rng.randrange(3), rng.randrange(3)
        i0, i1 = rng.random() < 0.5, rng.random() < 0.5
        paulis = [cirq.X, cirq.Y, cirq.Z]
        add('pauli_interaction', [p0 + 1, int(i0), p1 + 1, int(i1)], [t], cirq.PauliInteractionGate(paulis[p0], i0, paulis[p1], i1, exponent=t))
    add('cypow', [], [1, 0], cirq.CY)
    add('ccypow', [], [1, 0], cirq.CCY)
    add('pauli_interaction', [3, 0, 3, 0], [1], cirq.PauliInteractionGate.CZ)
    add('pauli_interaction', [3, 0, 1, 0], [1], cirq.PauliInteractionGate.CNOT)
    for sub in (cirq.X, cirq.Z ** 0.3, cirq.H, cirq.Y ** 0.5):
        for k in (1, 2, 3):
            addk('parallel', [k], [], cirq.ParallelGate(sub, k), sub=[[[common.c2j(z) for z in row] for row in cirq.unitary(sub)]])
    for nq in (1, 2, 3, 4):
        for m in sorted({1, 2, 3, 2**nq - 1, 2**nq, rng.randint(1, 2**nq)}):
            if m <= 2**nq:
                addk('uniform_superposition', [m, nq], [], cirq.UniformSuperpositionGate(m, nq))
    for d in (2, 3, 4, 8):
        psi = np.array([complex(rng.gauss(0, 1), rng.gauss(0, 1)) for _ in range(d)])
        psi /= np.linalg.norm(psi)
        target = psi if d != 3 else None
        if target is not None:
            addk('state_preparation', [], [], cirq.StatePreparationChannel(psi), sub=[[[common.c2j(z) for z in psi]]])
    for _ in range(3):
        us = [gen.rand_unitary(rng, 2) for _ in range(rng.randint(1, 3))]
        w = [rng.random() + 0.05 for _ in us]
        probs = [x / sum(w) for x in w]
        addk('mixed_unitary', [], probs, cirq.MixedUnitaryChannel(list(zip(probs, us))), sub=[[[common.c2j(z) for z in row] for row in u] for u in us])
    for shape in ((2,), (2, 2), (3,), (2, 3)):
        add('identity_shape', [int(np.prod(shape))], [], cirq.WaitGate(cirq.Duration(nanos=3), qid_shape=shape))
        add('identity_shape', [int(np.prod(shape))], [], cirq.IdentityGate(qid_shape=shape))
    # channels
    for k in (1, 2, 3):
        for _ in range(3):
            pr = float(rng.choice([0, 0.1, 0.5, rng.random() * (1 - 4.0 ** -k)]))
            addk('depolarize', [k], [pr], cirq.depolarize(pr, n_qubits=k))
    for d in (2, 3, 4):
        addk('reset', [d], [], cirq.ResetChannel(dimension=d))
        addk('measure', [d], [], cirq.MeasurementGate(1, key='m', qid_shape=(d,)))
    addk('measure', [6], [], cirq.MeasurementGate(2, key='m', qid_shape=(2, 3)))
    addk('measure', [4], [], cirq.MeasurementGate(2, key='m'))
    for _ in range(max(3, n // 8)):
        k = rng.choice([1, 2, 2, 3])
        strs = rng.sample([''.join(x) for x in itertools.product('IXYZ', repeat=k)], rng.randint(1, min(5, 4**k)))
        w = [rng.random() + 0.05 for _ in strs]
        probs = [x / sum(w) for x in w]
        addk('pauli_mixture', [], probs, cirq.asymmetric_depolarize(error_probabilities=dict(zip(strs, probs))), strings=[['IXYZ'.index(c) for c in st] for st in strs])
    subs = [cirq.X, cirq.Z ** 0.3, cirq.CNOT, cirq.XPowGate(dimension=3), cirq.ZPowGate(dimension=3) ** 0.5, cirq.XPowGate(dimension=4) ** 0.5, cirq.MatrixGate(gen.rand_unitary(rng, 6), qid_shape=(2, 3)),
            cirq.bit_flip(0.2), cirq.amplitude_damp(0.3), cirq.ResetChannel(dimension=3), cirq.depolarize(0.1, n_qubits=2), cirq.X.with_probability(0.3), cirq.XPowGate(dimension=3).with_probability(0.6)]
    for sub in subs:
        for _ in range(2):
            pr = float(rng.choice([0.25, 0.5, 1.0, 0.0, rng.random()]))
            inner = sub.sub_gate if isinstance(sub, cirq.RandomGateChannel) else sub
            eff = pr * float(sub.probability) if isinstance(sub, cirq.RandomGateChannel) else pr
            sk = [np.asarray(m) for m in cirq.kraus(inner)]
            addk('random_gate', [int(np.prod(cirq.qid_shape(inner)))], [eff], sub.with_probability(pr), sub=[[[common.c2j(z) for z in row] for row in m] for m in sk])
    outs = ctx.driver.ask(reqs)
    for (kind, name, ints, params, obj, phase_free), out in zip(meta, outs):
        ctx.count('family', ('channel:' if kind == 'kraus' else '') + name)
        ctx.case(['sized', kind, name, ints, params], True)
        rep = {'lines': [{'gate': repr(obj)[:400], 'family': name, 'ints': ints, 'params': params}], 'theorem_or_correspondence': f'GateDocs2.{name}'}
        if kind == 'gate':
            want = mat(out)
            got = cirq.unitary(obj)
            ok = got.shape == want.shape
            if ok and phase_free:
                i = int(np.argmax(np.abs(want.reshape(-1))))
                ph = got.reshape(-1)[i] / want.reshape(-1)[i]
                ok = abs(abs(ph) - 1) < 1e-8 and np.allclose(got, ph * want, atol=1e-8)
            elif ok:
                ok = np.allclose(got, want, atol=1e-8, rtol=0)
            if ok and cirq.qid_shape(obj) and int(np.prod(cirq.qid_shape(obj))) != want.shape[0]:
                ok = False
            if not ok:
                ctx.report_witness(f'unitary:{name}', f'cirq.unitary of a {name} gate differs from the documented matrix' + (' (up to global phase)' if phase_free else ''),
                                   dict(rep, impl_out=[repr(np.round(got, 9).tolist())[:1500]], spec_out=[repr(np.round(want, 9).tolist())[:1500]]))
        elif name == 'parallel':
            want, got = mat(out[0]), cirq.unitary(obj)
            if got.shape != want.shape or not np.allclose(got, want, atol=1e-8):
                ctx.report_witness('unitary:parallel', 'cirq.unitary(ParallelGate(g, n)) is not the n-fold tensor power of g', dict(rep, impl_out=[repr(np.round(got, 6).tolist())[:1200]], spec_out=[repr(np.round(want, 6).tolist())[:1200]]))
        elif name == 'uniform_superposition':
            want, got = mat(out[0])[0], cirq.unitary(obj)
            if got.shape[0] != len(want) or not np.allclose(got[:, 0], want, atol=1e-8) or not np.allclose(got.conj().T @ got, np.eye(len(want)), atol=1e-8):
                ctx.report_witness('unitary:uniform_superposition', 'UniformSuperpositionGate(m, n) does not map |0> to the uniform superposition of the first m states', dict(rep, impl_out=[repr(np.round(got[:, 0], 6).tolist())], spec_out=[repr(np.round(want, 6).tolist())]))
        else:
            want = [mat(m) for m in out]
            got = [np.asarray(k) for k in cirq.kraus(obj)]
            dim = want[0].shape[0]
            ok = all(k.shape == (dim, dim) for k in got) and np.allclose(superop(got), superop(want), atol=1e-8) and np.allclose(sum(k.conj().T @ k for k in got), np.eye(dim), atol=1e-8)
            if ok and cirq.has_mixture(obj) and name != 'measure':
                mix = cirq.mixture(obj)
                ok = all(np.asarray(u).shape == (dim, dim) for _, u in mix) and np.allclose(sum(pw * np.kron(np.asarray(u), np.asarray(u).conj()) for pw, u in mix), superop(want), atol=1e-8) and abs(sum(pw for pw, _ in mix) - 1) < 1e-9
            if not ok:
                ctx.report_witness(f'kraus:{name}', f'cirq.kraus / cirq.mixture of a {name} channel is not the documented channel',
                                   dict(rep, impl_out=[repr([np.round(k, 6).tolist() for k in got])[:1500]], spec_out=[repr([np.round(k, 6).tolist() for k in want])[:1500]]))


# ------------------------------------------------------------------------------ T3: eigen-components
def eigen_gate_instances(cirq):
    """one default instance of every concrete EigenGate subclass on qubits (found by walking subclasses)"""
    import cirq_google  # noqa: F401  (subclasses defined by the vendor packages are included)
    import cirq_ionq  # noqa: F401

    seen, out = set(), []

    def walk(cls):
        for sub in cls.__subclasses__():
            if sub in seen:
                continue
            seen.add(sub)
            walk(sub)
            name = sub.__name__
            try:
                if name in ('Rx', 'Ry', 'Rz'):
                    inst = sub(rads=math.pi)
                elif name == 'MSGate':
                    inst = sub(rads=math.pi / 2)
                elif name == 'PhasedISwapPowGate':
                    inst = sub(phase_exponent=0.25)
                elif name.startswith('_Pauli'):
                    continue
                else:
                    inst = sub()
            except Exception:
                continue
            out.append((f'{sub.__module__.split(".")[0]}_{name}', inst))

    walk(cirq.EigenGate)
    return sorted(out, key=lambda p: p[0])


def extract_eigen(ctx, cirq):
    """T3: write the eigen-components of the running code as exact Lean data + obligations"""
    from fractions import Fraction

    from harness.extract import q8

    doc_comps = {
        'cirq_XPowGate': 'xpowComps envQ8 0 1', 'cirq_YPowGate': 'ypowComps envQ8 0 1', 'cirq_ZPowGate': 'zpowComps (R := Q8) (0 : Rat) 1',
        'cirq_HPowGate': 'hpowComps envQ8 0 1', 'cirq_CZPowGate': 'czpowComps (R := Q8) (0 : Rat) 1', 'cirq_ZZPowGate': 'zzpowComps (R := Q8) (0 : Rat) 1',
        'cirq_SwapPowGate': 'swappowComps envQ8 0 1', 'cirq_XXPowGate': 'xxpowComps envQ8 0 1', 'cirq_YYPowGate': 'yypowComps envQ8 0 1',
        'cirq_Rx': 'xpowComps envQ8 0 1', 'cirq_Ry': 'ypowComps envQ8 0 1', 'cirq_Rz': 'zpowComps (R := Q8) (0 : Rat) 1',
        'cirq_MSGate': 'xxpowComps envQ8 0 1',
    }
    files = {}
    names = []
    ctx.extra['eigen_gates'] = []
    for name, inst in eigen_gate_instances(cirq):
        comps = inst._eigen_components()
        try:
            rows = []
            for theta, proj in comps:
                th = Fraction(theta).limit_denominator(64)
                if abs(float(th) - theta) > 1e-12:
                    raise ValueError(f'angle {theta}')
                rows.append(f'  ({q8.lean_rat(th)}, {q8.lean_qmat(np.asarray(proj))})')
        except ValueError as e:
            ctx.extra.setdefault('eigen_not_recognised', []).append(f'{name}: {e}')
            continue
        names.append(name)
        ctx.extra['eigen_gates'].append(name)
        files[f'CirqVerif/Generated/C03/{name}.lean'] = (
            'import CirqVerif.Model.Eigen\n/-! GENERATED by harness/props/c03.py from the working tree of /repo on every run — do not edit. -/\n'
            f'namespace CirqVerif.Generated.C03\nopen CirqVerif\n\ndef {name} : Eigen.Components := [\n' + ',\n'.join(rows) + '\n]\n\nend CirqVerif.Generated.C03\n')
        ob = [f'import CirqVerif.Generated.C03.{name}', 'import CirqVerif.Proofs.GateDocs',
              '/-! GENERATED obligations about the extracted eigen-components (re-checked on every run). -/',
              'namespace CirqVerif.Generated.C03', 'open CirqVerif CirqVerif.Eigen CirqVerif.GateDocs', '',
              f'theorem {name}_projector_laws : projectorLaws {name} = true := by decide +kernel']
        if name in doc_comps:
            ob.append('/-- the eigen-components the code carries are the ones the documentation theorem is about -/')
            ob.append(f'theorem {name}_matches_doc : {name} = {doc_comps[name]} := by decide +kernel')
        ob.append('end CirqVerif.Generated.C03')
        files[f'CirqVerif/Obligations/C03/{name}.lean'] = '\n'.join(ob) + '\n'
    files['CirqVerif/Obligations/C03.lean'] = ''.join(f'import CirqVerif.Obligations.C03.{n}\n' for n in names)
    for rel, text in files.items():
        path = common.LEAN / rel
        path.parent.mkdir(parents=True, exist_ok=True)
        if not path.exists() or path.read_text() != text:
            path.write_text(text)
    # stale files of classes that no longer exist
    for sub in ('Generated', 'Obligations'):
        for f in (common.LEAN / 'CirqVerif' / sub / 'C03').glob('*.lean'):
            if f.stem not in names:
                f.unlink()
    ctx.obligation_modules = [f'CirqVerif.Obligations.C03.{n}' for n in names]
    ctx.eigen_instances = dict(eigen_gate_instances(cirq))


def search_eigen_failure(ctx, cirq, failing):
    """an obligation about the extracted tables no longer checks: look for a concrete parameter value at which
    the gate's powers stop composing (U(t1)U(t2) != U(t1+t2)) or the matrix is not unitary"""
    rng = ctx.substream('eigen-search')
    log = ctx.extra.get('lean_build_log_tail', '')
    for name, inst in getattr(ctx, 'eigen_instances', {}).items():
        if name not in log:
            continue
        for _ in range(200):
            t1, t2 = gen.rand_exponent(rng), gen.rand_exponent(rng)
            try:
                u1, u2, u12 = cirq.unitary(inst**t1), cirq.unitary(inst**t2), cirq.unitary(inst ** (t1 + t2))
            except Exception:
                continue
            bad_group = not np.allclose(u1 @ u2, u12, atol=1e-8)
            bad_unitary = not np.allclose(u1 @ u1.conj().T, np.eye(len(u1)), atol=1e-8)
            if bad_group or bad_unitary:
                ctx.report_witness(
                    f'eigen:{name}', f'{name}: powers do not compose / matrix not unitary (eigen-components are not orthogonal projectors)',
                    {'lines': [{'gate': repr(inst), 't1': t1, 't2': t2}], 'impl_out': [repr(np.round(u1 @ u2, 6).tolist())],
                     'spec_out': [repr(np.round(u12, 6).tolist())], 'theorem_or_correspondence': f'{name}_projector_laws'})
                return
    ctx.report_unproved('obligations:C03', f'obligations about extracted eigen-components no longer check: {failing}',
                        {'theorem_or_correspondence': failing, 'log': log[-1500:]})


def replay(ctx, rep):
    print(json.dumps(rep, indent=1)[:3000])
    return 1
