"""C04 — All descriptions of one operation agree (protocol coherence).

Lean: the reference action `applyOp` of a matrix on chosen axes of a tensor (Proofs.Tensor), its refinement
by the array interpreter (Proofs.Sim), the controlled-action theorem (Proofs.Controlled) and models of the
in-place slicing kernels proved equal to the matrix action (Props.C04).  Tie (T2): for generated gates /
operations and wrapper compositions, `cirq.unitary`, `cirq.apply_unitary` on arbitrary axes of larger
tensors (vector- and batch-shaped, qudit spectators), `cirq.decompose` (through the Lean interpreter),
`kraus` / `mixture` / `superoperator`, `act_on` of the state-vector and density-matrix simulation states
and the `has_*` predicates are compared with each other through the Lean semantics.
"""
from __future__ import annotations

import itertools
import json

import numpy as np

from harness import common, gen

MODULES = ['CirqVerif.Props.C04', 'CirqVerif.Props.C04Rules', 'NonVacuity.ComplexModel']


def mat(out):
    return np.array([[common.j2c(z) for z in row] for row in out])


def wrap(cirq, rng, op):
    """random wrapper composition that must preserve the linear map (returns op', description)"""
    k = rng.randrange(9)
    if k == 8:
        # a sub-circuit operation re-mapped three times (a rotation of its qubits, out to spare qubits, and back): the maps compose to
        # the identity only when each new map is applied after the ones already there
        qs = list(op.qubits)
        if len(qs) < 2 or any(q.dimension != 2 for q in qs):
            return op, 'none'
        co = cirq.CircuitOperation(cirq.FrozenCircuit(op))
        spare = [cirq.NamedQubit(f'spare{j}') for j in range(len(qs))]
        rot = qs[1:] + qs[:1]
        co = co.with_qubit_mapping(dict(zip(qs, rot)))
        co = co.with_qubit_mapping(dict(zip(rot, spare)))
        co = co.with_qubit_mapping(dict(zip(spare, qs)))
        return co, 'circuit-op-remapped'
    if k == 7:
        # phases on no qubits that cancel inside a sub-circuit
        return cirq.CircuitOperation(cirq.FrozenCircuit(cirq.global_phase_operation(1j), op, cirq.global_phase_operation(-1j))), 'circuit-op-phases'
    if k == 0:
        return op.with_tags('t', 7), 'tags'
    if k == 1:
        return op.with_qubits(*op.qubits), 'with_qubits'
    if k == 2:
        inv = cirq.inverse(op, None)
        return (cirq.inverse(inv) if inv is not None else op), 'inverse-inverse'
    if k == 3:
        return cirq.CircuitOperation(cirq.FrozenCircuit(op)), 'circuit-op'
    if k == 4:
        return op.with_tags('x').untagged, 'untagged'
    if k == 5:
        return op ** 1 if cirq.pow(op, 1, None) is not None else op, 'pow1'
    return op, 'none'


def run(ctx: common.Run):
    import cirq

    ctx.rule = (
        'random library gates (1-3 qubits, qutrit gates, controlled / matrix / parameter-special gates) and wrapper compositions (tags, '
        'with_qubits, double inverse, CircuitOperation, ParallelGate, controlled_by) x target-axis layouts (non-adjacent, permuted, '
        'embedded in 3..6-axis tensors with spectator axes of dimension 2,3,5, batch-shaped targets) x protocol; non-trivial = >= 2 '
        'target axes or a non-identity layout; distinct by (gate, layout)'
    )
    ctx.trusted += [
        'harness/props/c04.py + lean/Driver/C01.lean (T2 on generated cases only; tolerance 1e-7)',
        'the matrix of each operation is cirq.unitary(op) (tied to the documentation by C03); every other description is compared with '
        'the Lean action of that matrix',
    ]
    ok, failing = ctx.lean(MODULES)
    if not ok:
        ctx.report_unproved('lean-build', f'{failing}', {'theorem_or_correspondence': failing})
        return
    check_decompose_rules(ctx, cirq)
    check_channel_wrappers(ctx, cirq)
    check_pauli_string_operations(ctx, cirq)
    # a channel given only by its action on a density tensor: kraus / superoperator describe that action
    from harness.props import c09
    c09.check_apply_channel_only(ctx, cirq)
    n = 250 if ctx.tier == 'quick' else 3000
    rng = ctx.substream('ops')
    reqs, meta = [], []

    def layout(k):
        """qubits for a k-qubit gate: decompositions may depend on adjacency (is_adjacent) and on the order of the qubits"""
        r = rng.random()
        if r < 0.35:
            return list(cirq.LineQubit.range(k))
        if r < 0.6:
            base = list(cirq.LineQubit.range(k))
            rng.shuffle(base)
            return base
        if r < 0.8:
            patch = rng.choice([[cirq.GridQubit(0, 0), cirq.GridQubit(0, 1), cirq.GridQubit(1, 1)], [cirq.GridQubit(0, 0), cirq.GridQubit(0, 1), cirq.GridQubit(0, 2)],
                                [cirq.GridQubit(2, 2), cirq.GridQubit(5, 5), cirq.GridQubit(2, 3)]])
            patch = patch[:]
            rng.shuffle(patch)
            return patch[:k]
        if r < 0.9:
            return rng.sample([cirq.LineQubit(j) for j in (0, 1, 2, 5, 6, 9)], k)
        return rng.sample(cirq.NamedQubit.range(4, prefix='n'), k)

    # systematic part: layout-dependent decompositions and special parameter values
    pre = []
    three = [cirq.CCX, cirq.CCZ, cirq.CSWAP, cirq.CCX**0.5, cirq.CCZ**-0.3, cirq.ThreeQubitDiagonalGate([0.1, -0.7, 1.3, 2.1, -2.9, 0.4, 1.9, -1.1]),
             cirq.ControlledGate(cirq.ISWAP), cirq.ControlledGate(cirq.CZ**0.3)]
    bases = [list(cirq.LineQubit.range(3)), [cirq.GridQubit(0, 0), cirq.GridQubit(0, 1), cirq.GridQubit(1, 1)], [cirq.LineQubit(0), cirq.LineQubit(1), cirq.LineQubit(5)]]
    for g3 in three:
        for base in bases:
            for perm in itertools.permutations(base):
                pre.append((g3, list(perm)))
    for x in (0.5, -0.5, 1.5, -1.5, 2.5, -2.5, 3.5, -3.5, 1, -1, 0, 2):
        for z, a in ((0, 0), (0.25, 0.5), (-0.3, 0.1), (1, -0.5)):
            pre.append((cirq.PhasedXZGate(x_exponent=x, z_exponent=z, axis_phase_exponent=a), [cirq.LineQubit(0)]))
    for fam in (cirq.X, cirq.Y, cirq.Z, cirq.H, cirq.CZ, cirq.CNOT, cirq.SWAP, cirq.ISWAP, cirq.XX, cirq.YY, cirq.ZZ):
        for e in (0.5, -0.5, 1.5, -1.5, 2.5, 0.25, -0.25, 3):
            pre.append((fam**e, None))
    # matrix gates whose synthesis comes out with a special global phase (exactly -1, +-i): the decomposition must carry it
    P = {'I': np.eye(2), 'X': cirq.unitary(cirq.X), 'Y': cirq.unitary(cirq.Y), 'Z': cirq.unitary(cirq.Z), 'H': cirq.unitary(cirq.H), 'S': cirq.unitary(cirq.S)}
    special = []
    for ph in (1, -1, 1j, -1j, np.exp(0.3j)):
        for a in 'IXYZHS':
            special.append(cirq.MatrixGate(ph * P[a]))
        for a, b in (('X', 'Z'), ('Z', 'X'), ('Z', 'Z'), ('I', 'I'), ('X', 'X'), ('Y', 'Z'), ('H', 'S'), ('I', 'Z')):
            special.append(cirq.MatrixGate(ph * np.kron(P[a], P[b])))
        for g2 in (cirq.CZ, cirq.CNOT, cirq.SWAP, cirq.ISWAP):
            special.append(cirq.MatrixGate(ph * cirq.unitary(g2)))
    special += [cirq.MatrixGate(cirq.unitary(cirq.rx(2 * np.pi))), cirq.MatrixGate(cirq.unitary(cirq.rz(2 * np.pi))), cirq.MatrixGate(cirq.unitary(cirq.ry(np.pi)))]
    if ctx.tier == 'quick':
        pre = [pre[j] for j in range(ctx.seed % 2, len(pre), 2)]
        special = special[ctx.seed % 2::2] + special[1 - ctx.seed % 2::6]
    pre += [(g, None) for g in special]
    # controlled qudit clock / shift powers with a global shift (the shift is extracted as a phase on the controls)
    for G in (cirq.ZPowGate, cirq.XPowGate):
        for d in (3, 4):
            for sh, e in ((0.5, 0.3), (-0.25, 1.0), (0.5, 2.0)):
                pre.append((cirq.ControlledGate(G(dimension=d, global_shift=sh, exponent=e)), None))
                pre.append((cirq.ControlledGate(G(dimension=d, global_shift=sh, exponent=e), control_qid_shape=(3,), control_values=[2]), None))
    # gates without a matrix of their own whose decomposition borrows ancilla qubits, on targets in every order
    for k in (2, 3):
        for perm in itertools.permutations(cirq.LineQubit.range(k)):
            if rng.random() < (0.6 if ctx.tier == 'quick' else 1.0):
                pre.append((gen.ancilla_gate(cirq, rng, k), list(perm)))
    # control-value patterns: every arrangement of 0 / 1 / don't-care (0,1) controls (the decomposition handles each control by its
    # position; a don't-care control is dropped, a 0 control is conjugated by X), and qutrit controls with value sets
    cvs = [0, 1, (0, 1)]
    pats = [list(pt) for k in (2, 3) for pt in itertools.product(cvs, repeat=k)]
    subs = [cirq.X**0.5, cirq.Y**0.3, cirq.Z**0.25, cirq.X, cirq.CZ**0.3]
    cv_cases = []
    for j, pt in enumerate(pats):
        # (a sub-gate with a global shift, or a bare global phase, becomes a phase on the controls: selected by the same control values)
        shifted = [cirq.XPowGate(exponent=0.5, global_shift=-0.5), cirq.ZPowGate(exponent=0.3, global_shift=0.25), cirq.GlobalPhaseGate(np.exp(0.4j)),
                   cirq.CZPowGate(exponent=0.5, global_shift=0.3)]
        for sub in (subs[j % len(subs)], subs[(j + 2) % len(subs)], shifted[j % len(shifted)], shifted[(j + 1) % len(shifted)]):
            g_cv = cirq.ControlledGate(sub, control_values=pt)
            cv_cases.append((g_cv, list(cirq.LineQubit.range(cirq.num_qubits(g_cv)))))
    for pt in ([(0, 2), 1], [(1, 2), (0, 1)], [2, (0, 1, 2)], [(0, 1, 2), 0]):
        cv_cases.append((cirq.ControlledGate(cirq.Y**0.3, control_values=pt, control_qid_shape=(3, 3 if max(np.ravel(pt[1])) > 1 else 2)), None))
    if ctx.tier == 'quick':
        cv_cases = cv_cases[ctx.seed % 3::3]
    pre += cv_cases
    for i in range(n + len(pre)):
        if i < len(pre):
            g, forced = pre[i]
            kq = cirq.num_qubits(g)
            qudit = any(d != 2 for d in cirq.qid_shape(g))
            dims = list(cirq.qid_shape(g))
        else:
            forced = None
            kq = rng.choice([1, 1, 2, 2, 3])
            qudit = rng.random() < 0.15
            if qudit:
                dims = [rng.choice([2, 3]) for _ in range(min(kq, 2))]
                if all(d == 2 for d in dims):
                    dims[0] = 3
                g = gen.qudit_gate(cirq, rng, dims)
            else:
                dims = [2] * kq
                g = {1: gen.one_qubit_gate, 2: gen.two_qubit_gate, 3: gen.three_qubit_gate}[kq](cirq, rng)
        k = len(dims)
        if qudit:
            qs = [cirq.LineQid(j, d) if d != 2 else cirq.LineQubit(j) for j, d in enumerate(dims)]
        else:
            qs = forced if forced is not None else layout(k)
        ctx.count('layout', type(qs[0]).__name__ + ('' if list(qs) == sorted(qs) else ':permuted'))
        op = g.on(*qs)
        if not qudit and rng.random() < 0.15 and k == 1:
            g = cirq.ParallelGate(g, 2)
            qs = cirq.LineQubit.range(2)
            op = g.on(*qs)
            dims = [2, 2]
            k = 2
        op2, wname = wrap(cirq, rng, op) if not qudit else (op, 'none')
        if wname == 'circuit-op-remapped' and set(op2.qubits) != set(op.qubits):
            ctx.count('wrapper', wname)
            ctx.report_witness('wrapper:circuit-op-remapped:qubits', 'a sub-circuit operation re-mapped around a cycle of qubit maps (whose composition is the identity) does not end up on its own qubits',
                               {'lines': [{'op': repr(op), 'wrapped': repr(op2)}], 'impl_out': [[repr(q) for q in op2.qubits]], 'spec_out': [[repr(q) for q in op.qubits]],
                                'theorem_or_correspondence': 'wrapper no-op (qubit maps compose)'})
            continue
        if tuple(op2.qubits) != tuple(op.qubits):
            op2, wname = op, 'none'  # a CircuitOperation lists its qubits in sorted order: a different (equally valid) matrix layout
        u = gen.op_unitary(cirq, op)
        ctx.count('wrapper', wname)
        try:
            cirq.unitary(op2)
        except (ValueError, TypeError) as e:
            ctx.report_witness(f'wrapper:{wname}:raises', f'cirq.unitary of the wrapped operation raises {type(e).__name__}: {str(e)[:80]}', {'lines': [{'op': repr(op), 'wrapped': repr(op2)}],
                               'impl_out': [str(e)[:200]], 'spec_out': [repr(np.round(u, 6).tolist())], 'theorem_or_correspondence': 'wrapper no-op'})
            continue
        # ---- has_* predicates
        for name, has, val in (
            ('has_unitary', cirq.has_unitary(op2), cirq.unitary(op2, None) is not None),
            ('has_kraus', cirq.has_kraus(op2), cirq.kraus(op2, None) is not None),
            ('has_mixture', cirq.has_mixture(op2), cirq.mixture(op2, None) is not None),
        ):
            ctx.count('check', name)
            if has != val:
                ctx.report_witness(f'has:{name}', f'{name} disagrees with what the corresponding call returns',
                                   {'lines': [{'op': repr(op2)}], 'impl_out': [has], 'spec_out': [val], 'theorem_or_correspondence': 'has_* consistency'})
        if cirq.is_measurement(op2):
            ctx.report_witness('has:is_measurement', 'unitary op reports is_measurement', {'lines': [{'op': repr(op2)}], 'impl_out': [True], 'spec_out': [False], 'theorem_or_correspondence': 'has_*'})
        # ---- wrappers preserve the matrix
        try:
            u2 = cirq.unitary(op2)
        except (ValueError, TypeError) as e:
            ctx.report_witness(f'wrapper:{wname}:raises', f'cirq.unitary of the wrapped operation raises {type(e).__name__}: {str(e)[:80]}', {'lines': [{'op': repr(op), 'wrapped': repr(op2)}],
                               'impl_out': [str(e)[:200]], 'spec_out': [repr(np.round(u, 6).tolist())], 'theorem_or_correspondence': 'wrapper no-op'})
            continue
        ctx.count('check', 'wrapper-matrix')
        if not np.allclose(u, u2, atol=1e-8):
            ctx.report_witness(f'wrapper:{wname}', f'wrapper {wname} changed the matrix', {'lines': [{'op': repr(op), 'wrapped': repr(op2)}],
                               'impl_out': [repr(np.round(u2, 6).tolist())], 'spec_out': [repr(np.round(u, 6).tolist())], 'theorem_or_correspondence': 'wrapper no-op'})
        # ---- kraus / mixture / superoperator of a unitary
        kr = cirq.kraus(op2)
        mx = cirq.mixture(op2)
        ctx.count('check', 'kraus-mixture')
        sk = sum(np.kron(a, a.conj()) for a in kr)
        sm = sum(p * np.kron(a, a.conj()) for p, a in mx)
        su = np.kron(u, u.conj())
        if not (np.allclose(sk, su, atol=1e-7) and np.allclose(sm, su, atol=1e-7)):
            ctx.report_witness('kraus-mixture', 'kraus / mixture of a unitary operation is not the unitary channel', {'lines': [{'op': repr(op2)}],
                               'impl_out': [repr(np.round(sk, 5).tolist())[:2000]], 'spec_out': [repr(np.round(su, 5).tolist())[:2000]], 'theorem_or_correspondence': 'kraus_of_unitary'})
        if hasattr(cirq, 'superoperator') and cirq.has_kraus(op2):
            sp = cirq.superoperator(op2, None) if hasattr(cirq, 'superoperator') else None
            if sp is not None and not np.allclose(sp, su, atol=1e-7):
                ctx.report_witness('superoperator', 'superoperator differs from kron(U, conj U)', {'lines': [{'op': repr(op2)}], 'impl_out': ['...'], 'spec_out': ['...'], 'theorem_or_correspondence': 'superoperator_of_kraus'})
        # ---- apply_unitary on a layout: embed in a bigger tensor with spectator axes
        n_extra = rng.choice([0, 1, 2, 3])
        extra = [rng.choice([2, 2, 3, 5]) for _ in range(n_extra)]
        total = k + n_extra
        if total > 6:
            extra = extra[: 6 - k]
            total = k + len(extra)
        positions = rng.sample(range(total), k)  # axis of the i-th qubit of the op
        shape = [0] * total
        for p, d in zip(positions, dims):
            shape[p] = d
        it = iter(extra)
        for j in range(total):
            if shape[j] == 0:
                shape[j] = next(it)
        size = int(np.prod(shape))
        vec = np.array([complex(rng.gauss(0, 1), rng.gauss(0, 1)) for _ in range(size)])
        tensor = vec.reshape(shape).astype(np.complex128)
        args = cirq.ApplyUnitaryArgs(target_tensor=tensor.copy(), available_buffer=np.empty_like(tensor), axes=positions)
        got = cirq.apply_unitary(op2, args, default=None)
        reqs.append({'p': 'C01', 'op': 'run', 'shape': shape, 'init': [common.c2j(z) for z in vec],
                     'ops': [{'m': [common.c2j(z) for z in u.reshape(-1)], 'axes': positions}], 'cuts': []})
        meta.append(('apply_unitary', repr(op2), shape, positions, None if got is None else np.array(got).reshape(-1)))
        # gate-level apply (protocol on the gate itself), when the op is a plain gate operation
        if wname == 'none' and not isinstance(g, cirq.ParallelGate):
            args2 = cirq.ApplyUnitaryArgs(target_tensor=tensor.copy(), available_buffer=np.empty_like(tensor), axes=positions)
            got2 = cirq.apply_unitary(g, args2, default=None)
            reqs.append(reqs[-1])
            meta.append(('apply_unitary(gate)', repr(g), shape, positions, None if got2 is None else np.array(got2).reshape(-1)))
        # ---- act_on the simulation states
        if not qudit or True:
            order = [None] * total
            qubits_all = []
            for j in range(total):
                qubits_all.append(cirq.LineQid(100 + j, shape[j]) if shape[j] != 2 else cirq.LineQubit(100 + j))
            mapping = {q: qubits_all[p] for q, p in zip(op.qubits, positions)}
            op_m = op2.transform_qubits(mapping) if not wname.startswith('circuit-op') else op.transform_qubits(mapping)
            st = cirq.StateVectorSimulationState(qubits=qubits_all, initial_state=(vec / np.linalg.norm(vec)).astype(np.complex128).reshape(shape), dtype=np.complex128)
            cirq.act_on(op_m, st)
            reqs.append(reqs[-1] if meta[-1][0].startswith('apply_unitary') else None)
            meta.append(('act_on(sv)', repr(op_m), shape, positions, st.target_tensor.reshape(-1) * np.linalg.norm(vec)))
        # ---- decomposition
        try:
            dec = cirq.decompose_once(op2, None)
            full = cirq.decompose(op2)
        except (ValueError, TypeError) as e:
            ctx.report_witness('decompose:raises', f'the operation has a matrix but decomposing it raises {type(e).__name__}: {str(e)[:100]}',
                               {'lines': [{'op': repr(op2)}], 'impl_out': [str(e)[:300]], 'spec_out': ['operations whose product is the reported matrix'], 'theorem_or_correspondence': 'decomposition product via applyOps'})
            dec, full = None, []
        if dec is not None:
            dops = list(cirq.flatten_to_ops(dec))
            if all(set(d.qubits) <= set(op2.qubits) for d in dops) and all(cirq.has_unitary(d) for d in dops):
                qpos = {q: j for j, q in enumerate(op2.qubits)}
                lops = [{'m': [common.c2j(z) for z in cirq.unitary(d).reshape(-1)], 'axes': [qpos[q] for q in d.qubits]} for d in dops]
                reqs.append({'p': 'C01', 'op': 'unitary', 'shape': dims, 'ops': lops})
                meta.append(('decompose_once', repr(op2), dims, None, u))
        if full and not (len(full) == 1 and full[0] == op2):
            if all(set(d.qubits) <= set(op2.qubits) for d in full) and all(cirq.has_unitary(d) for d in full):
                qpos = {q: j for j, q in enumerate(op2.qubits)}
                lops = [{'m': [common.c2j(z) for z in cirq.unitary(d).reshape(-1)], 'axes': [qpos[q] for q in d.qubits]} for d in full]
                reqs.append({'p': 'C01', 'op': 'unitary', 'shape': dims, 'ops': lops})
                meta.append(('decompose', repr(op2), dims, None, u))
        ctx.case([repr(op2), shape, positions], k >= 2 or positions != list(range(k)),
                 sample={'op': repr(op2)[:200], 'tensor_shape': shape, 'axes': positions} if len(ctx.samples) < 4 and k >= 2 else None)
    outs = ctx.driver.ask(reqs)
    for (kind, desc, shape, positions, got), out in zip(meta, outs):
        ctx.count('check', kind)
        if kind in ('decompose_once', 'decompose'):
            want = mat(out)  # product of the decomposition, computed by the Lean interpreter
            if not np.allclose(want, got, atol=1e-7):
                ctx.report_witness(f'{kind}', f'the product of the {kind} operations differs from the reported matrix',
                                   {'lines': [{'op': desc}], 'impl_out': [repr(np.round(want, 6).tolist())[:3000]], 'spec_out': [repr(np.round(got, 6).tolist())[:3000]],
                                    'theorem_or_correspondence': 'decomposition product via applyOps'})
            continue
        want = np.array([common.j2c(z) for z in out['final']])
        if got is None:
            ctx.count('check', kind + ':none')
            continue
        if not np.allclose(got, want, atol=1e-7):
            ctx.report_witness(f'{kind}', f'{kind} on axes {positions} of a tensor of shape {shape} differs from the action of the reported matrix',
                               {'lines': [{'op': desc, 'shape': shape, 'axes': positions}], 'impl_out': [repr(np.round(got[:32], 6).tolist())],
                                'spec_out': [repr(np.round(want[:32], 6).tolist())], 'theorem_or_correspondence': 'applyOp via runArr_refines'})


def check_pauli_string_operations(ctx, cirq):
    """a Pauli string used as an operation, for every sign / phase of its coefficient: its matrix, its one-step decomposition (global
    phase operation included), and the matrix and one-step decomposition of its controlled form all describe coefficient x P"""
    P = {'X': cirq.unitary(cirq.X), 'Y': cirq.unitary(cirq.Y), 'Z': cirq.unitary(cirq.Z), 'I': np.eye(2)}
    paulis = {'X': cirq.X, 'Y': cirq.Y, 'Z': cirq.Z}
    qs = cirq.LineQubit.range(3)
    ctrl = cirq.LineQubit(9)
    strings = ['X', 'Z', 'XZ', 'YY', 'ZIX', 'XYZ']
    coefs = [1, -1, 1j, -1j, np.exp(0.3j), -1.0, complex(-1, 0)]
    if ctx.tier == 'quick':
        strings = strings[ctx.seed % 2::2] + ['XZ']
    for word in strings:
        for coef in coefs:
            ps = cirq.PauliString({qs[i]: paulis[ch] for i, ch in enumerate(word) if ch != 'I'}, coefficient=coef)
            order = [qs[i] for i, ch in enumerate(word) if ch != 'I']
            want = np.array([[complex(coef)]])
            for ch in word:
                if ch != 'I':
                    want = np.kron(want, P[ch])
            ctx.count('check', 'pauli-string-op')
            ctx.case(['pauli-string-op', word, repr(coef)], coef != 1)
            rep = {'lines': [{'pauli_string': repr(ps)}], 'theorem_or_correspondence': 'descriptions of one operation agree (coefficient x Pauli product)'}
            views = {
                'unitary': lambda: cirq.unitary(ps),
                'decompose_once': lambda: cirq.Circuit(cirq.decompose_once(ps)).unitary(qubit_order=order, qubits_that_should_be_present=order),
                'decompose': lambda: cirq.Circuit(cirq.decompose(ps)).unitary(qubit_order=order, qubits_that_should_be_present=order),
            }
            cwant = np.block([[np.eye(len(want)), np.zeros_like(want)], [np.zeros_like(want), want]])
            cop = ps.controlled_by(ctrl)
            views.update({
                'controlled:unitary': lambda: cirq.unitary(cop),
                'controlled:decompose_once': lambda: cirq.Circuit(cirq.decompose_once(cop)).unitary(qubit_order=[ctrl] + order, qubits_that_should_be_present=[ctrl] + order),
                'controlled:decompose': lambda: cirq.Circuit(cirq.decompose(cop)).unitary(qubit_order=[ctrl] + order, qubits_that_should_be_present=[ctrl] + order),
            })
            for vname, f in views.items():
                try:
                    got = f()
                except (TypeError, ValueError) as e:
                    ctx.count('pauli_string_op', f'{vname}:{type(e).__name__}')
                    continue
                ref = cwant if vname.startswith('controlled') else want
                if got.shape != ref.shape or not np.allclose(got, ref, atol=1e-8):
                    ctx.report_witness('pauli-string-op:' + vname, f'{vname} of a Pauli string operation is not coefficient x Pauli product' + (' under the control' if vname.startswith('controlled') else ''),
                                       dict(rep, impl_out=[repr(np.round(got, 6).tolist())], spec_out=[repr(np.round(ref, 6).tolist())]))
                    break


def check_channel_wrappers(ctx, cirq):
    """wrappers around channels and qudit gates: the has_kraus / has_mixture / has_unitary answers agree with what kraus / mixture / unitary
    return, the shape every description reports is the wrapper's qid_shape, and the Kraus description is the composition of the parts"""
    rng = ctx.substream('channel-wrappers')
    q = cirq.LineQubit.range(3)
    t = cirq.LineQid.range(3, dimension=3)

    def sup(ks):
        return sum(np.kron(np.asarray(k), np.asarray(k).conj()) for k in ks)

    p, g = round(rng.uniform(0.05, 0.45), 3), round(rng.uniform(0.1, 0.9), 3)
    subs = [('bit_flip', cirq.bit_flip(p), 2), ('amplitude_damp', cirq.amplitude_damp(g), 2), ('depolarize', cirq.depolarize(p), 2), ('reset', cirq.ResetChannel(), 2),
            ('X.with_probability', cirq.X.with_probability(p), 2), ('unitary', cirq.X**g, 2), ('reset3', cirq.ResetChannel(dimension=3), 3),
            ('clock3', cirq.ZPowGate(dimension=3, exponent=g, global_shift=0.25), 3), ('shift3.with_probability', cirq.XPowGate(dimension=3).with_probability(p), 3)]
    for sname, sub, d in subs:
        qs = q if d == 2 else t
        op = sub.on(qs[0])
        k1 = [np.asarray(k) for k in cirq.kraus(sub)]
        other = cirq.X(qs[1]) if d == 2 else cirq.XPowGate(dimension=3).on(qs[1])
        builders = [
            ('parallel-gate', lambda: cirq.ParallelGate(sub, 2), [np.kron(a, b) for a in k1 for b in k1], (d, d)),
            ('parallel-op', lambda: cirq.ParallelGate(sub, 2).on(qs[0], qs[1]), [np.kron(a, b) for a in k1 for b in k1], (d, d)),
            ('parallel-gate-3', lambda: cirq.ParallelGate(sub, 3), [np.kron(np.kron(a, b), c) for a in k1 for b in k1 for c in k1], (d, d, d)),
            ('tagged', lambda: op.with_tags('tag'), k1, (d,)),
            ('circuit-op', lambda: cirq.CircuitOperation(cirq.FrozenCircuit(op, other)), [np.kron(a, cirq.unitary(other)) for a in k1], (d, d)),
            ('circuit-op-repeated', lambda: cirq.CircuitOperation(cirq.FrozenCircuit(op), repetitions=2), [b @ a for a in k1 for b in k1], (d,)),
            ('moment', lambda: cirq.Moment(op, other), [np.kron(a, cirq.unitary(other)) for a in k1], (d, d)),
        ]
        cases = []
        for wname, build, want_k, shape in builders:
            try:
                cases.append((wname, build(), want_k, shape))
            except Exception as e:  # noqa: BLE001
                ctx.report_witness(f'wrapper-shape:{wname.split("-")[0]}', 'the wrapper cannot be applied to qids of the shape of what it wraps',
                                   {'lines': [{'wrapper': wname, 'sub': repr(sub)}], 'impl_out': [f'{type(e).__name__}: {e}'[:300]], 'spec_out': [list(shape)], 'theorem_or_correspondence': 'qid_shape of wrappers'})
        for wname, v, want_k, shape in cases:
            ctx.count('check', 'channel-wrapper:' + wname)
            ctx.case(['channel-wrapper', wname, sname, p, g], True)
            rep = {'lines': [{'wrapper': wname, 'value': repr(v)[:400]}], 'theorem_or_correspondence': 'protocol coherence (has_* vs value)'}
            if wname != 'moment' and tuple(cirq.qid_shape(v)) != shape:
                ctx.report_witness(f'wrapper-shape:{wname.split("-")[0]}', 'the wrapper does not report the shape of what it wraps', dict(rep, impl_out=[list(cirq.qid_shape(v))], spec_out=[list(shape)]))
                continue
            for pred, has, get in (('has_kraus', cirq.has_kraus, cirq.kraus), ('has_mixture', cirq.has_mixture, cirq.mixture), ('has_unitary', cirq.has_unitary, cirq.unitary)):
                try:
                    val = get(v, None)
                    answer = has(v)
                except Exception as e:  # noqa: BLE001
                    ctx.report_witness(f'predicate:{pred}:{wname}:raises', f'{pred} / its value raises on a wrapped channel', dict(rep, impl_out=[f'{type(e).__name__}: {e}'[:300]], spec_out=['an answer']))
                    continue
                if answer != (val is not None):
                    ctx.report_witness(f'predicate:{pred}:{wname.replace("-repeated", "").replace("-3", "")}', f'cirq.{pred}(v) is {answer} but cirq.{pred[4:]}(v) ' + ('returns a value' if val is not None else 'has none'),
                                       dict(rep, impl_out=[answer, val is not None], spec_out=['equal']))
                    continue
                if val is None:
                    continue
                got_k = [np.asarray(val)] if pred == 'has_unitary' else ([np.sqrt(pp) * np.asarray(u) for pp, u in val] if pred == 'has_mixture' else [np.asarray(k) for k in val])
                dim = int(np.prod(shape))
                if any(k.shape != (dim, dim) for k in got_k) or not np.allclose(sup(got_k), sup(want_k), atol=1e-7):
                    ctx.report_witness(f'wrapper-value:{pred[4:]}:{wname.split("-")[0]}', f'the {pred[4:]} description of the wrapper is not the composition of its parts',
                                       dict(rep, impl_out=[repr([np.round(k, 5).tolist() for k in got_k])[:1200]], spec_out=[repr([np.round(k, 5).tolist() for k in want_k])[:1200]]))


def check_decompose_rules(ctx, cirq):
    """`_decompose_` yields exactly the patterns Props/C04Rules.lean multiplies out for every parameter value: the theorem on the left
    decides what the pattern means, this stream that the pattern is what the gate family decomposes into."""
    rng = ctx.substream('decompose-rules')
    n = 25 if ctx.tier == 'quick' else 400
    a, b, c = cirq.NamedQubit('a'), cirq.NamedQubit('b'), cirq.NamedQubit('c')  # no adjacency notion: the default qubit order
    X, Y, Z, H, CNOT = cirq.X, cirq.Y, cirq.Z, cirq.H, cirq.CNOT

    def generic():
        while True:
            t = round(rng.uniform(-1.9, 1.9), 4)
            if min(abs(t - x) for x in (-1.5, -1, -0.5, 0, 0.5, 1, 1.5)) > 1e-3:
                return t

    for it in range(n):
        t, p, s = generic(), round(rng.uniform(-1, 1), 4), rng.choice([0, -0.5, 0.25, 0.5, 1 / 3])
        x, z, ax = (round(rng.uniform(-1, 1), 4) for _ in range(3))
        th, ph = round(rng.uniform(-3, 3), 4), round(rng.uniform(-3, 3), 4)
        T = cirq.T ** t
        sweep = [CNOT(a, b), CNOT(b, c)]
        gp = cirq.global_phase_operation(np.exp(1j * np.pi * t * s))
        cases = [
            ('C04_decompose_phasedx', cirq.PhasedXPowGate(exponent=t, phase_exponent=p, global_shift=s).on(a),
             [Z(a) ** -p, cirq.XPowGate(exponent=t, global_shift=s).on(a), Z(a) ** p]),
            ('C04_decompose_hpow', cirq.HPowGate(exponent=t, global_shift=s).on(a), [Y(a) ** 0.25, cirq.XPowGate(exponent=t, global_shift=s).on(a), Y(a) ** -0.25]),
            ('C04_decompose_hpow_one', cirq.HPowGate(exponent=1, global_shift=s).on(a), [Y(a) ** 0.5, cirq.XPowGate(global_shift=-0.25 + s).on(a)]),
            ('C04_decompose_phasedxz', cirq.PhasedXZGate(x_exponent=x, z_exponent=z, axis_phase_exponent=ax).on(a), [Z(a) ** -ax, X(a) ** x, Z(a) ** (ax + z)]),
            ('C04_decompose_cxpow', cirq.CXPowGate(exponent=t, global_shift=s).on(a, b), [Y(b) ** -0.5, cirq.CZPowGate(exponent=t, global_shift=s).on(a, b), Y(b) ** 0.5]),
            ('C04_decompose_swappow', cirq.SwapPowGate(exponent=t, global_shift=s).on(a, b), [CNOT(a, b), cirq.CXPowGate(exponent=t, global_shift=s).on(b, a), CNOT(a, b)]),
            ('C04_decompose_iswappow', cirq.ISwapPowGate(exponent=t, global_shift=s).on(a, b),
             [CNOT(a, b), H(a), CNOT(b, a), cirq.ZPowGate(exponent=t / 2, global_shift=s).on(a), CNOT(b, a), cirq.ZPowGate(exponent=-t / 2, global_shift=-s).on(a), H(a), CNOT(a, b)]),
            ('C04_decompose_zzpow', cirq.ZZPowGate(exponent=t, global_shift=s).on(a, b), [Z(a) ** t, Z(b) ** t, cirq.CZPowGate(exponent=-2 * t, global_shift=-s / 2).on(a, b)]),
            ('C04_decompose_xxpow', cirq.XXPowGate(exponent=t, global_shift=s).on(a, b), [Y(a) ** -0.5, Y(b) ** -0.5, cirq.ZZPowGate(exponent=t, global_shift=s).on(a, b), Y(a) ** 0.5, Y(b) ** 0.5]),
            ('C04_decompose_yypow', cirq.YYPowGate(exponent=t, global_shift=s).on(a, b), [X(a) ** 0.5, X(b) ** 0.5, cirq.ZZPowGate(exponent=t, global_shift=s).on(a, b), X(a) ** -0.5, X(b) ** -0.5]),
            ('C04_decompose_fsim', cirq.FSimGate(th, ph).on(a, b),
             [cirq.XXPowGate(exponent=th / np.pi, global_shift=-0.5).on(a, b), cirq.YYPowGate(exponent=th / np.pi, global_shift=-0.5).on(a, b), cirq.CZ(a, b) ** (-ph / np.pi)]),
            ('C04_decompose_phasediswap', cirq.PhasedISwapPowGate(phase_exponent=p, exponent=t).on(a, b), [Z(a) ** p, Z(b) ** -p, cirq.ISwapPowGate(exponent=t).on(a, b), Z(a) ** -p, Z(b) ** p]),
            ('C04_decompose_cypow', cirq.CYPowGate(exponent=t, global_shift=s).on(a, b), [X(b) ** 0.5, cirq.CZPowGate(exponent=t, global_shift=s).on(a, b), X(b) ** -0.5]),
            ('C04_controlled_shift_x', cirq.ControlledGate(cirq.XPowGate(exponent=t, global_shift=s)).on(a, b), [CNOT(a, b) ** t] + ([Z(a) ** (t * s)] if s != 0 else [])),
            ('C04_controlled_shift_z', cirq.ControlledGate(cirq.ZPowGate(exponent=t, global_shift=s)).on(a, b), [cirq.CZ(a, b) ** t] + ([Z(a) ** (t * s)] if s != 0 else [])),
            ('C04_controlled_shift_cz', cirq.ControlledGate(cirq.CZPowGate(exponent=t, global_shift=s)).on(a, b, c), [cirq.CCZ(a, b, c) ** t] + ([Z(a) ** (t * s)] if s != 0 else [])),
            ('C04_decompose_ccxpow', cirq.CCXPowGate(exponent=t, global_shift=s).on(a, b, c), [H(c), cirq.CCZPowGate(exponent=t, global_shift=s).on(a, b, c), H(c)]),
            ('C04_decompose_cczpow', cirq.CCZPowGate(exponent=t, global_shift=s).on(a, b, c),
             ([gp] if s != 0 else []) + [T(a), T(b), T(c), *sweep, T(b) ** -1, T(c), *sweep, T(c) ** -1, *sweep, T(c) ** -1, *sweep]),
        ]
        for rule, op, want in cases:
            ctx.count('check', 'decompose-rule:' + rule)
            ctx.case(['decompose-rule', rule, repr(op)], True)
            rep = {'lines': [{'rule': rule, 'op': repr(op)}], 'theorem_or_correspondence': rule}
            try:
                got = list(cirq.flatten_to_ops(cirq.decompose_once(op)))
            except Exception as e:  # noqa: BLE001
                ctx.report_witness(f'decompose-rule:{rule}:raises', 'a library gate with a documented decomposition cannot be decomposed', dict(rep, impl_out=[f'{type(e).__name__}: {e}'[:300]], spec_out=[repr(want)[:1500]]))
                continue
            if len(got) == len(want) and all(g.qubits == w.qubits and cirq.approx_eq(g, w, atol=1e-9) for g, w in zip(got, want)):
                continue
            # another pattern is not a violation by itself: its product decides
            qs = sorted(op.qubits)
            u_dec = cirq.Circuit(got).unitary(qubit_order=qs) if got else np.eye(2 ** len(qs))
            u = cirq.unitary(op)
            if np.allclose(u_dec, u, atol=1e-7):
                ctx.report_unproved(rule, 'the gate no longer decomposes into the pattern the theorem multiplies out (the new pattern still has the matrix of the gate in floats)',
                                    dict(rep, impl_out=[repr(got)[:1500]], spec_out=[repr(want)[:1500]]))
            else:
                ctx.report_witness(f'decompose-rule:{rule}', 'the decomposition of the gate does not have the matrix of the gate', dict(rep, impl_out=[repr(got)[:1500]], spec_out=[repr(want)[:1500]]))


def replay(ctx, rep):
    print(json.dumps(rep, indent=1)[:3000])
    return 1
