"""C08 — Gate algebra and predicates are sound with respect to matrices.

Lean: spectral calculus (C08_eigen_powers_add / _inverse over any commutative ring), control values
(`mem_product`: ProductOfSums.expand denotes the product set), `C08_controlled_apply` (a controlled
operation acts as its target exactly on the selected control states).  Tie (T2): powers / inverses of the
documented families against the transcription at the multiplied exponent; matrices of ControlledGate /
controlled() shortcuts (products of sums, sums of products, qudit controls, nested controls) against the
Lean controlled matrix; phase_by against conjugation by Z rotations through the Lean interpreter;
predicates (commutes, equality, approximate equality, equal up to global phase, has_stabilizer_effect,
trace_distance_bound) against the matrices.
"""
from __future__ import annotations

import functools
import itertools
import json
import math

import numpy as np

from harness import common, gen
from harness.props import c03

MODULES = ['CirqVerif.Props.C08', 'CirqVerif.Props.C08b', 'NonVacuity.ComplexModel']


def mat(out):
    return np.array([[common.j2c(z) for z in row] for row in out])


def phase_equal(a, b, atol=1e-7):
    a, b = np.asarray(a), np.asarray(b)
    if a.shape != b.shape:
        return False
    k = np.argmax(np.abs(b))
    if abs(b.flat[k]) < 1e-9:
        return np.allclose(a, b, atol=atol)
    ph = a.flat[k] / b.flat[k]
    return abs(abs(ph) - 1) < 1e-6 and np.allclose(a, ph * b, atol=atol)


def run(ctx: common.Run):
    import cirq
    import cirq_google
    import cirq_ionq

    ctx.rule = (
        'powers: every EigenGate family x base exponent x shift x power (special + random); controlled: random 1-2 qudit targets x '
        'control specs (ints, per-qubit value sets, sums of products, qutrit controls, nested, controlled() shortcuts of X/Y/Z/CZ/CX); '
        'phase_by on phaseable gates; predicates on random gate pairs; non-trivial = exponent/power not in {0,1} or >= 1 non-default '
        'control value; distinct by canonical description'
    )
    ctx.trusted += [
        'harness/props/c08.py + lean/Driver/C08.lean, C03.lean, C01.lean (T2 on generated cases only; tolerance 1e-7)',
        'matrices of arbitrary sub-gates are taken from cirq.unitary(sub) (C03 ties the library families to the documentation)',
        'predicate soundness is checked against numpy products of those matrices',
    ]
    ok, failing = ctx.lean(MODULES)
    if not ok:
        ctx.report_unproved('lean-build', f'{failing}', {'theorem_or_correspondence': failing})
        return
    n = 25 if ctx.tier == 'quick' else 400
    check_powers(ctx, cirq, cirq_google, cirq_ionq, n)
    check_controlled(ctx, cirq, n * 6)
    check_phase_by(ctx, cirq, n * 3)
    check_phase_by_closed_forms(ctx, cirq, n)
    check_predicates(ctx, cirq, n * 8)
    check_equality_pool(ctx, cirq)
    check_control_value_equality(ctx, cirq)
    check_predicates_pure(ctx, cirq)
    check_commutes_tolerance(ctx, cirq)
    check_commutes_pauli_copies(ctx, cirq)
    check_interchangeable_qubits(ctx, cirq)
    check_operation_predicates(ctx, cirq, n * 6)


# ------------------------------------------------------------------------------ powers
def check_powers(ctx, cirq, cirq_google, cirq_ionq, n):
    rng = ctx.substream('powers')
    reqs, meta = [], []
    for name, kinds, build in c03.families(cirq, cirq_google, cirq_ionq):
        if kinds[:2] != ['exp', 'shift'] or len(kinds) != 2:
            continue
        for _ in range(n):
            e, s = c03.gen_param(rng, 'exp'), c03.gen_param(rng, 'shift')
            t = float(gen.rand_exponent(rng))
            t2 = float(gen.rand_exponent(rng))
            reqs.append({'p': 'C03', 'op': 'gate', 'name': name, 'params': [common.f2b(e * t), common.f2b(s)]})
            meta.append((name, 'pow', build, e, s, t, None))
            reqs.append({'p': 'C03', 'op': 'gate', 'name': name, 'params': [common.f2b(-e), common.f2b(s)]})
            meta.append((name, 'inverse', build, e, s, -1, None))
            reqs.append({'p': 'C03', 'op': 'gate', 'name': name, 'params': [common.f2b(e * t * t2), common.f2b(s)]})
            meta.append((name, 'powpow', build, e, s, t, t2))
    outs = ctx.driver.ask(reqs)
    for (name, kind, build, e, s, t, t2), out in zip(meta, outs):
        g = build(e, s)
        if kind == 'pow':
            got = cirq.unitary(g**t)
        elif kind == 'inverse':
            got = cirq.unitary(cirq.inverse(g))
        else:
            got = cirq.unitary((g**t) ** t2)
        want = mat(out)
        ctx.count('check', f'power:{kind}')
        ctx.case(['pow', name, kind, e, s, t, t2], t not in (0, 1) and e not in (0, 1))
        if not np.allclose(got, want, atol=1e-7):
            ctx.report_witness(f'power:{name}:{kind}', f'{kind} of {name} is not the matrix power defined by the eigen-decomposition',
                               {'lines': [{'gate': repr(g), 'power': t, 'power2': t2}], 'impl_out': [repr(np.round(got, 8).tolist())],
                                'spec_out': [repr(np.round(want, 8).tolist())], 'theorem_or_correspondence': 'C08_eigen_powers_add'})
    # a global phase, however its coefficient is spelled (python / numpy, real / complex): c**t = exp(i t arg c)
    for cname, c in (('complex', 1j), ('int', -1), ('float', -1.0), ('np.float64', np.float64(-1.0)), ('np.float32', np.float32(-1.0)), ('np.complex128', np.complex128(-1.0)),
                     ('np.int64', np.int64(-1)), ('complex-generic', complex(np.exp(0.7j))), ('np.float64+', np.float64(1.0))):
        for t in (0.5, -0.5, 2, -1, 0.25, 1.5, 3, 0):
            g = cirq.GlobalPhaseGate(c)
            ctx.count('check', 'power:global-phase')
            ctx.case(['pow-global-phase', cname, t], t not in (0, 1))
            try:
                p = cirq.pow(g, t, None)
                got = None if p is None else cirq.unitary(p)
            except Exception as ex:
                got = f'{type(ex).__name__}: {ex}'[:100]
            if got is None:
                continue
            want = np.array([[np.exp(1j * t * np.angle(complex(c)))]])
            if isinstance(got, str) or not np.allclose(got, want, atol=1e-7):
                ctx.report_witness('power:GlobalPhaseGate', 'a power of a global phase is not the phase raised to that power',
                                   {'lines': [{'gate': repr(g), 'coefficient_type': cname, 'power': t}], 'impl_out': [repr(got)], 'spec_out': [repr(want.tolist())],
                                    'theorem_or_correspondence': 'C08_eigen_powers_add'})
    # generic gates: inverse undoes, G**-1 is the adjoint
    for _ in range(n * 4):
        k = rng.choice([1, 1, 2, 2, 3])
        g = {1: gen.one_qubit_gate, 2: gen.two_qubit_gate, 3: gen.three_qubit_gate}[k](cirq, rng)
        u = cirq.unitary(g)
        inv = cirq.inverse(g, None)
        ctx.count('check', 'inverse-generic')
        ctx.case(['inv', repr(g)], True)
        if inv is None:
            continue
        ui = cirq.unitary(inv)
        if not np.allclose(ui @ u, np.eye(len(u)), atol=1e-7):
            ctx.report_witness('inverse:generic', 'cirq.inverse(g) does not undo g',
                               {'lines': [{'gate': repr(g)}], 'impl_out': [repr(np.round(ui @ u, 8).tolist())], 'spec_out': ['identity'],
                                'theorem_or_correspondence': 'C08_eigen_inverse'})


# ------------------------------------------------------------------------------ controlled
def rand_control_spec(rng, cdims):
    """returns (kind, lean spec dict, cirq control_values)"""
    kind = rng.choice(['default', 'ints', 'pos', 'sop'])
    if kind == 'default':
        return kind, {'pos': [[1] for _ in cdims]}, None
    if kind == 'ints':
        vals = [rng.randrange(d) for d in cdims]
        return kind, {'pos': [[v] for v in vals]}, vals
    if kind == 'pos':
        vals = [sorted(rng.sample(range(d), rng.randint(1, d))) for d in cdims]
        return kind, {'pos': vals}, [tuple(v) for v in vals]
    allp = list(itertools.product(*[range(d) for d in cdims]))
    chosen = sorted(rng.sample(allp, rng.randint(1, len(allp))))
    return kind, {'sop': [list(c) for c in chosen]}, chosen


def check_controlled(ctx, cirq, n):
    rng = ctx.substream('controlled')
    reqs, meta = [], []
    for i in range(n):
        mode = rng.choice(['gate', 'gate', 'op', 'shortcut', 'nested', 'qudit', 'qudit-shortcut'])
        nc = rng.choice([1, 1, 2])
        cdims = [2] * nc
        if mode == 'qudit-shortcut':
            # X / Z power gates of a qutrit through their own controlled() / controlled_by (which special-case qubits)
            d = rng.choice([3, 3, 4])
            sub = rng.choice([cirq.XPowGate, cirq.ZPowGate])(dimension=d, exponent=rng.choice([1, 1, 2, 0.5, gen.rand_exponent(rng)]))
            tdims = [d]
            cdims = [rng.choice([2, 2, 3]) for _ in range(nc)]
        elif mode == 'qudit':
            cdims = [rng.choice([2, 3]) for _ in range(nc)]
            tdims = [rng.choice([2, 3])]
            sub = gen.qudit_gate(cirq, rng, tdims) if tdims != [2] else gen.one_qubit_gate(cirq, rng)
        elif mode == 'shortcut':
            sub = rng.choice([cirq.X, cirq.Y, cirq.Z, cirq.CZ, cirq.CX, cirq.X**0.5, cirq.Z**rng.choice([0.25, -0.5, 1.0]),
                              cirq.CZ**0.5, cirq.XPowGate(exponent=1, global_shift=0.5), cirq.ZPowGate(global_shift=-0.5)])
            if rng.random() < 0.5:
                # the families with a controlled() of their own, at exponent / shift pairs whose global phase exp(i pi e s) is -1, +-i, 1 or generic
                F = rng.choice([cirq.XPowGate, cirq.ZPowGate, cirq.YPowGate, cirq.CZPowGate, cirq.CXPowGate, cirq.CCXPowGate, cirq.CCZPowGate])
                e, sh = rng.choice([(1, 1), (1, -1), (2, 0.5), (0.5, 2), (3, 1), (1, 0.5), (1, 2), (0.5, -0.5), (0.3, 0.25), (1, 0), (0.5, 1), (2, 1.5)])
                sub = F(exponent=e, global_shift=sh)
            tdims = [2] * cirq.num_qubits(sub)
        else:
            k = rng.choice([1, 1, 2])
            sub = {1: gen.one_qubit_gate, 2: gen.two_qubit_gate}[k](cirq, rng)
            tdims = [2] * k
        kind, spec, cvals = rand_control_spec(rng, cdims)
        if mode == 'qudit-shortcut' and rng.random() < 0.6:
            kind, spec, cvals = 'default', {'pos': [[1] for _ in cdims]}, None
        u_sub = cirq.unitary(sub)
        try:
            if mode == 'qudit-shortcut':
                cv_arg = None if cvals is None else (cirq.SumOfProducts(cvals) if kind == 'sop' else cvals)
                if rng.random() < 0.5:
                    cg = sub.controlled(num_controls=nc, control_values=cv_arg, control_qid_shape=tuple(cdims))
                    got = cirq.unitary(cg)
                else:
                    qs = [cirq.LineQid(i, dd) for i, dd in enumerate(cdims + tdims)]
                    try:
                        got = cirq.unitary(sub.on(*qs[nc:]).controlled_by(*qs[:nc], control_values=cv_arg))
                    except ValueError as e:
                        if kind == 'default':
                            ctx.report_witness('controlled:qudit:raises', f'controlled_by on a qudit power gate raises: {e}',
                                               {'lines': [{'sub': repr(sub), 'control_dims': cdims}], 'impl_out': [str(e)[:200]], 'spec_out': ['block matrix'],
                                                'theorem_or_correspondence': 'C08_controlled_apply'})
                        raise
            elif mode == 'shortcut':
                cg = sub.controlled(num_controls=nc, control_values=None if cvals is None else (cirq.SumOfProducts(cvals) if kind == 'sop' else cvals),
                                    control_qid_shape=tuple(cdims))
                got = cirq.unitary(cg)
            elif mode == 'op':
                qs = [cirq.LineQid(i, d) for i, d in enumerate(cdims + tdims)]
                cop = sub.on(*qs[nc:]).controlled_by(*qs[:nc], control_values=None if cvals is None else (cirq.SumOfProducts(cvals) if kind == 'sop' else cvals))
                got = cirq.unitary(cop)
            elif mode == 'nested' and nc == 2 and kind in ('default', 'ints', 'pos'):
                inner_vals = None if cvals is None else [cvals[1]]
                outer_vals = None if cvals is None else [cvals[0]]
                inner = cirq.ControlledGate(sub, num_controls=1, control_values=inner_vals, control_qid_shape=(cdims[1],))
                cg = cirq.ControlledGate(inner, num_controls=1, control_values=outer_vals, control_qid_shape=(cdims[0],))
                got = cirq.unitary(cg)
            else:
                cg = cirq.ControlledGate(sub, num_controls=nc, control_values=None if cvals is None else (cirq.SumOfProducts(cvals) if kind == 'sop' else cvals),
                                         control_qid_shape=tuple(cdims))
                got = cirq.unitary(cg)
        except ValueError as e:
            ctx.count('controlled_error', type(e).__name__)
            continue
        req = {'p': 'C08', 'op': 'controlled_matrix', 'cdims': cdims, 'tdims': tdims, 'u': [common.c2j(z) for z in u_sub.reshape(-1)]}
        req.update(spec)
        reqs.append(req)
        meta.append((mode, kind, repr(sub), cdims, cvals, got))
        # control-value algebra
        if 'pos' in spec:
            reqs.append({'p': 'C08', 'op': 'cv_expand', 'pos': spec['pos']})
            pos = cirq.ProductOfSums([tuple(v) for v in spec['pos']])
            meta.append(('cv_expand', kind, repr(pos), cdims, None, sorted(list(p) for p in pos.expand())))
            reqs.append({'p': 'C08', 'op': 'cv_validate', 'pos': spec['pos'], 'shape': [2] * len(cdims)})
            try:
                pos.validate([2] * len(cdims))
                v = True
            except ValueError:
                v = False
            meta.append(('cv_validate', kind, repr(pos), cdims, None, v))
    # control-value algebra: `&` is the product of the two sets (on the concatenated controls), `|` their union
    for i in range(n):
        nq = rng.choice([1, 2, 2, 3])
        dims = [rng.choice([2, 2, 3]) for _ in range(nq)]

        def rand_cv(dims_):
            if rng.random() < 0.5:
                return cirq.ProductOfSums([tuple(sorted(rng.sample(range(d), rng.randint(1, d)))) for d in dims_])
            allp = list(itertools.product(*[range(d) for d in dims_]))
            return cirq.SumOfProducts(sorted(rng.sample(allp, rng.randint(1, len(allp)))))

        a, b = rand_cv(dims), rand_cv(dims)
        c = rand_cv([rng.choice([2, 3]) for _ in range(rng.choice([1, 2]))])
        sa, sb, sc = set(a.expand()), set(b.expand()), set(c.expand())
        ctx.count('check', 'cv:or')
        ctx.count('check', 'cv:and')
        ctx.case(['cv', repr(a), repr(b), repr(c)], True)
        got_or = set((a | b).expand())
        if got_or != sa | sb:
            both_pos = isinstance(a, cirq.ProductOfSums) and isinstance(b, cirq.ProductOfSums)
            ctx.report_witness('cv:or' + (':product-of-sums' if both_pos else ''), 'the `|` of two control-value specifications is not the union of the control states they select',
                               {'lines': [{'a': repr(a), 'b': repr(b)}], 'impl_out': [sorted(got_or)], 'spec_out': [sorted(sa | sb)], 'theorem_or_correspondence': 'cv_union'})
        got_and = set((a & c).expand())
        if got_and != {x + y for x in sa for y in sc}:
            ctx.report_witness('cv:and', 'the `&` of two control-value specifications is not the product of the control states they select',
                               {'lines': [{'a': repr(a), 'c': repr(c)}], 'impl_out': [sorted(got_and)], 'spec_out': [sorted(x + y for x in sa for y in sc)], 'theorem_or_correspondence': 'cv_product'})
    outs = ctx.driver.ask(reqs)
    for (mode, kind, sub, cdims, cvals, got), out in zip(meta, outs):
        ctx.count('check', f'controlled:{mode}')
        ctx.count('control_spec', kind)
        ctx.case(['ctl', mode, kind, sub, cdims, repr(cvals)], kind != 'default')
        if mode == 'cv_expand':
            if [list(x) for x in got] != out:
                ctx.report_witness('cv:expand', 'ProductOfSums.expand() is not the product set', {'lines': [{'pos': sub}], 'impl_out': [got], 'spec_out': [out], 'theorem_or_correspondence': 'mem_product'})
            continue
        if mode == 'cv_validate':
            if got != out:
                ctx.report_witness('cv:validate', 'ProductOfSums.validate disagrees with the range check', {'lines': [{'pos': sub}], 'impl_out': [got], 'spec_out': [out], 'theorem_or_correspondence': 'validatePoS'})
            continue
        want = mat(out)
        if got.shape != want.shape or not np.allclose(got, want, atol=1e-7):
            ctx.report_witness(f'controlled:{mode}:{kind}', 'matrix of the controlled gate is not the block matrix applying the target on the selected control states',
                               {'lines': [{'sub': sub, 'control_dims': cdims, 'control_values': repr(cvals), 'mode': mode}],
                                'impl_out': [repr(np.round(got, 6).tolist())], 'spec_out': [repr(np.round(want, 6).tolist())],
                                'theorem_or_correspondence': 'C08_controlled_apply'})


# ------------------------------------------------------------------------------ phase_by
def check_phase_by(ctx, cirq, n):
    rng = ctx.substream('phase_by')
    reqs, meta = [], []
    # systematic part: the phaseable families at generic exponents x every eighth of a turn (the fast paths of
    # phase_by switch on the phase exponent 2p in {0, 0.5, 1, 1.5})
    grid = []
    fams = [cirq.X, cirq.Y, cirq.Z, cirq.XPowGate(global_shift=0.5), cirq.YPowGate(global_shift=-0.25), cirq.PhasedXPowGate(phase_exponent=0.3),
            cirq.CZ, cirq.CNOT, cirq.ZZ, cirq.XX, cirq.YY, cirq.ISWAP, cirq.SWAP, cirq.CCZ, cirq.CCX]
    for fam in fams:
        for e in (0.5, 0.3, -1.25, 1):
            for p8 in range(-8, 9):
                gg = fam**e
                for qi in range(cirq.num_qubits(gg)):
                    grid.append((gg, p8 / 8, qi))
    if ctx.tier == 'quick':
        grid = [grid[j] for j in range(ctx.seed % 3, len(grid), 3)]
    for i in range(n + len(grid)):
        if i < len(grid):
            g, p, q = grid[i]
            k = cirq.num_qubits(g)
        else:
            k = rng.choice([1, 1, 2, 2, 3])
            g = {1: gen.one_qubit_gate, 2: gen.two_qubit_gate, 3: gen.three_qubit_gate}[k](cirq, rng)
            p = float(rng.choice([0.25, 0.5, -0.5, -0.75, -0.125, 0.1, rng.uniform(-1, 1)]))
            q = rng.randrange(k)
        if i % 2 == 1:  # the operation form goes through GateOperation._phase_by_
            op_ph = cirq.phase_by(g.on(*cirq.LineQubit.range(k)), p, q, default=None)
            phased = op_ph.gate if op_ph is not None else None
            ctx.count('check', 'phase_by:operation')
        else:
            phased = cirq.phase_by(g, p, q, default=None)
        ctx.count('check', 'phase_by' if phased is not None else 'phase_by:unsupported')
        if phased is None:
            continue
        try:
            got = cirq.unitary(phased)
        except TypeError:
            continue
        u = cirq.unitary(g)
        z = lambda t: [common.c2j(1), common.c2j(0), common.c2j(0), common.c2j(np.exp(1j * np.pi * t))]
        # "phasing a qubit conjugates by the Z rotation": Z^{2p} U Z^{-2p} on that qubit
        ops = [{'m': z(-2 * p), 'axes': [q]}, {'m': [common.c2j(x) for x in u.reshape(-1)], 'axes': list(range(k))}, {'m': z(2 * p), 'axes': [q]}]
        reqs.append({'p': 'C01', 'op': 'unitary', 'shape': [2] * k, 'ops': ops})
        meta.append((repr(g), p, q, got))
    outs = ctx.driver.ask(reqs)
    for (g, p, q, got), out in zip(meta, outs):
        want = mat(out)
        ctx.case(['phase_by', g, p, q], True)
        if not phase_equal(got, want):
            ctx.report_witness('phase_by', 'phase_by is not conjugation by the Z rotation (up to global phase)',
                               {'lines': [{'gate': g, 'phase_turns': p, 'qubit_index': q}], 'impl_out': [repr(np.round(got, 6).tolist())],
                                'spec_out': [repr(np.round(want, 6).tolist())], 'theorem_or_correspondence': 'phase_by_conj (T2)'})


def check_phase_by_closed_forms(ctx, cirq, n):
    """the gates whose `phase_by` has a closed form return it (Props/C08b proves the closed forms are the conjugation)"""
    rng = ctx.substream('phase_by_forms')
    for _ in range(n):
        t, p, s = float(gen.rand_exponent(rng)), float(rng.uniform(-1, 1)), float(gen.rand_shift(rng))
        tau = float(rng.choice([0.25, -0.125, 0.5, 0.1, rng.uniform(-1, 1)]))
        x, z, a = rng.uniform(-1, 1), rng.uniform(-1, 1), rng.uniform(-1, 1)
        cases = [
            ('C08_phase_by_phasedx', cirq.PhasedXPowGate(exponent=t, phase_exponent=p, global_shift=s), cirq.PhasedXPowGate(exponent=t, phase_exponent=p + 2 * tau, global_shift=s)),
            ('C08_phase_by_phasedxz', cirq.PhasedXZGate(x_exponent=x, z_exponent=z, axis_phase_exponent=a), cirq.PhasedXZGate(x_exponent=x, z_exponent=z, axis_phase_exponent=a + 2 * tau)),
            ('C08_phase_by_z', cirq.ZPowGate(exponent=t, global_shift=s), cirq.ZPowGate(exponent=t, global_shift=s)),
        ]
        for rule, g, want in cases:
            got = cirq.phase_by(g, tau, 0)
            ctx.count('check', 'phase_by:closed-form')
            ctx.case(['phase_by_form', rule, repr(g), tau], True)
            if type(got) is not type(want) or not np.allclose(cirq.unitary(got), cirq.unitary(want), atol=1e-8):
                ctx.report_witness(f'phase_by:form:{rule}', 'phase_by does not return the closed form proved to be the conjugation by the Z rotation',
                                   {'lines': [{'gate': repr(g), 'phase_turns': tau}], 'impl_out': [repr(got)], 'spec_out': [repr(want)], 'theorem_or_correspondence': rule})


# ------------------------------------------------------------------------------ predicates
def is_pauli_like(m):
    """is the 2^n x 2^n matrix a Pauli string up to phase?  (exactly one non-zero of modulus 1 per row, entries in {±1,±i}·c)"""
    n = int(round(math.log2(len(m))))
    paulis = {'I': np.eye(2), 'X': np.array([[0, 1], [1, 0]]), 'Y': np.array([[0, -1j], [1j, 0]]), 'Z': np.diag([1, -1])}
    for combo in itertools.product('IXYZ', repeat=n):
        p = np.array([[1]])
        for c in combo:
            p = np.kron(p, paulis[c])
        ov = np.trace(p.conj().T @ m) / len(m)
        if abs(abs(ov) - 1) < 1e-6:
            return np.allclose(m, ov * p, atol=1e-6)
    return False


def check_predicates(ctx, cirq, n):
    rng = ctx.substream('predicates')
    qs = cirq.LineQubit.range(3)
    for i in range(n):
        ka, kb = rng.choice([1, 1, 2, 3]), rng.choice([1, 1, 2])
        mk = {1: gen.one_qubit_gate, 2: gen.two_qubit_gate, 3: gen.three_qubit_gate}
        ga, gb = mk[ka](cirq, rng), mk[kb](cirq, rng)
        if rng.random() < 0.3:  # related gates make the predicates fire
            base = rng.choice([cirq.X, cirq.Y, cirq.Z, cirq.H, cirq.S, cirq.T, cirq.CZ, cirq.CNOT, cirq.ZZ, cirq.XX, cirq.ISWAP, cirq.SWAP])
            ga = base ** gen.rand_exponent(rng)
            gb = rng.choice([base, cirq.Z, cirq.X, cirq.CZ, cirq.ZZ]) ** gen.rand_exponent(rng)
            ka, kb = cirq.num_qubits(ga), cirq.num_qubits(gb)
        if rng.random() < 0.3:  # exponents that differ by candidate periods: equality must imply equal matrices
            cls = rng.choice([cirq.XPowGate, cirq.YPowGate, cirq.ZPowGate, cirq.HPowGate, cirq.CZPowGate, cirq.CXPowGate, cirq.SwapPowGate,
                              cirq.ISwapPowGate, cirq.XXPowGate, cirq.ZZPowGate, cirq.CCZPowGate])
            e, sh = gen.rand_exponent(rng), rng.choice([0, 0, 0.5, -0.5, 0.25, 1])
            ga = cls(exponent=e, global_shift=sh)
            gb = cls(exponent=e + rng.choice([2, 4, -2, 1, 0.5, 8, -4, 1e-10]), global_shift=sh)
            ka = kb = cirq.num_qubits(ga)
        if rng.random() < 0.15:  # vendor gates: equality must look at every parameter of the matrix
            import cirq_ionq

            vals = lambda: rng.choice([0, 0.1, 0.25, 0.5, 0.55, 1.1])
            fam = rng.choice(['gpi', 'gpi2', 'ms', 'zz'])
            mkv = {'gpi': lambda: cirq_ionq.GPIGate(phi=vals()), 'gpi2': lambda: cirq_ionq.GPI2Gate(phi=vals()),
                   'ms': lambda: cirq_ionq.MSGate(phi0=vals(), phi1=rng.choice([0, 0.2]), theta=rng.choice([0.25, 0.1, 0.25])), 'zz': lambda: cirq_ionq.ZZGate(theta=vals())}[fam]
            ga, gb = mkv(), mkv()
            if fam == 'ms' and rng.random() < 0.6:  # same phases, possibly different theta
                gb = cirq_ionq.MSGate(phi0=ga.phi0, phi1=ga.phi1, theta=rng.choice([0.25, 0.1, 0.4]))
            ka = kb = cirq.num_qubits(ga)
        a = ga.on(*rng.sample(qs, ka))
        b = gb.on(*rng.sample(qs, kb))
        ua, ub = cirq.unitary(a), cirq.unitary(b)
        allq = sorted(set(a.qubits) | set(b.qubits))
        # commutes
        c = cirq.commutes(a, b, default=None)
        ctx.count('check', f'commutes:{c}')
        ctx.case(['commutes', repr(a), repr(b)], True)
        if c is True:
            ca = cirq.Circuit(a, b).unitary(qubit_order=allq, qubits_that_should_be_present=allq)
            cb = cirq.Circuit(b, a).unitary(qubit_order=allq, qubits_that_should_be_present=allq)
            if not np.allclose(ca, cb, atol=1e-6):
                ctx.report_witness('predicate:commutes', 'cirq.commutes is True but the matrices do not commute',
                                   {'lines': [{'a': repr(a), 'b': repr(b)}], 'impl_out': ['True'], 'spec_out': ['matrices do not commute'], 'theorem_or_correspondence': 'commutes_sound'})
        cg = cirq.commutes(ga, gb, default=None) if ka == kb else None
        if cg is True and not np.allclose(cirq.unitary(ga) @ cirq.unitary(gb), cirq.unitary(gb) @ cirq.unitary(ga), atol=1e-6):
            ctx.report_witness('predicate:commutes:gates', 'cirq.commutes on gates is True but the matrices do not commute',
                               {'lines': [{'a': repr(ga), 'b': repr(gb)}], 'impl_out': ['True'], 'spec_out': ['matrices do not commute'], 'theorem_or_correspondence': 'commutes_sound'})
        # equality family (same arity only)
        if ka == kb:
            u1, u2 = cirq.unitary(ga), cirq.unitary(gb)
            for name, val, ok in (
                ('eq', ga == gb, np.allclose(u1, u2, atol=1e-7)),
                ('approx_eq', cirq.approx_eq(ga, gb, atol=1e-9), np.allclose(u1, u2, atol=1e-5)),
                ('equal_up_to_global_phase', cirq.equal_up_to_global_phase(ga, gb, atol=1e-9), phase_equal(u1, u2, atol=1e-5)),
            ):
                ctx.count('check', f'{name}:{bool(val)}')
                if val and not ok:
                    ctx.report_witness(f'predicate:{name}', f'{name} holds but the matrices differ',
                                       {'lines': [{'a': repr(ga), 'b': repr(gb)}], 'impl_out': ['True'], 'spec_out': ['matrices differ'], 'theorem_or_correspondence': 'equality_sound'})
        # stabilizer effect
        for g, u in ((ga, cirq.unitary(ga)), (gb, cirq.unitary(gb))):
            if cirq.num_qubits(g) <= 2 and cirq.has_stabilizer_effect(g):
                ctx.count('check', 'has_stabilizer_effect:True')
                k = cirq.num_qubits(g)
                okc = True
                for pos in range(k):
                    for pm in (np.array([[0, 1], [1, 0]]), np.diag([1, -1])):
                        p = np.array([[1]])
                        for j in range(k):
                            p = np.kron(p, pm if j == pos else np.eye(2))
                        okc = okc and is_pauli_like(u @ p @ u.conj().T)
                if not okc:
                    ctx.report_witness('predicate:has_stabilizer_effect', 'has_stabilizer_effect is True but the matrix does not map Paulis to Paulis',
                                       {'lines': [{'gate': repr(g)}], 'impl_out': ['True'], 'spec_out': ['not Clifford'], 'theorem_or_correspondence': 'stabilizer_effect_sound'})
            # trace distance bound: for any pure state |psi>, T(|psi><psi|, U|psi><psi|U^+) = sqrt(1-|<psi|U|psi>|^2) <= bound
            bound = cirq.trace_distance_bound(g)
            ctx.count('check', 'trace_distance_bound')
            w, v = np.linalg.eig(u)
            worst = 0.0
            cands = [v[:, i] for i in range(len(w))]
            for i, j in itertools.combinations(range(len(w)), 2):
                cands.append((v[:, i] + v[:, j]) / np.sqrt(2))
            for psi in cands:
                psi = psi / np.linalg.norm(psi)
                ov = abs(np.vdot(psi, u @ psi)) ** 2
                worst = max(worst, math.sqrt(max(0.0, 1 - ov)))
            if worst > bound + 1e-6:
                ctx.report_witness('predicate:trace_distance_bound', 'trace_distance_bound is smaller than an achieved trace distance',
                                   {'lines': [{'gate': repr(g)}], 'impl_out': [bound], 'spec_out': [worst], 'theorem_or_correspondence': 'trace_distance_bound_partial'})
        # trace distance bound of operations, incl. controlled operations (control-off block = identity: eigenvalue 1 joins the spectrum)
        sub = rng.choice([cirq.rz(rng.choice([6.0, 4.0, -5.5, rng.uniform(-7, 7)])), cirq.rx(rng.uniform(-7, 7)), cirq.ZPowGate(exponent=gen.rand_exponent(rng), global_shift=gen.rand_shift(rng)),
                          cirq.XPowGate(exponent=gen.rand_exponent(rng), global_shift=gen.rand_shift(rng)), gen.one_qubit_gate(cirq, rng), gen.two_qubit_gate(cirq, rng)])
        ks = cirq.num_qubits(sub)
        wires = cirq.LineQubit.range(4)
        target_op = sub.on(*wires[:ks])
        forms = [('op', target_op), ('tagged', target_op.with_tags('t'))]
        if ks <= 2:
            forms.append(('controlled_by', target_op.controlled_by(wires[3])))
            forms.append(('controlled_by[0]', target_op.controlled_by(wires[3], control_values=[0])))
            forms.append(('controlled_gate', cirq.ControlledGate(sub).on(wires[3], *wires[:ks])))
            if ks == 1:
                forms.append(('controlled_by x2', target_op.controlled_by(wires[2], wires[3])))
        for fname, op in forms:
            try:
                bound = cirq.trace_distance_bound(op)
                u = cirq.unitary(op)
            except TypeError:
                continue
            ctx.count('check', f'trace_distance_bound:{fname}')
            w, v = np.linalg.eig(u)
            worst = 0.0
            for a_, b_ in itertools.combinations(range(len(w)), 2):
                psi = (v[:, a_] + v[:, b_])
                nrm = np.linalg.norm(psi)
                if nrm < 1e-6:
                    continue
                psi = psi / nrm
                worst = max(worst, math.sqrt(max(0.0, 1 - abs(np.vdot(psi, u @ psi)) ** 2)))
            if worst > bound + 1e-6:
                ctx.report_witness(f'predicate:trace_distance_bound:{fname.split("[")[0].split(" ")[0]}', 'trace_distance_bound of an operation is smaller than an achieved trace distance',
                                   {'lines': [{'op': repr(op)}], 'impl_out': [bound], 'spec_out': [worst], 'theorem_or_correspondence': 'trace_distance_bound_partial'})


def embed(cirq, op, order):
    """matrix of an operation on the qubits `order` (identity elsewhere)"""
    return cirq.Circuit(op).unitary(qubit_order=order, qubits_that_should_be_present=order)


def check_operation_predicates(ctx, cirq, n):
    """equality predicates on operations look at the order of the qubits; has_stabilizer_effect derived from a matrix looks at
    every generator on every qubit; commutes of Clifford gate objects"""
    rng = ctx.substream('op_predicates')
    qs = cirq.LineQubit.range(3)
    multi = [cirq.CNOT, cirq.CZ, cirq.SWAP, cirq.ISWAP, cirq.CCX, cirq.CCZ, cirq.CSWAP, cirq.CNOT ** 0.5, cirq.PhasedFSimGate(0.3, 0.1, 0.2, 0.4, 0.5), cirq.PhasedISwapPowGate(phase_exponent=0.2, exponent=0.4),
             cirq.FSimGate(0.4, 0.2), cirq.XX ** 0.3, cirq.ZZ ** 0.3, cirq.ControlledGate(cirq.Y ** 0.3), cirq.MatrixGate(gen.rand_unitary(rng, 4)), cirq.TwoQubitDiagonalGate([0.1, 0.4, 0.9, 1.7]),
             cirq.ControlledGate(cirq.ISWAP), cirq.QubitPermutationGate([1, 2, 0])]
    for _ in range(n):
        ga = rng.choice(multi)
        gb = ga if rng.random() < 0.7 else rng.choice(multi)
        if cirq.num_qubits(ga) != cirq.num_qubits(gb):
            continue
        k = cirq.num_qubits(ga)
        ta = rng.sample(qs, k)
        tb = list(ta)
        if rng.random() < 0.8:
            rng.shuffle(tb)
        a, b = ga.on(*ta), gb.on(*tb)
        if rng.random() < 0.2:
            b = b.with_tags('t')
        ua, ub = embed(cirq, a, qs), embed(cirq, b, qs)
        for name, val, ok in (
            ('eq', a == b, np.allclose(ua, ub, atol=1e-7)),
            ('approx_eq', cirq.approx_eq(a, b, atol=1e-9), np.allclose(ua, ub, atol=1e-5)),
            ('equal_up_to_global_phase', cirq.equal_up_to_global_phase(a, b, atol=1e-9), phase_equal(ua, ub, atol=1e-5)),
        ):
            ctx.count('check', f'op-{name}:{bool(val)}')
            ctx.case(['op-pred', name, repr(a), repr(b)], True)
            if val and not ok:
                ctx.report_witness(f'predicate:{name}:operations', f'{name} holds for two operations whose matrices differ (qubit order matters)',
                                   {'lines': [{'a': repr(a), 'b': repr(b)}], 'impl_out': ['True'], 'spec_out': ['matrices differ'], 'theorem_or_correspondence': 'equality_sound'})
    # has_stabilizer_effect of values that answer through their matrix: the non-Clifford part may sit on any qubit
    T, Rx, H, S, I2 = cirq.unitary(cirq.T), cirq.unitary(cirq.rx(0.3)), cirq.unitary(cirq.H), cirq.unitary(cirq.S), np.eye(2)
    kron = lambda *ms: functools.reduce(np.kron, ms)
    a0, a1, a2 = qs
    vals = [
        cirq.MatrixGate(kron(I2, T)), cirq.MatrixGate(kron(T, I2)), cirq.MatrixGate(kron(Rx, I2)), cirq.MatrixGate(kron(I2, Rx)), cirq.MatrixGate(kron(H, S)), cirq.MatrixGate(kron(S, H)),
        cirq.MatrixGate(kron(I2, I2, T)), cirq.MatrixGate(kron(I2, T, I2)), cirq.MatrixGate(kron(T, I2, I2)), cirq.MatrixGate(kron(H, S, H)), cirq.MatrixGate(kron(I2, Rx, I2)),
        cirq.TwoQubitDiagonalGate([0, np.pi / 4, 0, np.pi / 4]), cirq.TwoQubitDiagonalGate([0, 0, np.pi / 4, np.pi / 4]), cirq.TwoQubitDiagonalGate([0, np.pi / 2, 0, np.pi / 2]),
        cirq.ThreeQubitDiagonalGate([0, 0, np.pi / 4, np.pi / 4] * 2), cirq.ThreeQubitDiagonalGate([0, np.pi / 4] * 4), cirq.ThreeQubitDiagonalGate([0] * 4 + [np.pi / 4] * 4),
        cirq.PhasedFSimGate(0, zeta=-np.pi / 8, gamma=-np.pi / 8), cirq.PhasedFSimGate(0, zeta=np.pi / 8, gamma=-np.pi / 8), cirq.PhasedFSimGate(np.pi / 2, 0, 0, 0, 0),
        cirq.Circuit(cirq.H(a0), cirq.T(a1)), cirq.Circuit(cirq.T(a0), cirq.H(a1)), cirq.Circuit(cirq.H(a0), cirq.S(a1)), cirq.Circuit(cirq.H(a0), cirq.CNOT(a0, a1), cirq.T(a2)),
        cirq.Circuit(cirq.H(a0), cirq.CNOT(a0, a1), cirq.S(a2)), cirq.FrozenCircuit(cirq.rx(0.3)(a1), cirq.H(a0)), cirq.CircuitOperation(cirq.FrozenCircuit(cirq.H(a0), cirq.T(a1))),
        cirq.DiagonalGate([0, np.pi / 4, 0, np.pi / 4]), cirq.DiagonalGate([0, np.pi / 2, np.pi, 3 * np.pi / 2]),
    ]
    paulis = [np.eye(2), cirq.unitary(cirq.X), cirq.unitary(cirq.Y), cirq.unitary(cirq.Z)]
    for v in vals:
        claim = cirq.has_stabilizer_effect(v)
        ctx.count('check', f'has_stabilizer_effect:pool:{bool(claim)}')
        ctx.case(['stab-pool', repr(v)[:200]], True)
        if not claim:
            continue
        u = cirq.unitary(v)
        k = int(round(math.log2(u.shape[0])))
        okc = True
        for pos in range(k):
            for pm in (paulis[1], paulis[3]):
                okc = okc and is_pauli_string_like(u @ kron(*[pm if j == pos else I2 for j in range(k)]) @ u.conj().T, paulis)
        if not okc:
            ctx.report_witness('predicate:has_stabilizer_effect:matrix', 'has_stabilizer_effect is True but the matrix does not map Paulis to Paulis',
                               {'lines': [{'value': repr(v)[:600]}], 'impl_out': ['True'], 'spec_out': ['not Clifford'], 'theorem_or_correspondence': 'stabilizer_effect_sound'})
    # commutes on Clifford gate objects
    C = cirq.SingleQubitCliffordGate
    cl = [C.I, C.X, C.Y, C.Z, C.H, C.X_sqrt, C.Y_sqrt, C.Z_sqrt, C.X_nsqrt, C.Z_nsqrt]
    for ga, gb in itertools.combinations(cl, 2):
        c = cirq.commutes(ga, gb, default=None)
        ctx.count('check', f'commutes:clifford:{c}')
        ctx.case(['commutes-clifford', repr(ga)[:80], repr(gb)[:80]], True)
        if c is True and not np.allclose(cirq.unitary(ga) @ cirq.unitary(gb), cirq.unitary(gb) @ cirq.unitary(ga), atol=1e-8):
            ctx.report_witness('predicate:commutes:clifford-gates', 'cirq.commutes on two SingleQubitCliffordGate objects is True but the matrices do not commute (they commute up to a sign)',
                               {'lines': [{'a': repr(ga), 'b': repr(gb)}], 'impl_out': ['True'], 'spec_out': ['matrices anticommute'], 'theorem_or_correspondence': 'commutes_sound'})


def is_pauli_string_like(m, paulis):
    """m is +-1 / +-i times a tensor product of Pauli matrices"""
    k = int(round(math.log2(m.shape[0])))
    for combo in itertools.product(range(4), repeat=k):
        p = functools.reduce(np.kron, [paulis[c] for c in combo])
        tr = np.trace(p.conj().T @ m) / m.shape[0]
        if abs(abs(tr) - 1) < 1e-6:
            return np.allclose(m, tr * p, atol=1e-6) and min(abs(tr - z) for z in (1, -1, 1j, -1j)) < 1e-6
    return False


def check_equality_pool(ctx, cirq):
    """equality never identifies gates of different shape or different matrix: all pairs of a pool of gates whose
    constructors take a size, a shape or a dimension"""
    d = cirq.Duration(nanos=4)
    pool = [
        cirq.WaitGate(d), cirq.WaitGate(d, num_qubits=2), cirq.WaitGate(d, qid_shape=(3,)), cirq.WaitGate(d, qid_shape=(2, 3)), cirq.WaitGate(d, qid_shape=[2, 2]), cirq.WaitGate(cirq.Duration(nanos=5)),
        cirq.IdentityGate(1), cirq.IdentityGate(2), cirq.IdentityGate(qid_shape=(3,)), cirq.IdentityGate(qid_shape=(2, 3)), cirq.I,
        cirq.X, cirq.XPowGate(dimension=3), cirq.XPowGate(dimension=4), cirq.Z, cirq.ZPowGate(dimension=3), cirq.X ** 2, cirq.XPowGate(dimension=3) ** 2, cirq.XPowGate(dimension=3) ** 3, cirq.XPowGate(dimension=3) ** 0,
        cirq.ZPowGate(dimension=3) ** 3, cirq.ZPowGate(dimension=3) ** 0, cirq.Z ** 0, cirq.Z ** 2,
        cirq.MatrixGate(np.eye(2)), cirq.MatrixGate(np.eye(4)), cirq.MatrixGate(np.eye(4), qid_shape=(4,)), cirq.MatrixGate(np.eye(3), qid_shape=(3,)), cirq.MatrixGate(np.eye(6), qid_shape=(2, 3)), cirq.MatrixGate(np.eye(6), qid_shape=(3, 2)),
        cirq.QubitPermutationGate([0]), cirq.QubitPermutationGate([0, 1]), cirq.QubitPermutationGate([1, 0]), cirq.QubitPermutationGate([0, 1, 2]), cirq.SWAP,
        cirq.DiagonalGate([0.0, 0.0]), cirq.DiagonalGate([0.0] * 4), cirq.TwoQubitDiagonalGate([0.0] * 4), cirq.ThreeQubitDiagonalGate([0.0] * 8), cirq.DiagonalGate([0.0] * 8),
        cirq.GlobalPhaseGate(1), cirq.GlobalPhaseGate(-1), cirq.GlobalPhaseGate(1j),
        cirq.ControlledGate(cirq.Z), cirq.ControlledGate(cirq.Z, num_controls=2), cirq.ControlledGate(cirq.Z, control_qid_shape=(3,)), cirq.ControlledGate(cirq.Z, control_values=[0]), cirq.CZ, cirq.CCZ,
        cirq.ControlledGate(cirq.Z, control_values=[2], control_qid_shape=(3,)), cirq.ControlledGate(cirq.Z, control_values=[(0, 1)]),
        cirq.PhaseGradientGate(num_qubits=1, exponent=1.0), cirq.PhaseGradientGate(num_qubits=2, exponent=1.0), cirq.PhaseGradientGate(num_qubits=2, exponent=0.5),
        cirq.QuantumFourierTransformGate(1), cirq.QuantumFourierTransformGate(2), cirq.QuantumFourierTransformGate(2, without_reverse=True), cirq.H,
        cirq.ParallelGate(cirq.X, 1), cirq.ParallelGate(cirq.X, 2), cirq.ParallelGate(cirq.X, 3),
        cirq.BooleanHamiltonianGate(['a'], ['a'], 0.5), cirq.BooleanHamiltonianGate(['a', 'b'], ['a'], 0.5), cirq.BooleanHamiltonianGate(['a', 'b'], ['b'], 0.5),
        cirq.PauliStringPhasorGate(cirq.DensePauliString('X'), exponent_neg=0.5), cirq.PauliStringPhasorGate(cirq.DensePauliString('XI'), exponent_neg=0.5), cirq.PauliStringPhasorGate(cirq.DensePauliString('IX'), exponent_neg=0.5),
        cirq.DensePauliString('X'), cirq.DensePauliString('XI'), cirq.DensePauliString('IX'), cirq.DensePauliString('X', coefficient=-1),
        cirq.PhasedXZGate(x_exponent=0, z_exponent=0, axis_phase_exponent=0), cirq.PhasedXZGate(x_exponent=0, z_exponent=0, axis_phase_exponent=0.3), cirq.PhasedXPowGate(phase_exponent=0.3, exponent=0), cirq.PhasedXPowGate(phase_exponent=0.1, exponent=0),
        cirq.FSimGate(0, 0), cirq.PhasedFSimGate(0, 0, 0, 0, 0), cirq.FSimGate(2 * np.pi, 0), cirq.PhasedFSimGate(0, 0.1, 0.2, 0.3, 0), cirq.PhasedFSimGate(0, 0.1, 0.2, 0.4, 0),
    ]
    for ga, gb in itertools.combinations(pool, 2):
        try:
            same = bool(ga == gb)
        except Exception:
            continue
        ctx.count('check', f'pool-eq:{same}')
        ctx.case(['pool-eq', repr(ga), repr(gb)], True)
        if not same:
            continue
        ok = cirq.qid_shape(ga) == cirq.qid_shape(gb)
        if ok and cirq.has_unitary(ga):
            ok = np.allclose(cirq.unitary(ga), cirq.unitary(gb), atol=1e-7)
        try:
            hashes = hash(ga) == hash(gb)
        except TypeError:
            hashes = True
        if not ok or not hashes:
            ctx.report_witness('predicate:eq:shape', 'two gates compare equal but act on different shapes / have different matrices / hash differently',
                               {'lines': [{'a': repr(ga), 'b': repr(gb)}], 'impl_out': ['a == b', str(cirq.qid_shape(ga)), str(cirq.qid_shape(gb))], 'spec_out': ['different gates'], 'theorem_or_correspondence': 'equality_sound'})


def check_commutes_tolerance(ctx, cirq):
    """cirq.commutes(a, b, atol=...) answers for the tolerance it is given, the same for gates and for operations: True when every entry of
    ab - ba is far below atol, False when some entry is far above it"""
    rng = ctx.substream('commutes-tol')
    q = cirq.LineQubit.range(2)
    for it in range(40 if ctx.tier == 'quick' else 400):
        eps = 10 ** rng.uniform(-7, -1)
        atol = 10 ** rng.uniform(-9, -1)
        A, B = rng.choice([(cirq.X, cirq.Z), (cirq.Y, cirq.X), (cirq.H, cirq.Z), (cirq.CNOT, cirq.CZ), (cirq.ISWAP, cirq.CZ)])
        g1, g2 = A, B ** eps
        k = cirq.num_qubits(g1)
        u1, u2 = cirq.unitary(g1), cirq.unitary(g2)
        dev = float(np.abs(u1 @ u2 - u2 @ u1).max())
        if 0.2 * atol < dev < 5 * atol:
            continue  # too close to the threshold to demand an answer
        want = dev <= atol
        for form, x, y in (('gates', g1, g2), ('operations', g1.on(*q[:k]), g2.on(*q[:k])), ('matrices', u1, u2)):
            got = cirq.commutes(x, y, atol=atol, default=None)
            ctx.count('check', f'commutes-tol:{form}')
            ctx.case(['commutes-tol', form, repr(g1), eps, atol], True)
            if got is not None and bool(got) != want:
                ctx.report_witness(f'predicate:commutes:tolerance:{form}', f'cirq.commutes on {form} answers {got} although the largest entry of ab - ba is {dev:.3g} and atol is {atol:.3g}',
                                   {'lines': [{'a': repr(x), 'b': repr(y), 'atol': atol}], 'impl_out': [bool(got)], 'spec_out': [want], 'theorem_or_correspondence': 'commutes_sound'})


def check_commutes_pauli_copies(ctx, cirq):
    """commutation of two Pauli gate objects does not depend on which Python objects they are: X**1, a deep copy and a JSON round trip
    of a Pauli commute with it (and anticommuting pairs still do not commute)"""
    import copy

    q = cirq.LineQubit(0)
    paulis = [cirq.X, cirq.Y, cirq.Z]
    for i, P in enumerate(paulis):
        twins = [('P**1', P ** 1), ('deepcopy', copy.deepcopy(P)), ('json', cirq.read_json(json_text=cirq.to_json(P))), ('by_index', cirq.Pauli.by_index(i))]
        for j, O in enumerate(paulis):
            for tname, T in ([(f'{n} of other', t) for n, t in (('P**1', O ** 1), ('deepcopy', copy.deepcopy(O)))] if i != j else twins):
                u1, u2 = cirq.unitary(P), cirq.unitary(T)
                want = bool(np.allclose(u1 @ u2, u2 @ u1))
                for form, x, y in (('gates', P, T), ('gates-swapped', T, P), ('operations', P(q), T(q))):
                    got = cirq.commutes(x, y, default=None)
                    ctx.count('check', f'commutes-pauli-copy:{form}')
                    ctx.case(['commutes-pauli-copy', form, repr(P), tname], want)
                    if got is not None and bool(got) != want:
                        ctx.report_witness(f'predicate:commutes:pauli-copy:{form}', f'cirq.commutes({x!r}, {tname}) answers {got} although the matrices ' + ('commute' if want else 'do not commute'),
                                           {'lines': [{'a': repr(x), 'b': repr(y), 'twin': tname}], 'impl_out': [bool(got)], 'spec_out': [want], 'theorem_or_correspondence': 'commutes_sound'})


def check_interchangeable_qubits(ctx, cirq):
    """an operation equals the same gate on permuted qubits (==, approx_eq, equal_up_to_global_phase) only when the matrices agree:
    gates that declare some of their qubits interchangeable, at the parameter values where the symmetry appears and disappears"""
    rng = ctx.substream('interchangeable')
    pi = np.pi
    gates = []
    special = [0, pi / 2, -pi / 2, pi, -pi, 0.3, 1.1]
    phases = [0, pi, 0.4, -1.2, 2 * pi, pi / 2]
    for th in special:
        for ze in phases:
            for ch in phases:
                gates.append(cirq.PhasedFSimGate(theta=th, zeta=ze, chi=ch, gamma=rng.choice([0, 0.3]), phi=rng.choice([0, 0.7])))
    gates += [cirq.FSimGate(0.3, 0.2), cirq.CZ, cirq.CZ**0.3, cirq.SWAP**0.4, cirq.ISWAP**0.6, cirq.XX**0.3, cirq.YY**0.2, cirq.ZZ**0.7, cirq.CNOT, cirq.CCX**0.5, cirq.CCZ**0.3, cirq.CSWAP,
              cirq.PhasedISwapPowGate(phase_exponent=0.2, exponent=0.3), cirq.PhasedISwapPowGate(phase_exponent=0.5, exponent=0.3), cirq.PhasedISwapPowGate(phase_exponent=0, exponent=0.3),
              cirq.TwoQubitDiagonalGate([0.1, 0.2, 0.2, 0.5]), cirq.TwoQubitDiagonalGate([0.1, 0.2, 0.3, 0.5]), cirq.ThreeQubitDiagonalGate([0.1, 0.2, 0.2, 0.5, 0.2, 0.5, 0.5, 0.9]),
              cirq.ControlledGate(cirq.CZ**0.3), cirq.ControlledGate(cirq.SWAP**0.3), cirq.QubitPermutationGate([1, 0, 2]), cirq.MatrixGate(cirq.unitary(cirq.CZ))]
    if ctx.tier == 'quick':
        gates = gates[ctx.seed % 2::2] + gates[-22:]
    for g in gates:
        k = cirq.num_qubits(g)
        qs = cirq.LineQubit.range(k)
        base = g.on(*qs)
        u0 = cirq.Circuit(base).unitary(qubit_order=qs)
        for perm in itertools.permutations(qs):
            if list(perm) == list(qs):
                continue
            other = g.on(*perm)
            u1 = cirq.Circuit(other).unitary(qubit_order=qs)
            same = np.allclose(u0, u1, atol=1e-6)
            ctx.case(['interchangeable', repr(g), [q.x for q in perm]], same)
            for name, val, ok in (('eq', base == other, same), ('hash', base == other and hash(base) == hash(other), same),
                                  ('approx_eq', cirq.approx_eq(base, other, atol=1e-9), same),
                                  ('equal_up_to_global_phase', cirq.equal_up_to_global_phase(base, other, atol=1e-9), phase_equal(u0, u1, atol=1e-5))):
                ctx.count('check', f'interchangeable:{name}:{bool(val)}')
                if val and not ok:
                    ctx.report_witness(f'predicate:{name}:permuted-qubits', f'{name} holds between an operation and the same gate on permuted qubits although the matrices differ',
                                       {'lines': [{'gate': repr(g), 'qubits': [q.x for q in perm]}], 'impl_out': ['True'], 'spec_out': ['matrices differ'], 'theorem_or_correspondence': 'equality_sound'})


def check_predicates_pure(ctx, cirq):
    """asking a question about a gate does not change the gate: after equality, hashing, approximate / up-to-phase equality, commutation,
    powers and inverses have been computed from it, its matrix and its description are what they were"""
    rng = ctx.substream('purity')
    fams = [cirq.XPowGate, cirq.YPowGate, cirq.ZPowGate, cirq.HPowGate, cirq.CZPowGate, cirq.CXPowGate, cirq.SwapPowGate, cirq.ISwapPowGate, cirq.XXPowGate, cirq.YYPowGate, cirq.ZZPowGate,
            cirq.CCZPowGate, cirq.CCXPowGate]
    n = 60 if ctx.tier == 'quick' else 600
    for it in range(n):
        F = rng.choice(fams)
        e = rng.choice([0.5, 1, 0.25, -0.5, 2, round(rng.uniform(-2, 2), 3)])
        sh = rng.choice([0, 0.25, -0.5, 0.5, round(rng.uniform(-1, 1), 3)])
        g = F(exponent=e, global_shift=sh)
        twin = F(exponent=e, global_shift=sh)
        others = [F(exponent=e), F(exponent=e, global_shift=sh + 1), F(exponent=e + 2, global_shift=sh), cirq.S, cirq.CZ, cirq.X, F(exponent=1)]
        u0, r0 = cirq.unitary(g).copy(), repr(g)
        if rng.random() < 0.5:
            hash(g)
        calls = [
            ('equal_up_to_global_phase', lambda o: cirq.equal_up_to_global_phase(g, o)), ('equal_up_to_global_phase(rev)', lambda o: cirq.equal_up_to_global_phase(o, g)),
            ('approx_eq', lambda o: cirq.approx_eq(g, o)), ('==', lambda o: g == o), ('commutes', lambda o: cirq.commutes(g, o, default=None)),
            ('pow', lambda o: cirq.pow(g, 0.5, None)), ('inverse', lambda o: cirq.inverse(g, None)), ('has_stabilizer_effect', lambda o: cirq.has_stabilizer_effect(g)),
            ('trace_distance_bound', lambda o: cirq.trace_distance_bound(g)), ('phase_by', lambda o: cirq.phase_by(g, 0.25, 0, default=None)),
        ]
        rng.shuffle(calls)
        for cname, f in calls:
            for o in [twin] + others:
                try:
                    f(o)
                except (TypeError, ValueError):
                    pass
            ctx.count('check', 'pure:' + cname)
            ctx.case(['pure', cname, r0], True)
            u1 = cirq.unitary(g)
            if repr(g) != r0 or u1.shape != u0.shape or not np.allclose(u1, u0, atol=1e-12) or g != twin or hash(g) != hash(twin):
                ctx.report_witness(f'predicate:impure:{cname.split("(")[0]}', f'calling {cname} on a gate changes the gate (its matrix, its description or what it is equal to)',
                                   {'lines': [{'gate': r0, 'call': cname}], 'impl_out': [repr(g), repr(np.round(u1, 6).tolist())[:400]], 'spec_out': [r0, repr(np.round(u0, 6).tolist())[:400]],
                                    'theorem_or_correspondence': 'predicates are functions of the gate'})
                break


def check_control_value_equality(ctx, cirq):
    """controlled operations / gates over every way of writing control values (products of per-qubit sets, sums of joint assignments): two
    of them compare (and hash) equal only when they are controlled on the same set of assignments, i.e. have the same matrix"""
    a, b, t = cirq.LineQubit.range(3)
    sets2 = [(0,), (1,), (0, 1)]
    specs = [('pos', cirq.ProductOfSums([x, y])) for x in sets2 for y in sets2]
    joint = [(0, 0), (0, 1), (1, 0), (1, 1)]
    for r in range(1, 5):
        for terms in itertools.combinations(joint, r):
            specs.append(('sop', cirq.SumOfProducts(list(terms))))
    vals = []
    for kind, cvs in specs:
        op = cirq.X(t).controlled_by(a, b, control_values=cvs)
        vals.append((f'{kind}:{cvs!r}', op, cirq.unitary(op)))
        g = cirq.ControlledGate(cirq.X, control_values=cvs)
        vals.append((f'gate:{kind}:{cvs!r}', g, cirq.unitary(g)))
    # one qutrit control and one qubit control
    q3 = cirq.LineQid(5, 3)
    sets3 = [(0,), (1,), (2,), (0, 1), (0, 2), (1, 2), (0, 1, 2)]
    for x in sets3:
        for y in sets2:
            op = cirq.X(t).controlled_by(q3, a, control_values=cirq.ProductOfSums([x, y]))
            vals.append((f'pos3:{x}{y}', op, cirq.unitary(op)))
    for terms in ([(0, 0), (1, 1)], [(0, 0), (2, 1)], [(0, 0), (0, 1), (1, 0), (1, 1)], [(1, 0), (2, 1)], [(0, 1), (1, 1), (2, 1)], [(2, 0), (2, 1)]):
        op = cirq.X(t).controlled_by(q3, a, control_values=cirq.SumOfProducts(terms))
        vals.append((f'sop3:{terms}', op, cirq.unitary(op)))
    for (na, va, ua), (nb, vb, ub) in itertools.combinations(vals, 2):
        if type(va) is not type(vb):
            continue
        try:
            same = bool(va == vb)
        except Exception:
            continue
        ctx.count('check', f'cv-eq:{same}')
        ctx.case(['cv-eq', na, nb], True)
        same_matrix = ua.shape == ub.shape and np.allclose(ua, ub, atol=1e-9)
        if same and (not same_matrix or hash(va) != hash(vb)):
            ctx.report_witness('predicate:eq:control-values', 'two controlled operations compare equal but are controlled on different assignments (different matrices) or hash differently',
                               {'lines': [{'a': repr(va), 'b': repr(vb)}], 'impl_out': ['a == b'], 'spec_out': ['different matrices' if not same_matrix else 'equal hashes'], 'theorem_or_correspondence': 'equality_sound / C08_cv_expand'})


def replay(ctx, rep):
    print(json.dumps(rep, indent=1)[:3000])
    return 1
