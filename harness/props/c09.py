"""C09 — Noisy and mixed-state simulation implements the channel semantics.

Lean: Spec.Circuit.run with Kraus branches gives Σ_b |ψ_b⟩⟨ψ_b| = the channel semantics; Props.C09 proves the
trajectory selection loop picks branch k exactly on the k-th cumulative-weight interval and that the
Choi/superoperator reshuffle is an involution.  Tie (T2): DensityMatrixSimulator final states of circuits
mixing unitaries with every library channel and resets against the Lean density matrix; conversions between
Kraus / mixture / superoperator / Choi; state-vector trajectories enumerated branch by branch through the
scripted PRNG (weights and states) and recombined; simulation with a noise model against simulating the
circuit the noise model produces.
"""
from __future__ import annotations

import json
import math

import numpy as np

from harness import common, gen
from harness.props.c02 import dist_close, lean_dist, lean_ops, records_key
from harness.scripted import enumerate_branches

MODULES = ['CirqVerif.Props.C09', 'CirqVerif.Props.C09b', 'CirqVerif.Props.C09c', 'NonVacuity.ComplexModel']


def rand_channel(cirq, rng):
    p = lambda: rng.choice([0.0, 1.0, 0.5, 0.1, round(rng.random(), 3)])
    k = rng.randrange(15)
    if k == 12:
        # independent copies of a mixture side by side: every combination of branches occurs
        return cirq.ParallelGate(rng.choice([cirq.bit_flip(p()), cirq.phase_flip(p()), cirq.depolarize(0.3), cirq.X.with_probability(p())]), 2), 2
    if k == 13:
        # a (mixture of) gate(s) under controls with other control values than all-ones
        sub = rng.choice([cirq.bit_flip(p()), cirq.X, cirq.depolarize(0.2), cirq.Y ** 0.5, cirq.X.with_probability(0.4)])
        return cirq.ControlledGate(sub, control_values=[0]), 2
    if k == 14:
        sub = rng.choice([cirq.bit_flip(p()), cirq.Z ** 0.5, cirq.phase_flip(0.3)])
        cv = rng.choice([[0, 1], [1, 0], [0, 0], cirq.SumOfProducts([(0, 1), (1, 0)])])
        return cirq.ControlledGate(sub, num_controls=2, control_values=cv), 3
    if k == 0:
        return cirq.bit_flip(p()), 1
    if k == 1:
        return cirq.phase_flip(p()), 1
    if k == 2:
        return cirq.amplitude_damp(p()), 1
    if k == 3:
        return cirq.phase_damp(p()), 1
    if k == 4:
        return cirq.depolarize(rng.choice([0.0, 0.1, 0.75, round(rng.random() * 0.75, 3)])), 1
    if k == 5:
        return cirq.generalized_amplitude_damp(p(), p()), 1
    if k == 6:
        a, b, c = sorted(rng.random() for _ in range(3))
        return cirq.asymmetric_depolarize(a / 3, (b - a) / 3, (c - b) / 3), 1
    if k == 7:
        return cirq.ResetChannel(), 1
    if k == 8:
        return cirq.depolarize(round(rng.random() * 0.5, 3), n_qubits=2), 2
    if k == 9:
        us = [gen.rand_unitary(rng, 2) for _ in range(rng.choice([2, 3]))]
        ws = np.array([rng.random() + 0.1 for _ in us])
        ws = ws / ws.sum()
        return cirq.MixedUnitaryChannel(list(zip(ws.tolist(), us))), 1
    if k == 10:
        # a random Kraus channel from an isometry
        a = gen.rand_unitary(rng, 4)[:, :2]
        ks = [a[:2, :], a[2:, :]]
        return cirq.KrausChannel(ks), 1
    return cirq.RandomGateChannel(sub_gate=rng.choice([cirq.X, cirq.Z, cirq.H, cirq.Y**0.5]), probability=p()), 1


def gen_noisy_circuit(cirq, rng, max_channels=3):
    n = rng.randint(1, 3)
    qs = cirq.LineQubit.range(n)
    moments = []
    nch = 0
    for _ in range(rng.randint(1, 6)):
        if rng.random() < 0.45 and nch < max_channels:
            ch, k = rand_channel(cirq, rng)
            if k <= n:
                moments.append(cirq.Moment(ch.on(*rng.sample(qs, k))))
                nch += 1
                continue
        k = min(rng.choice([1, 1, 2]), n)
        g = {1: gen.one_qubit_gate, 2: gen.two_qubit_gate}[k](cirq, rng)
        moments.append(cirq.Moment(g.on(*rng.sample(qs, k))))
    return cirq.Circuit(moments), qs


def rho_of(out):
    return np.array([[common.j2c(z) for z in row] for row in out['rho']])


def run(ctx: common.Run):
    import cirq

    ctx.rule = (
        'random circuits on 1..3 qubits with 1..6 moments mixing library gates with bit/phase flip, amplitude/phase damping, generalized '
        'amplitude damping, (asymmetric / two-qubit) depolarizing, reset, MixedUnitaryChannel, KrausChannel, RandomGateChannel at special and '
        'random parameters; every trajectory branch enumerated; noise models: ConstantQubitNoiseModel, per-op insertion, NoiseModel.from_noise_model_like; '
        'non-trivial = at least one channel with two branches of non-zero weight; distinct by circuit repr'
    )
    ctx.trusted += [
        'harness/props/c09.py + harness/scripted.py + lean/Driver/C02.lean (T2 on generated circuits only; tolerance 1e-6)',
        'Kraus operators of each channel are cirq.kraus(op) (C03 ties the library channels to the documentation)',
        'a uniform draw p selects branch k with probability w_k: C09_select_iff (the symbolic draw answers the comparisons of the loop)',
    ]
    ok, failing = ctx.lean(MODULES)
    if not ok:
        ctx.report_unproved('lean-build', f'{failing}', {'theorem_or_correspondence': failing})
        return
    n = 60 if ctx.tier == 'quick' else 800
    rng = ctx.substream('circuits')
    cases = [gen_noisy_circuit(cirq, rng) for _ in range(n)]
    rng2 = ctx.substream('initial-states')
    reqs = []
    for circuit, qs in cases:
        dims = [2] * len(qs)
        init = [0j] * (2 ** len(qs))
        init[0] = 1
        reqs.append({'p': 'C02', 'op': 'dist', 'shape': dims, 'init': [common.c2j(z) for z in init], 'ops': lean_ops(cirq, circuit, qs), 'rho': True})
    outs = ctx.driver.ask(reqs)
    dm_reqs = []
    for (circuit, qs), r in zip(cases, reqs):
        init = np.zeros(2 ** len(qs), dtype=complex)
        init[0] = 1
        dm_reqs.append({'p': 'C02', 'op': 'dm', 'shape': r['shape'], 'rho': [common.c2j(z) for z in np.outer(init, init).reshape(-1)], 'ops': r['ops']})
    dm_outs = ctx.driver.ask(dm_reqs)
    for (circuit, qs), out, dmo in zip(cases, outs, dm_outs):
        want = rho_of(out)
        if not np.allclose(want, rho_of(dmo), atol=1e-9):
            raise common.InfraError('Lean branch-sum and density-matrix evolutions disagree on ' + repr(circuit))
        nb = len(out['branches'])
        ctx.case(repr(circuit), nb >= 2, sample={'circuit': str(circuit), 'kraus_branches': nb} if nb >= 3 and len(ctx.samples) < 3 else None)
        # 1. density matrix simulator
        for split in (False, True):
            got = cirq.DensityMatrixSimulator(dtype=np.complex128, split_untangled_states=split).simulate(circuit, qubit_order=qs).final_density_matrix
            ctx.count('check', 'density-matrix')
            ok_valid = np.allclose(got, got.conj().T, atol=1e-7) and abs(np.trace(got) - 1) < 1e-6 and np.min(np.linalg.eigvalsh((got + got.conj().T) / 2)) > -1e-7
            if not np.allclose(got, want, atol=1e-6) or not ok_valid:
                ctx.report_witness('dm:final', 'DensityMatrixSimulator final state differs from applying each channel (sum over Kraus operators) in order / is not a valid density matrix',
                                   {'lines': [{'circuit': repr(circuit), 'split': split}], 'impl_out': [repr(np.round(got, 6).tolist())], 'spec_out': [repr(np.round(want, 6).tolist())],
                                    'theorem_or_correspondence': 'Spec.Circuit.run (Σ K ρ K†)'})
        # 1b. a density matrix given by the caller as initial state: evolved correctly, left untouched, reusable
        if True:
            dim = 2 ** len(qs)
            a_ = np.array([[complex(rng2.gauss(0, 1), rng2.gauss(0, 1)) for _ in range(dim)] for _ in range(dim)])
            rho0 = a_ @ a_.conj().T
            rho0 = (rho0 / np.trace(rho0)).astype(np.complex128)
            form = rng2.choice(['matrix', 'tensor'])
            arg = rho0.copy() if form == 'matrix' else rho0.copy().reshape((2,) * (2 * len(qs)))
            keep = arg.copy()
            want0 = rho_of(ctx.driver.ask([{'p': 'C02', 'op': 'dm', 'shape': [2] * len(qs), 'rho': [common.c2j(z) for z in rho0.reshape(-1)], 'ops': lean_ops(cirq, circuit, qs)}])[0])
            sim_ = cirq.DensityMatrixSimulator(dtype=np.complex128, split_untangled_states=rng2.random() < 0.5)
            got1 = sim_.simulate(circuit, qubit_order=qs, initial_state=arg).final_density_matrix
            unchanged = np.array_equal(arg, keep)
            got2 = sim_.simulate(circuit, qubit_order=qs, initial_state=arg).final_density_matrix if unchanged else got1
            ctx.count('check', 'density-matrix:initial-' + form)
            if not np.allclose(got1, want0, atol=1e-6) or not unchanged or not np.allclose(got2, want0, atol=1e-6):
                ctx.report_witness('dm:initial-state', 'DensityMatrixSimulator started from a density matrix given as an array: wrong final state, or the caller\'s array was modified',
                                   {'lines': [{'circuit': repr(circuit), 'form': form}], 'impl_out': [repr(np.round(got1, 6).tolist()), 'caller array unchanged: %s' % unchanged], 'spec_out': [repr(np.round(want0, 6).tolist())],
                                    'theorem_or_correspondence': 'Spec.Circuit.run (Σ K ρ K†) from ρ0'})
        # 2. trajectories: exact unravelling
        def once(prng):
            r = cirq.Simulator(seed=prng, dtype=np.complex128).simulate(circuit, qubit_order=qs)
            return tuple(np.round(r.final_state_vector, 9).tolist())
        try:
            d = enumerate_branches(once, max_branches=400 if ctx.tier == 'quick' else 3000)
        except RuntimeError:
            ctx.count('check', 'trajectory:too-many')
            d = None
        if d is not None:
            ctx.count('check', 'trajectory')
            ctx.count('branches', str(min(len(d), 9)))
            tot = sum(d.values())
            rho = sum(p * np.outer(np.array(v), np.conj(np.array(v))) for v, p in d.items())
            if abs(tot - 1) > 1e-6 or not np.allclose(rho, want, atol=1e-5):
                ctx.report_witness('trajectory:unravel', 'state-vector trajectories are not an exact unravelling (branch probability x branch state does not sum to the channel output)',
                                   {'lines': [{'circuit': repr(circuit)}], 'impl_out': [repr(np.round(rho, 6).tolist()), tot], 'spec_out': [repr(np.round(want, 6).tolist()), 1.0],
                                    'theorem_or_correspondence': 'trajectory_unravel / C09_select_iff'})
    check_conversions(ctx, cirq, n)
    check_moment_channels(ctx, cirq, n)
    check_noise_models(ctx, cirq, max(10, n // 3))
    check_noisy_runs(ctx, cirq, max(12, n // 3))
    check_virtual_moments(ctx, cirq, max(15, n // 3))
    check_insertion_model(ctx, cirq, 60 if ctx.tier == 'quick' else 1500)
    check_noise_properties_measurements(ctx, cirq, 20 if ctx.tier == 'quick' else 300)
    check_circuit_superoperator(ctx, cirq, 25 if ctx.tier == 'quick' else 400)
    check_thermal(ctx, cirq, max(10, n // 3))
    check_measured_noisy_circuits(ctx, cirq, 25 if ctx.tier == 'quick' else 300)
    check_apply_channel_only(ctx, cirq)
    check_entanglement_fidelity(ctx, cirq)


def check_conversions(ctx, cirq, n):
    rng = ctx.substream('conversions')
    for _ in range(n):
        ch, k = rand_channel(cirq, rng)
        ks = [np.asarray(x) for x in cirq.kraus(ch)]
        d = ks[0].shape[0]
        sup = cirq.kraus_to_superoperator(ks)
        choi = cirq.kraus_to_choi(ks)
        ctx.count('check', 'conversions')
        ctx.case(['conv', repr(ch)], True)
        # independent definitions
        sup_ref = sum(np.kron(a, a.conj()) for a in ks)
        choi_ref = sum(np.outer(a.reshape(-1), a.reshape(-1).conj()) for a in ks)
        problems = []
        if not np.allclose(sup, sup_ref, atol=1e-8):
            problems.append('kraus_to_superoperator')
        if not np.allclose(choi, choi_ref, atol=1e-8):
            problems.append('kraus_to_choi')
        if not np.allclose(cirq.choi_to_superoperator(choi), sup, atol=1e-8):
            problems.append('choi_to_superoperator')
        if not np.allclose(cirq.superoperator_to_choi(sup), choi, atol=1e-8):
            problems.append('superoperator_to_choi')
        for name, back in (('choi_to_kraus', cirq.choi_to_kraus(choi)), ('superoperator_to_kraus', cirq.superoperator_to_kraus(sup))):
            s2 = sum(np.kron(a, a.conj()) for a in back) if len(back) else np.zeros_like(sup)
            if not np.allclose(s2, sup, atol=1e-7):
                problems.append(name)
        if not np.allclose(sum(a.conj().T @ a for a in ks), np.eye(d), atol=1e-8):
            problems.append('trace-preserving')
        if cirq.has_mixture(ch):
            sm = sum(p * np.kron(u, u.conj()) for p, u in cirq.mixture(ch))
            if not np.allclose(sm, sup, atol=1e-8):
                problems.append('mixture-vs-kraus')
        op = ch.on(*cirq.LineQubit.range(k))
        if not np.allclose(cirq.operation_to_superoperator(op), sup, atol=1e-8) or not np.allclose(cirq.operation_to_choi(op), choi, atol=1e-8):
            problems.append('operation_to_*')
        m = cirq.Moment(op)
        if not np.allclose(cirq.kraus_to_superoperator(cirq.kraus(m)), sup, atol=1e-8):
            problems.append('moment-kraus')
        for prob in problems:
            ctx.report_witness(f'conversion:{prob}', f'{prob}: channel descriptions disagree', {'lines': [{'channel': repr(ch)}], 'impl_out': ['...'], 'spec_out': ['...'],
                               'theorem_or_correspondence': 'kraus_mixture_super_choi / C09_reshuffle_involution'})


def check_moment_channels(ctx, cirq, n):
    """the Kraus / superoperator description of a moment is the tensor product of those of its operations (qubits and qudits,
    qubits of the moment in sorted order)"""
    rng = ctx.substream('moments')
    for _ in range(n):
        dims = [rng.choice([2, 2, 3]) for _ in range(rng.randint(1, 3))]
        qids = [cirq.LineQid(i, d) if d != 2 else cirq.LineQubit(i) for i, d in enumerate(dims)]
        ops, factors = [], []
        for q in qids:
            if q.dimension == 2:
                ch = rng.choice([cirq.bit_flip(0.2), cirq.amplitude_damp(0.3), cirq.X ** 0.3, cirq.H, cirq.depolarize(0.1), cirq.ResetChannel()])
            else:
                ch = rng.choice([cirq.XPowGate(dimension=3), cirq.ZPowGate(dimension=3) ** 0.5, cirq.ResetChannel(dimension=3), cirq.XPowGate(dimension=3).with_probability(0.4)])
            if rng.random() < 0.25:
                continue
            ops.append(ch.on(q))
            factors.append((q, [np.asarray(k) for k in cirq.kraus(ch)]))
        if not ops:
            continue
        rng.shuffle(ops)
        m = cirq.Moment(ops)
        ctx.count('check', 'moment-channel')
        ctx.case(['moment', repr(m)], True)
        want = np.eye(1)
        for q, ks in sorted(factors, key=lambda t: t[0]):
            sup_q = sum(np.kron(a, a.conj()) for a in ks)
            d1, dq = int(round(math.sqrt(want.shape[0]))), ks[0].shape[0]
            # superoperator of a tensor product, in the (row, row', col, col') layout of kron(K, conj K)
            t = np.kron(want, sup_q).reshape(d1, d1, dq, dq, d1, d1, dq, dq).transpose(0, 2, 1, 3, 4, 6, 5, 7).reshape((d1 * dq) ** 2, (d1 * dq) ** 2)
            want = t
        try:
            got = sum(np.kron(a, a.conj()) for a in cirq.kraus(m))
            ok = got.shape == want.shape and np.allclose(got, want, atol=1e-8) and np.allclose(cirq.kraus_to_superoperator(cirq.kraus(m)), want, atol=1e-8)
            what = 'differs from the tensor product of the operations\' channels'
        except (ValueError, TypeError) as e:
            ok, what = False, f'raises {type(e).__name__}: {str(e)[:80]}'
        if not ok:
            ctx.report_witness('conversion:moment-kraus', 'the Kraus description of a moment ' + what, {'lines': [{'moment': repr(m)}], 'impl_out': [what], 'spec_out': ['tensor product'],
                               'theorem_or_correspondence': 'kraus_mixture_super_choi'})


def check_thermal(ctx, cirq, n):
    """the thermal noise model inserts, after each moment, the relaxation channel of the documented rates over the moment's
    duration (that of its longest operation): populations decay with the cooling rate, coherences with gc/2 + gd"""
    rng = ctx.substream('thermal')
    qs = cirq.LineQubit.range(3)
    for _ in range(n):
        gc = rng.choice([0.0, 1e-3, 5e-3])
        gd = rng.choice([0.0, 2e-3, 1e-2])
        if gc == 0 and gd == 0:
            gc = 2e-3
        durations = {cirq.ZPowGate: rng.choice([0.0, 10.0]), cirq.XPowGate: 25.0, cirq.CZPowGate: rng.choice([32.0, 60.0])}
        model = cirq.devices.ThermalNoiseModel(qubits=set(qs), gate_durations_ns=dict(durations), cool_rate_GHz=gc, dephase_rate_GHz=gd, require_physical_tag=False)
        cands = [(cirq.X(qs[0]), 25.0), (cirq.Z(qs[1]) ** 0.3, durations[cirq.ZPowGate]), (cirq.wait(qs[2], nanos=rng.choice([5, 100, 200])), None), (cirq.CZ(qs[0], qs[1]), durations[cirq.CZPowGate]),
                 (cirq.X(qs[2]) ** 0.5, 25.0), (cirq.wait(qs[1], nanos=rng.choice([1, 50, 400])), None)]
        rng.shuffle(cands)
        ops_, used = [], set()
        for op, dur in cands:
            if not (set(op.qubits) & used):
                ops_.append((op, dur if dur is not None else op.gate.duration.total_nanos()))
                used |= set(op.qubits)
        moment = cirq.Moment([o for o, _ in ops_])
        t = max(d for _, d in ops_)
        out = list(cirq.flatten_to_ops(model.noisy_moment(moment, qs)))
        noise = [o for o in out if o not in moment.operations]
        ctx.count('check', 'thermal-moment')
        ctx.case(['thermal', repr(moment), gc, gd], len(ops_) >= 2)
        rep = {'lines': [{'moment': repr(moment), 'cool_rate_GHz': gc, 'dephase_rate_GHz': gd, 'durations_ns': {k.__name__: v for k, v in durations.items()}}], 'theorem_or_correspondence': 'documented relaxation over the longest operation'}
        if t == 0:
            if noise:
                ctx.report_witness('thermal:channel', 'noise inserted after a zero-duration moment', dict(rep, impl_out=[repr(noise)[:300]], spec_out=['none']))
            continue
        if sorted(o.qubits[0] for o in noise) != sorted(qs):
            ctx.report_witness('thermal:channel', 'the thermal model does not put one relaxation channel on every system qubit', dict(rep, impl_out=[repr(noise)[:300]], spec_out=[repr(qs)]))
            continue
        e1, f = math.exp(-gc * t), math.exp(-(gc / 2 + gd) * t)
        # superoperator acting on vec(rho) = (rho00, rho01, rho10, rho11)
        want = np.array([[1, 0, 0, 1 - e1], [0, f, 0, 0], [0, 0, f, 0], [0, 0, 0, e1]], dtype=complex)
        for o in noise:
            got = cirq.kraus_to_superoperator(cirq.kraus(o))
            if not np.allclose(got, want, atol=1e-9):
                ctx.report_witness('thermal:channel', 'the inserted thermal channel is not the documented relaxation over the duration of the longest operation of the moment',
                                   dict(rep, impl_out=[repr(np.round(got, 8).tolist())], spec_out=[repr(np.round(want, 8).tolist()), {'duration_ns': t}]))
                break


def check_noise_models(ctx, cirq, n):
    rng = ctx.substream('noise')
    for it in range(n + 1):
        circuit, qs = gen.random_unitary_circuit(cirq, rng, max_wires=3, max_ops=5)
        ch, k = rand_channel(cirq, rng)
        kind = rng.choice(['constant', 'like', 'insertion'])
        if it == 0:
            # corpus: the recorded witness of the known finding noise:prefix-split always runs
            q1 = cirq.LineQubit(1)
            circuit, ch, k, kind = cirq.Circuit([cirq.Moment(), cirq.Moment((cirq.Y**-0.903).on(q1))]), cirq.bit_flip(0.1), 1, 'constant'
        if it == 1:
            # corpus: a qubit that is idle before the first parameterized operation still gets the noise of every moment
            qa, qb = cirq.LineQubit.range(2)
            circuit, ch, k, kind = cirq.Circuit([cirq.Moment(cirq.X(qa)), cirq.Moment(cirq.X(qa)), cirq.Moment(cirq.X(qb) ** 0.5)]), cirq.amplitude_damp(0.3), 1, 'constant'
        if len(circuit.all_qubits()) == 0:
            continue
        qs = sorted(circuit.all_qubits())
        if k != 1:
            continue
        if kind == 'constant':
            model = cirq.ConstantQubitNoiseModel(ch)
        elif kind == 'like':
            model = cirq.NoiseModel.from_noise_model_like(ch)
        else:
            from cirq.devices.insertion_noise_model import InsertionNoiseModel
            model = InsertionNoiseModel(ops_added={cirq.OpIdentifier(cirq.XPowGate): ch.on(qs[0]), cirq.OpIdentifier(cirq.CZPowGate, *qs[:2]) if len(qs) > 1 else cirq.OpIdentifier(cirq.ZPowGate): ch.on(qs[-1])})
        noisy = circuit.with_noise(model)
        # the program may be split before the noise model sees it (at the first parameterized operation): every part still
        # gets the noise of the whole register
        sym_circuit, resolver = circuit, None
        if it % 2 == 1:
            import sympy
            force = it == 1
            moms, done = [], False
            for mi, m in enumerate(circuit):
                new_ops = []
                for op in m.operations:
                    if not done and mi >= 1 and isinstance(op.gate, cirq.EigenGate) and not isinstance(op.gate.exponent, sympy.Basic) and (force or rng.random() < 0.5):
                        new_ops.append(op.gate._with_exponent(sympy.Symbol('t') * float(op.gate.exponent)).on(*op.qubits))
                        done = True
                    else:
                        new_ops.append(op)
                moms.append(cirq.Moment(new_ops))
            if force:
                moms, done = [cirq.Moment(cirq.X(qa)), cirq.Moment(cirq.X(qa)), cirq.Moment(cirq.X(qb) ** (sympy.Symbol('t') * 0.5))], True
            if done:
                sym_circuit, resolver = cirq.Circuit(moms), {'t': 1.0}
                ctx.count('check', 'noise-model:parameterized-split')
        got = cirq.DensityMatrixSimulator(noise=model, dtype=np.complex128).simulate(sym_circuit, param_resolver=resolver, qubit_order=qs).final_density_matrix
        dims = [2] * len(qs)
        init = [0j] * (2 ** len(qs))
        init[0] = 1
        # strip the virtual tags the model adds; the Lean interpreter only sees matrices / Kraus operators
        rho0 = np.outer(init, np.conj(init)).reshape(-1)
        out = ctx.driver.ask([{'p': 'C02', 'op': 'dm', 'shape': dims, 'rho': [common.c2j(z) for z in rho0], 'ops': lean_ops(cirq, noisy, qs)}])[0]
        want = rho_of(out)
        ctx.count('check', f'noise-model:{kind}')
        ctx.case(['noise', repr(circuit), repr(ch), kind], True)
        if not np.allclose(got, want, atol=1e-6):
            # known finding: simulate()/run() split the circuit into a prefix and a suffix *before* the noise model sees it, which
            # drops empty moments and re-packs moments; simulate_moment_steps does not split.  Identify exactly that cause.
            steps = list(cirq.DensityMatrixSimulator(noise=model, dtype=np.complex128).simulate_moment_steps(sym_circuit, param_resolver=resolver, qubit_order=qs))
            unsplit = steps[-1].density_matrix(copy=True)
            from cirq.sim.simulator import split_into_matching_protocol_then_general as _split
            pre, suf = _split(sym_circuit, lambda op: not cirq.is_parameterized(op))
            repacked = (list(pre) + list(suf)) != list(sym_circuit)
            if np.allclose(unsplit, want, atol=1e-6) and repacked:
                ctx.report_witness('noise:prefix-split', 'DensityMatrixSimulator(noise=m).simulate(c) re-packs the moments of c (prefix split) before applying the noise model',
                                   {'lines': [{'circuit': repr(circuit), 'channel': repr(ch), 'kind': kind}], 'impl_out': [repr(np.round(got, 6).tolist())],
                                    'spec_out': [repr(np.round(want, 6).tolist())], 'theorem_or_correspondence': 'noise_model_defaults'})
                continue
            ctx.report_witness(f'noise:{kind}', 'simulating with a noise model differs from simulating the circuit the noise model produces',
                               {'lines': [{'circuit': repr(circuit), 'channel': repr(ch), 'kind': kind, 'noisy_circuit': repr(noisy)}], 'impl_out': [repr(np.round(got, 6).tolist())],
                                'spec_out': [repr(np.round(want, 6).tolist())], 'theorem_or_correspondence': 'noise_model_defaults'})
        # structure of ConstantQubitNoiseModel: every original moment is followed by a moment with the channel on every system qubit
        if kind in ('constant', 'like'):
            nm = list(noisy)
            okst = True
            nonempty = [m for m in circuit]
            exp_ops = [op for m in nonempty for op in list(m.operations) + [ch.on(q) for q in qs]]
            got_ops = [op.untagged for m in nm for op in m.operations]
            if sorted(map(repr, exp_ops)) != sorted(map(repr, got_ops)):
                ctx.report_witness('noise:constant-structure', 'ConstantQubitNoiseModel does not add the channel on every system qubit after every moment',
                                   {'lines': [{'circuit': repr(circuit), 'channel': repr(ch)}], 'impl_out': [repr(noisy)], 'spec_out': ['moment, then channel on all qubits'],
                                    'theorem_or_correspondence': 'noise_model_defaults'})


def check_virtual_moments(ctx, cirq, n):
    """ConstantQubitNoiseModel / noise=<channel>: the channel follows every moment on every system qubit, except moments made only of
    virtual (VirtualTag) operations; one virtual operation next to physical ones does not switch the noise of that moment off"""
    rng = ctx.substream('virtual')
    for it in range(n):
        qs = cirq.LineQubit.range(rng.choice([2, 3]))
        moments, expect_noise = [], []
        for _ in range(rng.randint(2, 5)):
            kind = rng.choice(['physical', 'physical', 'mixed', 'virtual'])
            ops = []
            for q in qs:
                if rng.random() < 0.3 and ops and moments:
                    continue  # (the first moment touches every qubit: the system is the register of the circuit)
                op = rng.choice([cirq.H, cirq.X, cirq.Z ** 0.5, cirq.Y ** 0.25])(q)
                if kind == 'virtual' or (kind == 'mixed' and rng.random() < 0.5):
                    op = op.with_tags(cirq.VirtualTag())
                ops.append(op)
            if kind == 'mixed' and ops and all(cirq.VirtualTag() in o.tags for o in ops):
                ops[0] = ops[0].untagged
            if kind == 'mixed' and ops and not any(cirq.VirtualTag() in o.tags for o in ops):
                ops[-1] = ops[-1].with_tags(cirq.VirtualTag())
                if len(ops) == 1:
                    ops.append(cirq.X([q for q in qs if q not in ops[0].qubits][0]))
            moments.append(cirq.Moment(ops))
            expect_noise.append(not (ops and all(cirq.VirtualTag() in o.tags for o in ops)))
        circuit = cirq.Circuit(moments)
        ch = rng.choice([cirq.amplitude_damp(0.3), cirq.bit_flip(0.2), cirq.depolarize(0.1)])
        model = cirq.ConstantQubitNoiseModel(ch)
        want = cirq.Circuit()
        for m, noisy_after in zip(moments, expect_noise):
            want.append(m, strategy=cirq.InsertStrategy.NEW_THEN_INLINE)
            if noisy_after:
                want.append(cirq.Moment(ch.on(q) for q in qs), strategy=cirq.InsertStrategy.NEW_THEN_INLINE)
        ctx.count('check', 'noise-model:virtual-moments')
        ctx.case(['virtual', repr(circuit), repr(ch)], True)
        rep = {'lines': [{'circuit': repr(circuit), 'channel': repr(ch)}], 'theorem_or_correspondence': 'noise_model_defaults (virtual moments)'}
        dims = [2] * len(qs)
        rho0 = np.zeros((2 ** len(qs),) * 2, dtype=complex)
        rho0[0, 0] = 1
        out = ctx.driver.ask([{'p': 'C02', 'op': 'dm', 'shape': dims, 'rho': [common.c2j(z) for z in rho0.reshape(-1)], 'ops': lean_ops(cirq, want, list(qs))}])[0]
        want_rho = rho_of(out)
        for name, f in (('simulate(noise=channel)', lambda: cirq.DensityMatrixSimulator(noise=ch, dtype=np.complex128).simulate(circuit, qubit_order=qs).final_density_matrix),
                        ('with_noise', lambda: cirq.DensityMatrixSimulator(dtype=np.complex128).simulate(circuit.with_noise(model), qubit_order=qs).final_density_matrix)):
            got = f()
            if not np.allclose(got, want_rho, atol=1e-6):
                n_noise = sum(1 for o in cirq.Circuit(model.noisy_moments(circuit, qs)).all_operations() if cirq.VirtualTag() in o.tags and o.untagged.gate == ch)
                ctx.report_witness('noise:virtual-moments', f'{name}: the channel is not applied after exactly the moments that contain a physical operation (or are empty)',
                                   dict(rep, impl_out=[repr(np.round(got, 5).tolist())[:800], f'{n_noise} noise operations'], spec_out=[repr(np.round(want_rho, 5).tolist())[:800], f'{len(qs) * sum(expect_noise)} noise operations']))
                break


def check_insertion_model(ctx, cirq, n):
    """InsertionNoiseModel: for every operation the documented rule picks one key of `ops_added` — among the keys that contain the operation,
    the most specific one (a gate type that is a subclass, or the same type restricted to given qubits); when neither of two keys is more
    specific the first one in the mapping wins.  The rule is evaluated here on sets (a key contains an operation iff its gate type is a base
    of the operation's gate and its qubits, if any, are the operation's qubits) and compared with the operations the model inserts."""
    from cirq.devices.insertion_noise_model import InsertionNoiseModel

    rng = ctx.substream('insertion')
    q0, q1 = cirq.LineQubit.range(2)
    key_pool = [(cirq.XPowGate,), (cirq.XPowGate, q0), (cirq.XPowGate, q1), (cirq.EigenGate,), (cirq.EigenGate, q0), (cirq.Gate,), (cirq.Gate, q0), (cirq.ZPowGate,), (cirq.ZPowGate, q1),
                (cirq.CZPowGate,), (cirq.CZPowGate, q0, q1), (cirq.CZPowGate, q1, q0), (cirq.Gate, q0, q1), (cirq.HPowGate, q0)]

    def contains(key, op):
        return isinstance(op.gate, key[0]) and (len(key) == 1 or tuple(key[1:]) == tuple(op.qubits))

    def proper_sub(a, b):  # every operation of key a is one of key b, and not conversely
        return a != b and issubclass(a[0], b[0]) and (len(b) == 1 or tuple(a[1:]) == tuple(b[1:]))

    for it in range(n):
        keys = rng.sample(key_pool, rng.randint(2, 5))
        added = {cirq.OpIdentifier(*k): cirq.bit_flip(0.01 * (j + 1)).on(cirq.LineQubit(10 + j)) for j, k in enumerate(keys)}
        model = InsertionNoiseModel(ops_added=added, require_physical_tag=False, prepend=rng.random() < 0.3)
        ops = []
        for q in (q0, q1):
            if rng.random() < 0.6:
                ops.append(rng.choice([cirq.X, cirq.X ** 0.5, cirq.Z, cirq.H, cirq.Y, cirq.T])(q))
        if not ops or rng.random() < 0.4:
            ops = [rng.choice([cirq.CZ, cirq.CZ ** 0.5, cirq.CNOT, cirq.ISWAP])(*rng.sample([q0, q1], 2))]
        moment = cirq.Moment(ops)
        want = []
        for op in moment:  # (the model walks the moment in its own order)
            match = None
            for k in keys:
                if contains(k, op) and (match is None or proper_sub(k, match)):
                    match = k
            if match is not None:
                want.append(added[cirq.OpIdentifier(*match)])
        out = cirq.Circuit(model.noisy_moment(moment, [q0, q1]))
        got = [o for o in out.all_operations() if o.qubits and o.qubits[0].x >= 10]
        ctx.count('check', 'noise-model:insertion-rule')
        ctx.case(['insertion', [repr(cirq.OpIdentifier(*k)) for k in keys], repr(moment)], True)
        # theorem-backed and independent of the order the keys are walked in (C09_insertion_key_minimal): the key whose operation was inserted
        # for `op` matches it and no matching key is a proper subtype of it
        by_op = {repr(v): k for k, v in zip(keys, added.values())}
        for op, ins in zip([o for o in moment if any(contains(k, o) for k in keys)], got if len(got) == len([o for o in moment if any(contains(k, o) for k in keys)]) else []):
            kk = by_op.get(repr(ins))
            if kk is None or not contains(kk, op) or any(contains(k2, op) and proper_sub(k2, kk) for k2 in keys):
                ctx.report_witness('noise:insertion-rule:minimal', 'the noise inserted for an operation belongs to a key that does not match it or is not a most specific matching key',
                                   {'lines': [{'keys': [repr(cirq.OpIdentifier(*k)) for k in keys], 'moment': repr(moment), 'op': repr(op)}], 'impl_out': [repr(ins)], 'spec_out': ['a minimal matching key'],
                                    'theorem_or_correspondence': 'C09_insertion_key_minimal'})
        if sorted(map(repr, got)) != sorted(map(repr, want)):
            ctx.report_witness('noise:insertion-rule', 'InsertionNoiseModel does not insert the operation of the most specific (else first) matching key',
                               {'lines': [{'keys': [repr(cirq.OpIdentifier(*k)) for k in keys], 'moment': repr(moment)}], 'impl_out': [sorted(map(repr, got))], 'spec_out': [sorted(map(repr, want))],
                                'theorem_or_correspondence': 'InsertionNoiseModel (documented matching rule)'})


def check_noise_properties_measurements(ctx, cirq, n):
    """NoiseModelFromNoiseProperties splits multi-qubit measurements before applying its noise models and recombines them afterwards: the
    measurements of the noisy circuit are the measurements of the circuit, in order - same qubits, keys, invert masks - also when a key is
    measured more than once; everything else the models add is noise on top of the original operations"""
    from cirq.devices.insertion_noise_model import InsertionNoiseModel
    from cirq.devices.noise_properties import NoiseModelFromNoiseProperties, NoiseProperties

    rng = ctx.substream('noise-properties')
    qs = cirq.LineQubit.range(3)

    class Props(NoiseProperties):
        def build_noise_models(self):
            return [InsertionNoiseModel(ops_added={cirq.OpIdentifier(cirq.XPowGate): cirq.bit_flip(0.1).on(qs[0]), cirq.OpIdentifier(cirq.MeasurementGate): cirq.bit_flip(0.05).on(qs[1])})]

    model = NoiseModelFromNoiseProperties(Props())
    for it in range(n):
        moments = []
        for _ in range(rng.randint(2, 5)):
            if rng.random() < 0.5:
                moments.append(cirq.Moment(cirq.X(q) for q in qs if rng.random() < 0.6))
            else:
                t = rng.sample(list(qs), rng.choice([1, 2, 3]))
                moments.append(cirq.Moment(cirq.measure(*t, key=rng.choice(['m', 'm', 'k']), invert_mask=tuple(rng.random() < 0.4 for _ in t))))
        if it == 0:
            moments = [cirq.Moment(cirq.X(qs[0])), cirq.Moment(cirq.measure(qs[0], key='m', invert_mask=(True,))), cirq.Moment(cirq.measure(qs[1], key='m'))]
        circuit = cirq.Circuit(moments)
        try:
            noisy = circuit.with_noise(model)
        except ValueError as e:
            ctx.count('noise_properties_rejected', str(e)[:40])
            continue
        ctx.count('check', 'noise-properties:measurements')
        ctx.case(['noise-properties', repr(circuit)], sum(1 for o in circuit.all_operations() if cirq.is_measurement(o)) >= 2)
        want = [o for m in circuit for o in m if cirq.is_measurement(o)]
        got = [o.untagged for m in noisy for o in m if cirq.is_measurement(o)]
        if got != want:
            ctx.report_witness('noise:properties-measurements', 'the measurements of the noisy circuit are not the measurements of the circuit (qubits, key, invert mask, order)',
                               {'lines': [{'circuit': repr(circuit)}], 'impl_out': [repr(got)[:1200]], 'spec_out': [repr(want)[:1200]], 'theorem_or_correspondence': 'noise model leaves measurements alone'})


def check_circuit_superoperator(ctx, cirq, n):
    """the superoperator of a circuit on qubits and qutrits (one-qid gates and channels per moment, idle qids allowed) is the product of
    its moments' superoperators, each the Kronecker product of the operations' Kraus sums; has_superoperator answers accordingly"""
    rng = ctx.substream('circuit-superoperator')

    def sup(ks):
        return sum(np.kron(np.asarray(k), np.asarray(k).conj()) for k in ks)

    for it in range(n):
        qs = [cirq.LineQid(j, rng.choice([2, 2, 3])) for j in range(rng.choice([1, 2]))]
        if it == 0:
            qs = [cirq.LineQid(0, 3)]
        moments, mats = [], []
        for _ in range(rng.randint(1, 3)):
            ops, factors = [], []
            for q in qs:
                if rng.random() < 0.3:
                    factors.append([np.eye(q.dimension)])
                    continue
                if q.dimension == 2:
                    g = rng.choice([cirq.X ** 0.5, cirq.H, cirq.bit_flip(0.2), cirq.amplitude_damp(0.3), cirq.depolarize(0.1), cirq.ResetChannel()])
                else:
                    g = rng.choice([cirq.XPowGate(dimension=3), cirq.ZPowGate(dimension=3) ** 0.5, cirq.ResetChannel(dimension=3)])
                ops.append(g.on(q))
                factors.append([np.asarray(k) for k in cirq.kraus(g)])
            moments.append(cirq.Moment(ops))
            full = [np.array([[1.0 + 0j]])]
            for f in factors:
                full = [np.kron(a, b) for a in full for b in f]
            mats.append(sup(full))
        circuit = cirq.Circuit(moments)
        if set(circuit.all_qubits()) != set(qs):
            continue
        want = np.eye(mats[0].shape[0], dtype=complex)
        for m in mats:
            want = m @ want
        ctx.count('check', 'circuit-superoperator')
        ctx.case(['circuit-superoperator', repr(circuit)], any(q.dimension == 3 for q in qs))
        rep = {'lines': [{'circuit': repr(circuit)}], 'theorem_or_correspondence': 'superoperator of a composition = product of superoperators'}
        try:
            has = circuit._has_superoperator_()
            got = circuit._superoperator_() if has else None
        except Exception as e:  # noqa: BLE001
            ctx.report_witness('circuit:superoperator:raises', f'the circuit says it has a superoperator and raises when asked for it: {type(e).__name__}: {str(e)[:80]}', dict(rep, impl_out=[str(e)[:200]], spec_out=[list(want.shape)]))
            continue
        if got is None or got.shape != want.shape or not np.allclose(got, want, atol=1e-8):
            ctx.report_witness('circuit:superoperator', 'the superoperator of the circuit is not the product of its moments\' superoperators', dict(rep, impl_out=[None if got is None else list(got.shape)], spec_out=[list(want.shape)]))


def check_measured_noisy_circuits(ctx, cirq, n):
    """noisy circuits with mid-circuit measurements (computational on 1..3 qubits, Pauli products on 1..3 qubits) and resets: the final
    states of the density-matrix simulator, averaged over the measurement outcomes with their probabilities, are the channel sequence
    applied in order (a measurement whose result is averaged over is the projective channel); the same for state-vector trajectories.
    Both with and without splitting of untangled states."""
    rng = ctx.substream('measured-noisy')
    cases = []
    for _ in range(n):
        nq = rng.choice([2, 3, 3])
        qs = cirq.LineQubit.range(nq)
        moments, nmeas, nch = [], 0, 0
        for _ in range(rng.randint(2, 6)):
            r = rng.random()
            if r < 0.3 and nmeas < 2:
                k = rng.randint(1, min(3, nq))
                tq = rng.sample(qs, k)
                if rng.random() < 0.6:
                    ps = cirq.PauliString({q: rng.choice([cirq.X, cirq.Y, cirq.Z]) for q in tq}, coefficient=rng.choice([1, 1, -1]))
                    moments.append(cirq.Moment(cirq.measure_single_paulistring(ps, key=f'p{nmeas}')))
                else:
                    moments.append(cirq.Moment(cirq.measure(*tq, key=f'm{nmeas}')))
                nmeas += 1
            elif r < 0.55 and nch < 2:
                ch, k = rand_channel(cirq, rng)
                if k <= nq:
                    moments.append(cirq.Moment(ch.on(*rng.sample(qs, k))))
                    nch += 1
            else:
                k = rng.choice([1, 2, 2])
                g = {1: gen.one_qubit_gate, 2: gen.two_qubit_gate}[k](cirq, rng)
                moments.append(cirq.Moment(g.on(*rng.sample(qs, k))))
        if nmeas:
            cases.append((cirq.Circuit(cirq.Moment(cirq.H.on_each(*qs[:2])), *moments), qs))
    reqs = []
    for circuit, qs in cases:
        init = np.zeros(2 ** len(qs), dtype=complex)
        init[0] = 1
        reqs.append({'p': 'C02', 'op': 'dm', 'shape': [2] * len(qs), 'rho': [common.c2j(z) for z in np.outer(init, init).reshape(-1)], 'ops': lean_ops(cirq, circuit, qs)})
    outs = ctx.driver.ask(reqs)
    for (circuit, qs), out in zip(cases, outs):
        want = rho_of(out)
        ctx.case(['measured-noisy', repr(circuit)], True)
        runs = [(f'DensityMatrixSimulator[split={sp}]', (lambda prng, sp=sp: cirq.DensityMatrixSimulator(seed=prng, dtype=np.complex128, split_untangled_states=sp)), 'dm') for sp in (True, False)]
        runs += [(f'Simulator[split={sp}]', (lambda prng, sp=sp: cirq.Simulator(seed=prng, dtype=np.complex128, split_untangled_states=sp)), 'sv') for sp in (True, False)]
        for sname, mk, kind in runs:
            def once(prng, mk=mk, kind=kind):
                r = mk(prng).simulate(circuit, qubit_order=qs)
                arr = r.final_density_matrix if kind == 'dm' else r.final_state_vector
                return tuple(np.round(arr, 9).reshape(-1).tolist())
            try:
                d = enumerate_branches(once, max_branches=300 if ctx.tier == 'quick' else 2000)
            except RuntimeError:
                ctx.count('check', 'measured-noisy:too-many')
                continue
            dim = 2 ** len(qs)
            if kind == 'dm':
                rho = sum(p * np.array(v).reshape(dim, dim) for v, p in d.items())
            else:
                rho = sum(p * np.outer(np.array(v), np.conj(np.array(v))) for v, p in d.items())
            ctx.count('check', f'measured-noisy:{kind}')
            if abs(sum(d.values()) - 1) > 1e-6 or not np.allclose(rho, want, atol=1e-5):
                ctx.report_witness(f'dm:measured:{sname.split("[")[0]}', f'{sname}: the final states after mid-circuit measurements, averaged over the outcomes, are not the channel sequence applied in order',
                                   {'lines': [{'circuit': repr(circuit), 'simulator': sname}], 'impl_out': [repr(np.round(rho, 6).tolist())], 'spec_out': [repr(np.round(want, 6).tolist())],
                                    'theorem_or_correspondence': 'Spec.Circuit.runDM (Σ K ρ K†, measurements as projective channels)'})


def check_apply_channel_only(ctx, cirq):
    """a channel that only says how it acts on a density tensor (`_apply_channel_`): cirq.kraus, the superoperator, the Choi matrix and
    the density-matrix simulator all describe that action (complex Kraus operators that are not closed under conjugation)"""
    rng = ctx.substream('apply-channel-only')

    class OnlyApply(cirq.Gate):
        def __init__(self, ks, nq):
            self.ks, self.nq = ks, nq

        def _num_qubits_(self):
            return self.nq

        def _apply_channel_(self, args):
            n = self.nq
            out = np.zeros_like(args.target_tensor)
            for k in self.ks:
                kt = k.reshape((2,) * (2 * n))
                t = cirq.targeted_left_multiply(kt, args.target_tensor, args.left_axes)
                t = cirq.targeted_left_multiply(np.conjugate(kt), t, args.right_axes)
                out += t
            args.target_tensor[...] = out
            return args.target_tensor

    for it in range(6 if ctx.tier == 'quick' else 60):
        nq = rng.choice([1, 1, 2])
        d = 2 ** nq
        us = [gen.rand_unitary(rng, d) for _ in range(rng.choice([2, 3]))]
        ws = np.array([rng.random() + 0.1 for _ in us])
        ws = ws / ws.sum()
        ks = [np.sqrt(w) * u for w, u in zip(ws, us)]
        g = OnlyApply(ks, nq)
        want_super = sum(np.kron(k, np.conjugate(k)) for k in ks)
        ctx.case(['apply-channel-only', nq, it], True)
        ctx.count('check', 'apply-channel-only')
        try:
            got_k = cirq.kraus(g)   # (the fallback through _apply_channel_ is not tried when a default of None is given)
        except TypeError:
            got_k = None
        got_super = None if got_k is None else sum(np.kron(k, np.conjugate(k)) for k in got_k)
        qs = cirq.LineQubit.range(nq)
        rho0 = np.zeros((d, d), dtype=complex)
        psi = gen.rand_unitary(rng, d)[:, 0]
        rho0 = np.outer(psi, psi.conj())
        sim = cirq.DensityMatrixSimulator(dtype=np.complex128).simulate(cirq.Circuit(g.on(*qs)), initial_state=rho0.astype(np.complex128), qubit_order=qs).final_density_matrix
        want_rho = sum(k @ rho0 @ k.conj().T for k in ks)
        bad = []
        if not np.allclose(sim, want_rho, atol=1e-7):
            bad.append('DensityMatrixSimulator')
        if got_super is not None and not np.allclose(got_super, want_super, atol=1e-7):
            bad.append('cirq.kraus')
        if got_k is not None:
            so = cirq.kraus_to_superoperator(got_k)
            if not np.allclose(so, want_super, atol=1e-7):
                bad.append('kraus_to_superoperator')
        if bad:
            ctx.report_witness('kraus:apply-channel-only', f'for a channel defined by _apply_channel_ alone, {", ".join(bad)} do(es) not describe the action Σ K ρ K†',
                               {'lines': [{'kraus': [repr(np.round(k, 6).tolist()) for k in ks]}], 'impl_out': [bad], 'spec_out': ['Σ K ρ K†'], 'theorem_or_correspondence': 'kraus / superoperator coherence'})


def check_entanglement_fidelity(ctx, cirq):
    """cirq.entanglement_fidelity(channel) = <phi|(E x I)(|phi><phi|)|phi> for the maximally entangled state of the channel's own
    dimension (computed here from the Kraus operators by plain linear algebra), for qubits and for qudits"""
    rng = ctx.substream('entanglement-fidelity')
    cases = [cirq.IdentityGate(qid_shape=(3,)), cirq.IdentityGate(qid_shape=(2, 3)), cirq.XPowGate(dimension=3), cirq.ZPowGate(dimension=4) ** 0.5, cirq.depolarize(0.1), cirq.amplitude_damp(0.3),
             cirq.depolarize(0.2, n_qubits=2), cirq.ResetChannel(dimension=3), cirq.X, cirq.CZ ** 0.5, cirq.bit_flip(0.25)]
    for _ in range(4 if ctx.tier == 'quick' else 40):
        ch, _k = rand_channel(cirq, rng)
        cases.append(ch)
    for ch in cases:
        ks = cirq.kraus(ch)
        d = ks[0].shape[0]
        phi = np.eye(d).reshape(-1) / np.sqrt(d)
        out = sum(np.kron(k, np.eye(d)) @ np.outer(phi, phi.conj()) @ np.kron(k, np.eye(d)).conj().T for k in ks)
        want = float(np.real(phi.conj() @ out @ phi))
        got = cirq.entanglement_fidelity(ch)
        ctx.count('check', 'entanglement-fidelity')
        ctx.case(['entanglement-fidelity', repr(ch)], any(x != 2 for x in cirq.qid_shape(ch)))
        if abs(got - want) > 1e-9:
            ctx.report_witness('measure:entanglement-fidelity', 'cirq.entanglement_fidelity is not the overlap of the maximally entangled state with its image under the channel',
                               {'lines': [{'channel': repr(ch), 'qid_shape': list(cirq.qid_shape(ch))}], 'impl_out': [got], 'spec_out': [want], 'theorem_or_correspondence': 'Kraus description (Σ |tr K|² / d²)'})


def check_noisy_runs(ctx, cirq, n):
    """`run` with a noise model: the joint distribution of the records equals the Born-rule distribution (Lean, C02) of the circuit the
    noise model produces — also on the terminal-measurement fast path, where operations (noise) that follow a measurement on its qubits
    must not change what it records, for measurements of one or several qubits in any moment"""
    rng = ctx.substream('noisy-runs')
    corpus = []
    a, b, c = cirq.LineQubit.range(3)
    corpus.append((cirq.Circuit(cirq.Moment(cirq.measure(a, b, key='a')), cirq.Moment(cirq.measure(c, key='b'))), cirq.X, True))
    corpus.append((cirq.Circuit(cirq.Moment(cirq.H(a), cirq.X(b)), cirq.Moment(cirq.measure(b, a, key='a')), cirq.Moment(cirq.X(c)), cirq.Moment(cirq.measure(c, key='b'))), cirq.bit_flip(0.25), False))
    # the same qubit measured again later: the noise between the two measurements counts for the second
    corpus.append((cirq.Circuit(cirq.Moment(cirq.measure(a, key='a')), cirq.Moment(cirq.measure(a, key='b'))), cirq.X, False))
    corpus.append((cirq.Circuit(cirq.Moment(cirq.measure(a, key='a')), cirq.Moment(cirq.measure(a, b, key='b'))), cirq.bit_flip(0.25), False))
    corpus.append((cirq.Circuit(cirq.Moment(cirq.measure(a, b, key='a')), cirq.Moment(cirq.measure(b, c, key='b')), cirq.Moment(cirq.measure(a, key='c'))), cirq.X**0.5, False))
    corpus.append((cirq.Circuit(cirq.Moment(cirq.measure(a, key='a'), cirq.measure(b, key='b')), cirq.Moment(cirq.measure(b, key='a'))), cirq.bit_flip(0.25), True))
    # noise on several qubits at once (a unitary coupling added after every moment): what touches a qubit that is still to be measured counts

    class CoupleAfterEveryMoment(cirq.NoiseModel):
        def __init__(self, gate, pair):
            self.gate, self.pair = gate, pair

        def noisy_moment(self, moment, system_qubits):
            return [moment, cirq.Moment(self.gate.on(*self.pair))]

    corpus.append((cirq.Circuit(cirq.Moment(cirq.X(a)), cirq.Moment(cirq.measure(a, key='a')), cirq.Moment(cirq.measure(b, key='b'))), CoupleAfterEveryMoment(cirq.CNOT, (a, b)), False))
    corpus.append((cirq.Circuit(cirq.Moment(cirq.H(a)), cirq.Moment(cirq.measure(b, key='a')), cirq.Moment(cirq.measure(a, c, key='b'))), CoupleAfterEveryMoment(cirq.CNOT, (b, c)), False))
    corpus.append((cirq.Circuit(cirq.Moment(cirq.X(a) ** 0.5), cirq.Moment(cirq.measure(a, key='a')), cirq.Moment(cirq.measure(c, key='c')), cirq.Moment(cirq.measure(b, key='b'))), CoupleAfterEveryMoment(cirq.CZ ** 0.5, (a, b)), False))
    for it in range(n + len(corpus)):
        if it < len(corpus):
            circuit, ch, prepend = corpus[it]
        else:
            qs = cirq.LineQubit.range(rng.choice([2, 3, 3]))
            moments, free, nk = [], list(qs), 0
            terminal = rng.random() < 0.7
            for _ in range(rng.randint(1, 3)):
                ops_, used = [], set()
                for q in qs:
                    if rng.random() < 0.5:
                        ops_.append(rng.choice([cirq.H, cirq.X, cirq.X**0.5, cirq.Y**0.25])(q))
                        used.add(q)
                if not ops_:
                    ops_.append(cirq.H(rng.choice(qs)))
                moments.append(cirq.Moment(ops_))
            # measurements: groups of 1..3 qubits, in one or several moments; terminal (nothing but noise follows) or not
            order = list(qs)
            rng.shuffle(order)
            while order:
                k = min(len(order), rng.choice([1, 2, 2, 3]))
                grp, order = order[:k], order[k:]
                inv = tuple(rng.random() < 0.3 for _ in grp)
                m = cirq.measure(*grp, key=f'k{nk}', invert_mask=inv)
                nk += 1
                if moments and rng.random() < 0.4 and not any(q in moments[-1].qubits for q in grp) and any(cirq.is_measurement(o) for o in moments[-1]):
                    moments[-1] = moments[-1].with_operation(m)
                else:
                    moments.append(cirq.Moment(m))
            if not terminal:
                q = rng.choice(qs)
                moments.append(cirq.Moment(cirq.X(q).with_classical_controls('k0') if rng.random() < 0.5 else cirq.H(q)))
                moments.append(cirq.Moment(cirq.measure(q, key='z')))
            circuit = cirq.Circuit(moments)
            ch = rng.choice([cirq.X, cirq.bit_flip(0.25), cirq.amplitude_damp(0.3), cirq.Z**0.5, cirq.X**0.5])
            if not cirq.has_unitary(ch) and len(qs) * len(moments) > 9:
                ch = cirq.X  # the reference semantics branches on every Kraus operator of every inserted channel: keep that enumerable
            prepend = rng.random() < 0.4
        qs = sorted(circuit.all_qubits())
        model = ch if isinstance(ch, cirq.NoiseModel) else cirq.ConstantQubitNoiseModel(ch, prepend=prepend)
        noisy = cirq.Circuit(model.noisy_moments(circuit, qs))
        dims = [2] * len(qs)
        init = [0j] * (2 ** len(qs))
        init[0] = 1
        out = ctx.driver.ask([{'p': 'C02', 'op': 'dist', 'shape': dims, 'init': [common.c2j(z) for z in init], 'ops': lean_ops(cirq, noisy, qs)}])[0]
        want = lean_dist(out)
        terminal = circuit.are_all_measurements_terminal()
        ctx.case(['noisy-run', repr(circuit), repr(ch), prepend], len(want) >= 2)
        sims = {'DensityMatrixSimulator': lambda p: cirq.DensityMatrixSimulator(noise=model, seed=p, dtype=np.complex128)}
        if isinstance(ch, cirq.NoiseModel) or cirq.has_unitary(ch) or len(list(noisy.all_operations())) <= 12:
            sims['Simulator'] = lambda p: cirq.Simulator(noise=model, seed=p, dtype=np.complex128)
        for sname, mk in sims.items():
            def once(prng, mk=mk):
                return records_key(mk(prng).run(circuit, repetitions=1).records)
            try:
                got = enumerate_branches(once, max_branches=600 if ctx.tier == 'quick' else 4000)
            except RuntimeError as e:
                if 'too many branches' not in str(e):
                    raise
                ctx.count('check', f'noisy-run:{sname}:branch-cap')
                continue
            ctx.count('check', f'noisy-run:{sname}:{"terminal" if terminal else "mid"}')
            if not dist_close(got, want):
                # the known finding noise:prefix-split (the program is split, and its moments re-packed, before the noise model sees
                # it) is recorded for simulate(); this stream is about what follows a measurement: leave re-packed programs to it
                from cirq.sim.simulator import split_into_matching_protocol_then_general as _split
                sim0 = mk(1)
                if sim0._can_be_in_run_prefix(sim0.noise):
                    pre, suf = _split(circuit, sim0._can_be_in_run_prefix)
                    if (list(pre) + list(suf)) != list(circuit):
                        ctx.count('check', f'noisy-run:{sname}:repacked')
                        continue
                ctx.report_witness(f'noisy-run:{"terminal" if terminal else "mid"}:{sname}',
                                   f'{sname}(noise=model).run: the records do not follow the Born rule of the circuit the noise model produces',
                                   {'lines': [{'circuit': repr(circuit), 'channel': repr(ch), 'prepend': prepend, 'noisy_circuit': repr(noisy)[:1500]}],
                                    'impl_out': [sorted((repr(k), round(v, 9)) for k, v in got.items())], 'spec_out': [sorted((repr(k), round(v, 9)) for k, v in want.items())],
                                    'theorem_or_correspondence': 'Spec.Circuit.run (runDist) on noise_model.noisy_moments(circuit)'})


def replay(ctx, rep):
    print(json.dumps(rep, indent=1)[:3000])
    return 1
