"""C01 — Unitary simulation equals the ordered product of operation matrices.

Lean: CirqVerif.Base.Tensor (reference semantics `applyOp`/`applyOps` of local operators), Proofs.Tensor
(functoriality, locality, linearity for every commutative ring), Proofs.Sim (`runArr_refines`: the array
interpreter run by the driver computes the reference semantics for every shape / circuit).
Tie (T2): every simulation entry point of Cirq is run on generated circuits (qubits and qudits, random
moment structure, qubit orders, initial-state forms, option combinations); the operations' matrices
(`cirq.unitary(op)`) in circuit order go to the Lean interpreter, final / per-moment states are compared.
"""
from __future__ import annotations

import itertools
import json

import numpy as np

from harness import common, gen

MODULES = ['CirqVerif.Props.C01']


def to_lines(cirq, circuit, order):
    """ops in circuit order as Lean ArrOps over the axes of `order`; also the op count after each moment"""
    pos = {q: i for i, q in enumerate(order)}
    ops, cuts = [], []
    for moment in circuit:
        for op in moment.operations:
            u = gen.op_unitary(cirq, op)
            ops.append({'m': [common.c2j(z) for z in u.reshape(-1)], 'axes': [pos[q] for q in op.qubits]})
        cuts.append(len(ops))
    return ops, cuts


def vec_close(a, b, atol):
    a, b = np.asarray(a).reshape(-1), np.asarray(b).reshape(-1)
    return a.shape == b.shape and np.allclose(a, b, atol=atol, rtol=0)


def initial_states(cirq, rng, order, dims):
    """yield (name, initial_state argument, full vector in `order`)"""
    size = int(np.prod(dims))
    k = rng.randrange(size)
    basis = np.zeros(size, dtype=np.complex128)
    basis[k] = 1
    yield 'int', k, basis
    v = np.array([complex(rng.gauss(0, 1), rng.gauss(0, 1)) for _ in range(size)])
    v = v / np.linalg.norm(v)
    yield 'vector', v.astype(np.complex128), v
    if all(d == 2 for d in dims):
        names = ['0', '1', '+', '-', 'i', '-i']
        st = {'0': cirq.KET_ZERO, '1': cirq.KET_ONE, '+': cirq.KET_PLUS, '-': cirq.KET_MINUS, 'i': cirq.KET_IMAG, '-i': cirq.KET_MINUS_IMAG}
        choice = [rng.choice(names) for _ in order]
        ps = cirq.ProductState({q: st[c] for q, c in zip(order, choice)})
        yield 'product', ps, ps.state_vector(qubit_order=order)


def run(ctx: common.Run):
    import cirq

    ctx.rule = (
        'random unitary circuits over the gate library (1..5 wires, qubits and qutrits, 0..10 ops incl. 3-qubit, matrix and controlled '
        'gates, special and generic exponents, global shifts, random moment structure) x qubit order x initial-state form x entry point '
        '(Circuit.unitary / final_state_vector, cirq.final_state_vector, Simulator {complex64,complex128} x split_untangled_states x '
        '{simulate, simulate_moment_steps, simulate_sweep}, DensityMatrixSimulator, ClassicalStateSimulator); non-trivial = at least two '
        'operations sharing a wire; distinct by hash of (ops, order, initial state)'
    )
    ctx.trusted += [
        'harness/props/c01.py + lean/Driver/C01.lean (T2 on generated circuits only); operation matrices are taken from cirq.unitary(op) '
        '(their correctness is C03/C04)',
        'CFloat (Lean Float pairs) execution of the polymorphic interpreter approximates execution over the complex numbers; '
        'comparison tolerance 2e-5 (complex64 paths) / 1e-7 (complex128 paths)',
        'numpy einsum/transpose/reshape semantics inside Cirq as documented',
    ]
    ok, failing = ctx.lean(MODULES)
    if not ok:
        ctx.report_unproved('lean-build', f'Lean modules no longer build: {failing}', {'theorem_or_correspondence': failing})
        return
    n = 120 if ctx.tier == 'quick' else 1500
    rng = ctx.substream('circuits')
    for i in range(n):
        mode = rng.choice(['qubit'] * 5 + ['qudit'] * 2 + ['classical'] * 2)
        circuit, qids = gen.random_unitary_circuit(
            cirq, rng, max_wires=5 if mode != 'qudit' else 4, qudits=(mode == 'qudit'), max_ops=10, classical=(mode == 'classical'), phases=True, ancilla=(mode == 'qubit')
        )
        check_circuit(ctx, cirq, rng, circuit, qids, mode)
        if mode == 'qubit' and i % 2 == 0:
            check_sweep(ctx, cirq, rng, circuit, qids)
    check_subcircuit_operations(ctx, cirq, ctx.substream('subcircuit-ops'))
    # the classical simulator on qudit gates: either it refuses the operation or the basis state it reports is the one the
    # operation's matrix maps the input to
    for d in (3, 4):
        for e in (1, 2, 3, d, 2 * d, -1):
            for k0 in range(d):
                qd = cirq.LineQid(0, d)
                gate = cirq.XPowGate(dimension=d) ** e
                ctx.count('entry', 'ClassicalStateSimulator:qudit')
                try:
                    res = cirq.ClassicalStateSimulator().simulate(cirq.Circuit(gate.on(qd)), initial_state=[k0], qubit_order=[qd])
                except (ValueError, TypeError):
                    ctx.count('classical_qudit', 'refused')
                    continue
                got = int(res._final_simulator_state._state.basis[0])
                want = int(np.argmax(np.abs(cirq.unitary(gate)[:, k0])))
                ctx.case(['classical-qudit', d, e, k0], True)
                if got != want:
                    ctx.report_witness('entry:ClassicalStateSimulator:qudit', 'ClassicalStateSimulator reports a basis state different from the image under the operation\'s matrix',
                                       {'lines': [{'gate': repr(gate), 'initial': k0}], 'impl_out': [got], 'spec_out': [want], 'theorem_or_correspondence': 'applyOps (basis state)'})


def check_circuit(ctx, cirq, rng, circuit, qids, mode):
    order = list(qids)
    if rng.random() < 0.6:
        rng.shuffle(order)
    dims = [q.dimension for q in order]
    ops, cuts = to_lines(cirq, circuit, order)
    size = int(np.prod(dims))
    nontrivial = any(len(set(a['axes']) & set(b['axes'])) > 0 for a, b in itertools.combinations(ops, 2))
    ctx.count('mode', mode)
    ctx.count('wires', str(len(order)))
    reqs, entries = [], []
    sample = {'circuit': repr(circuit)[:400], 'order': [str(q) for q in order]}
    for name, init_arg, vec in initial_states(cirq, rng, order, dims):
        req = {'p': 'C01', 'op': 'run', 'shape': dims, 'init': [common.c2j(z) for z in vec], 'ops': ops, 'cuts': cuts}
        reqs.append(req)
        entries.append((name, init_arg, vec))
    reqs.append({'p': 'C01', 'op': 'unitary', 'shape': dims, 'ops': ops})
    outs = ctx.driver.ask(reqs)
    expected_u = np.array([[common.j2c(z) for z in row] for row in outs[-1]])
    ctx.case({'ops': ops, 'dims': dims}, nontrivial, sample=sample if nontrivial and len(ctx.samples) < 3 else None)

    def report(entry, init_name, got, want):
        ctx.report_witness(
            f'entry:{entry}',
            f'{entry} differs from the ordered product of the operations\' matrices (initial state form {init_name})',
            {'lines': [{'circuit': repr(circuit), 'order': [repr(q) for q in order], 'init': init_name}],
             'impl_out': [str(np.round(np.asarray(got).reshape(-1)[:16], 6).tolist())],
             'spec_out': [str(np.round(np.asarray(want).reshape(-1)[:16], 6).tolist())],
             'theorem_or_correspondence': 'applyOps (ordered product) via runArr_refines'},
        )

    # 1. Circuit.unitary
    u = circuit.unitary(qubit_order=order, qubits_that_should_be_present=order)
    ctx.count('entry', 'Circuit.unitary')
    if not vec_close(u, expected_u, 1e-7):
        report('Circuit.unitary', '-', u, expected_u)
    # the same through the protocol, on the frozen circuit (qubits in sorted order); what a call returns belongs to the caller: writing into
    # it must not change what the next call returns
    if list(order) == sorted(circuit.all_qubits()) and len(order) <= 4:
        frozen = circuit.freeze()
        for attempt in ('first', 'after the caller wrote into the first result'):
            uf = cirq.unitary(frozen, None)
            ctx.count('entry', 'cirq.unitary(FrozenCircuit)')
            if uf is None or not vec_close(uf, expected_u, 1e-7):
                report('cirq.unitary(FrozenCircuit)', attempt, np.zeros(1) if uf is None else uf, expected_u)
                break
            try:
                uf[...] = 7.0
            except ValueError:
                break  # a read-only result cannot be corrupted either
    for (name, init_arg, vec), out in zip(entries, outs[:-1]):
        states = [np.array([common.j2c(z) for z in st]) for st in out['states']]
        if not states:
            states = [np.asarray(vec)]  # an empty circuit still yields one step holding the initial state
        want = np.array([common.j2c(z) for z in out['final']])
        ctx.count('init', name)
        calls = {}
        if True:
            calls['Circuit.final_state_vector'] = (lambda: circuit.final_state_vector(initial_state=init_arg, qubit_order=order, dtype=np.complex128), 1e-7)
            calls['cirq.final_state_vector'] = (lambda: cirq.final_state_vector(circuit, initial_state=init_arg, qubit_order=order, dtype=np.complex128), 1e-7)
        for dtype, tol in ((np.complex64, 2e-5), (np.complex128, 1e-7)):
            for split in (False, True):
                sim = cirq.Simulator(dtype=dtype, split_untangled_states=split)
                tag = f'Simulator[{np.dtype(dtype).name},split={split}]'
                ia = init_arg.astype(dtype) if isinstance(init_arg, np.ndarray) else init_arg
                calls[tag + '.simulate'] = (lambda sim=sim, ia=ia: sim.simulate(circuit, initial_state=ia, qubit_order=order).final_state_vector, tol)
                calls[tag + '.moment_steps'] = (lambda sim=sim, ia=ia: [s.state_vector(copy=True) for s in sim.simulate_moment_steps(circuit, initial_state=ia, qubit_order=order)], tol)
        for split in (False, True):
            dsim = cirq.DensityMatrixSimulator(dtype=np.complex128, split_untangled_states=split)
            ia = init_arg
            calls[f'DensityMatrixSimulator[split={split}]'] = (lambda dsim=dsim, ia=ia: dsim.simulate(circuit, initial_state=ia, qubit_order=order).final_density_matrix, 1e-7)
        if mode == 'classical' and name == 'int':
            calls['ClassicalStateSimulator'] = (lambda: classical_vector(cirq, circuit, order, init_arg, dims), 1e-9)
            calls['ClassicalStateSimulator[split=True]'] = (lambda: classical_vector(cirq, circuit, order, init_arg, dims, split=True), 1e-9)
        for cname, (fn, tol) in calls.items():
            try:
                got = fn()
            except (ValueError, TypeError, NotImplementedError, IndexError) as e:
                ctx.report_witness(f'entry:{cname}:raises', f'{cname} raises {type(e).__name__} on a unitary circuit: {str(e)[:100]}',
                                   {'lines': [{'circuit': repr(circuit), 'order': [repr(q) for q in order], 'init': name}], 'impl_out': [str(e)[:300]], 'spec_out': ['the final state'],
                                    'theorem_or_correspondence': 'C01_interpreter_is_ordered_product (T2)'})
                continue
            ctx.count('entry', cname.split('[')[0] + ('.' + cname.split('.')[-1] if '.' in cname and '[' in cname else ''))
            if cname.endswith('.moment_steps'):
                if len(got) != len(states) or not all(vec_close(g, s, tol) for g, s in zip(got, states)):
                    report(cname, name, got[-1] if got else [], states[-1] if states else [])
            elif cname.startswith('DensityMatrix'):
                rho = np.outer(want, np.conj(want))
                if not vec_close(got, rho, tol):
                    report(cname, name, got, rho)
            else:
                if not vec_close(got, want, tol):
                    report(cname, name, got, want)


def check_subcircuit_operations(ctx, cirq, rng):
    """sub-circuit operations on one or two qubits, repeated k in -3..3 times (negative: the inverse of the body, |k| times), bare and
    under a control: Circuit.unitary, cirq.unitary of the operation and the simulators equal the ordered product of the operations of
    the flat form (written out here from the inverses of the body's gates, multiplied by the Lean reference interpreter)"""
    qs = cirq.LineQubit.range(3)
    for it in range(10 if ctx.tier == 'quick' else 120):
        nq = rng.choice([1, 1, 2])
        body_ops = []
        for _ in range(rng.randint(1, 3)):
            if nq == 2 and rng.random() < 0.4:
                body_ops.append((cirq.CZ ** round(rng.uniform(0.1, 0.9), 3)).on(qs[0], qs[1]) if rng.random() < 0.5 else cirq.CNOT(qs[0], qs[1]))
            else:
                g = rng.choice([cirq.X ** 0.3, cirq.Y ** 0.7, cirq.Z ** 0.25, cirq.H ** 0.4, cirq.S, cirq.T, cirq.rx(0.7), cirq.XPowGate(exponent=0.5, global_shift=0.3)])
                body_ops.append(g.on(qs[rng.randrange(nq)]))
        k = rng.choice([-3, -2, -1, 1, 2, 3, -1, -2])
        co = cirq.CircuitOperation(cirq.FrozenCircuit(body_ops), repetitions=k)
        one = body_ops if k > 0 else [cirq.inverse(o) for o in reversed(body_ops)]
        flat = one * abs(k)
        controlled = rng.random() < 0.5
        pre = [cirq.H(q) for q in qs]
        if controlled:
            wrapped = cirq.Circuit(pre, co.controlled_by(qs[2]))
            flat_c = cirq.Circuit(pre, [o.controlled_by(qs[2]) for o in flat])
        else:
            wrapped = cirq.Circuit(pre, co)
            flat_c = cirq.Circuit(pre, flat)
        order = list(qs)
        ops_, _cuts = to_lines(cirq, flat_c, order)
        init = np.zeros(8, dtype=np.complex128)
        init[0] = 1
        out = ctx.driver.ask([{'p': 'C01', 'op': 'run', 'shape': [2, 2, 2], 'init': [common.c2j(z) for z in init], 'ops': ops_, 'cuts': []}])[0]
        want = np.array([common.j2c(z) for z in out['final']])
        ctx.case(['subcircuit-op', nq, k, controlled, [repr(o) for o in body_ops]], True)
        rep = {'lines': [{'circuit': repr(wrapped), 'repetitions': k, 'controlled': controlled}], 'theorem_or_correspondence': 'applyOps via runArr_refines'}
        entries = {
            'Circuit.unitary': lambda: wrapped.unitary(qubit_order=order)[:, 0],
            'Circuit.final_state_vector': lambda: wrapped.final_state_vector(qubit_order=order, dtype=np.complex128),
            'Simulator.simulate': lambda: cirq.Simulator(dtype=np.complex128).simulate(wrapped, qubit_order=order).final_state_vector,
            'Simulator[split=False].simulate': lambda: cirq.Simulator(dtype=np.complex128, split_untangled_states=False).simulate(wrapped, qubit_order=order).final_state_vector,
            'DensityMatrixSimulator.simulate': lambda: np.diag(cirq.DensityMatrixSimulator(dtype=np.complex128).simulate(wrapped, qubit_order=order).final_density_matrix),
        }
        for name, f in entries.items():
            ctx.count('entry', 'subcircuit:' + name)
            got = f()
            bad = not np.allclose(np.abs(got) if name.startswith('Density') else got, np.abs(want) ** 2 if name.startswith('Density') else want, atol=1e-6)
            if bad:
                ctx.report_witness('entry:subcircuit:' + name.split('[')[0], f'{name} of a circuit with a repeated (possibly inverted, possibly controlled) sub-circuit operation differs from the ordered product of its flat form',
                                   dict(rep, impl_out=[str(np.round(got, 6).tolist())], spec_out=[str(np.round(want, 6).tolist())]))
        # the matrix of the operation by itself
        if not controlled:
            sub_q = sorted(co.qubits)
            u_want = cirq.Circuit(flat).unitary(qubit_order=sub_q)
            ops2, _ = to_lines(cirq, cirq.Circuit(flat), sub_q)
            cols = []
            for b in range(2 ** len(sub_q)):
                e = np.zeros(2 ** len(sub_q), dtype=np.complex128)
                e[b] = 1
                o2 = ctx.driver.ask([{'p': 'C01', 'op': 'run', 'shape': [2] * len(sub_q), 'init': [common.c2j(z) for z in e], 'ops': ops2, 'cuts': []}])[0]
                cols.append(np.array([common.j2c(z) for z in o2['final']]))
            u_lean = np.array(cols).T
            got_u = cirq.unitary(co)
            ctx.count('entry', 'subcircuit:cirq.unitary(op)')
            if not np.allclose(got_u, u_lean, atol=1e-6):
                ctx.report_witness('entry:subcircuit:unitary-of-operation', 'cirq.unitary of a repeated (possibly inverted) sub-circuit operation differs from the ordered product of its flat form',
                                   dict(rep, impl_out=[str(np.round(got_u, 6).tolist())], spec_out=[str(np.round(u_lean, 6).tolist())]))


def check_sweep(ctx, cirq, rng, circuit, qids):
    """simulate_sweep (prefix reuse across resolvers) equals simulating each resolved circuit"""
    import sympy

    syms = [sympy.Symbol('a'), sympy.Symbol('b')]
    new_moments, makers, used = [], [], 0
    for moment in circuit:
        new_ops, mk_ops = [], []
        for op in moment.operations:
            g = op.gate
            if isinstance(g, cirq.EigenGate) and rng.random() < 0.4 and not cirq.is_parameterized(op):
                expr = rng.choice([syms[0], syms[1], syms[0] + syms[1], 2 * syms[0], syms[1] - 0.5])
                new_ops.append((g**1)._with_exponent(expr).on(*op.qubits))
                mk_ops.append(lambda env, g=g, op=op, expr=expr: (g**1)._with_exponent(float(expr.subs(env))).on(*op.qubits))
                used += 1
            elif isinstance(g, cirq.ControlledGate) and isinstance(g.sub_gate, cirq.EigenGate) and rng.random() < 0.7 and not cirq.is_parameterized(op):
                # a symbolic gate under controls with any control values: resolution must keep the controls as they are
                expr = rng.choice([syms[0], syms[1], syms[0] + syms[1]])
                ctl = lambda sub, g=g: cirq.ControlledGate(sub, num_controls=g.num_controls(), control_values=g.control_values, control_qid_shape=g.control_qid_shape)
                new_ops.append(ctl((g.sub_gate**1)._with_exponent(expr)).on(*op.qubits))
                mk_ops.append(lambda env, g=g, op=op, expr=expr, ctl=ctl: ctl((g.sub_gate**1)._with_exponent(float(expr.subs(env)))).on(*op.qubits))
                used += 1
            else:
                new_ops.append(op)
                mk_ops.append(lambda env, op=op: op)
        new_moments.append(cirq.Moment(new_ops))
        makers.append(mk_ops)
    if not used:
        return
    sym_circuit = cirq.Circuit(new_moments)
    resolvers = [cirq.ParamResolver({'a': rng.choice([0, 0.5, 1, 0.37]), 'b': rng.choice([0.25, -1, 1.5, 0.11])}) for _ in range(3)]
    # the numeric circuit of each resolver is built here by substituting into the expressions (not by Cirq's resolution)
    numeric = lambda r: cirq.Circuit(cirq.Moment(mk({syms[0]: r.param_dict['a'], syms[1]: r.param_dict['b']}) for mk in mk_ops) for mk_ops in makers)
    order = list(qids)
    rng.shuffle(order)
    dims = [2] * len(order)
    size = 2 ** len(order)
    k = rng.randrange(size)
    basis = np.zeros(size, dtype=np.complex128)
    basis[k] = 1
    reqs = []
    for r in resolvers:
        ops, cuts = to_lines(cirq, numeric(r), order)
        reqs.append({'p': 'C01', 'op': 'run', 'shape': dims, 'init': [common.c2j(z) for z in basis], 'ops': ops, 'cuts': []})
    outs = ctx.driver.ask(reqs)
    for split in (False, True):
        sim = cirq.Simulator(dtype=np.complex128, split_untangled_states=split)
        results = sim.simulate_sweep(sym_circuit, params=resolvers, qubit_order=order, initial_state=k)
        ctx.count('entry', 'Simulator.simulate_sweep')
        for r, res, out in zip(resolvers, results, outs):
            want = np.array([common.j2c(z) for z in out['final']])
            ctx.case({'sweep': reqs[0]['ops'], 'r': repr(r)}, True)
            if not vec_close(res.final_state_vector, want, 1e-7):
                ctx.report_witness(
                    'entry:Simulator.simulate_sweep',
                    'simulate_sweep differs from simulating the resolved circuit (ordered product)',
                    {'lines': [{'circuit': repr(sym_circuit), 'resolver': repr(r), 'order': [repr(q) for q in order], 'init': k}],
                     'impl_out': [str(np.round(res.final_state_vector[:16], 6).tolist())], 'spec_out': [str(np.round(want[:16], 6).tolist())],
                     'theorem_or_correspondence': 'applyOps via runArr_refines'})


def classical_vector(cirq, circuit, order, k, dims, split=False):
    bits = cirq.big_endian_int_to_digits(k, base=dims)
    res = cirq.ClassicalStateSimulator(split_untangled_states=split).simulate(circuit, initial_state=bits, qubit_order=order)
    final = res._final_simulator_state
    if split:
        final = final.create_merged_state()
        # the merged state lists the qubits in its own order: read the digits back in the requested order
        pos = {q: i for i, q in enumerate(final.qubits)}
        final_bits = [int(final._state.basis[pos[q]]) for q in order]
    else:
        final_bits = [int(b) for b in final._state.basis]
    idx = cirq.big_endian_digits_to_int(final_bits, base=dims)
    v = np.zeros(int(np.prod(dims)), dtype=np.complex128)
    v[idx] = 1
    return v


def replay(ctx, rep):
    print(json.dumps(rep, indent=1)[:3000])
    return 1
