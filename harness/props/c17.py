"""C17 — Vendor job payloads mean the same as the circuit they were built from.

Lean: Spec/Vendor.lean transcribes the vendors' gate definitions (IonQ QIS + native gates, AQT operations) and the
little-endian outcome encoding; Props/C17 evaluates the parameter-free IonQ gates exactly (kernel-decided identities:
v*v = x, s*s = z, t*t = s, v = e^{i pi/4} rx(pi/2), xx(pi) = -i XX, ...) and proves the outcome encoding round trip for
every register width (C17_leBits_leValue, C17_leValue_leBits).  Tie (T2): the payload the real serializer / sampler
produces is interpreted gate by gate with those definitions by the compiled Lean interpreter and compared, up to a
global phase, with the Lean ordered product of the circuit's operation matrices (C01); measurement metadata and the
conversion of vendor results back to cirq results are compared with the model of the encoding.
"""
from __future__ import annotations

import collections
import json
import math

import numpy as np

from harness import common, gen
from harness.props.c19 import phase_close
from harness.scripted import enumerate_branches

MODULES = ['CirqVerif.Props.C17', 'CirqVerif.Props.C17b', 'NonVacuity.ComplexModel']


def mat(out):
    return np.array([[common.j2c(z) for z in row] for row in out])


# ------------------------------------------------------------------------------ IonQ
def ionq_circuit(cirq, cirq_ionq, rng, native):
    n = rng.randint(1, 4)
    qs = cirq.LineQubit.range(n)
    ops = []
    for _ in range(rng.randint(1, 8)):
        k = min(rng.choice([1, 1, 2]), n)
        t = rng.sample(qs, k)
        e = gen.rand_exponent(rng)
        if rng.random() < 0.25:
            # exponents at and next to the serializer's special cases and its tolerance
            e = rng.choice([1, 0.5, -0.5, 0.25, -0.25, 3, 2.5, 1.5, -1.5]) + rng.choice([0, 0, 1e-10, -1e-10, 2e-8, -2e-8, 1e-6])
        if native:
            if k == 1:
                g = rng.choice([cirq_ionq.GPIGate(phi=rng.uniform(-1, 1)), cirq_ionq.GPI2Gate(phi=rng.uniform(-1, 1)), cirq_ionq.GPIGate(phi=rng.choice([0, 0.25, 0.5]))])
            else:
                g = rng.choice([cirq_ionq.MSGate(phi0=rng.uniform(-1, 1), phi1=rng.uniform(-1, 1), theta=rng.choice([0.25, 0.1, rng.uniform(0, 0.25)])),
                                cirq_ionq.ZZGate(theta=rng.uniform(-0.25, 0.25)), cirq_ionq.MSGate(phi0=0, phi1=0)])
        elif k == 1:
            g = rng.choice([cirq.X**e, cirq.Y**e, cirq.Z**e, cirq.H, cirq.rx(rng.uniform(-7, 7)), cirq.ry(rng.uniform(-7, 7)), cirq.rz(rng.uniform(-7, 7)),
                            cirq.XPowGate(exponent=e, global_shift=gen.rand_shift(rng)), cirq.ZPowGate(exponent=e, global_shift=gen.rand_shift(rng)), cirq.S, cirq.T**-1, cirq.X, cirq.H**1.0])
        else:
            g = rng.choice([cirq.CNOT, cirq.SWAP, cirq.XX**e, cirq.YY**e, cirq.ZZ**e, cirq.XXPowGate(exponent=e, global_shift=gen.rand_shift(rng)), cirq.CNOT**1.0])
        if not native and rng.random() < 0.2:
            # a Pauli-string rotation on 1..3 qubits in any order (IonQ `pauliexp`); only non-negative evolution times are accepted
            kk = rng.randint(1, n)
            tq = rng.sample(qs, kk)
            ps = cirq.DensePauliString([rng.choice([cirq.X, cirq.Y, cirq.Z, cirq.I]) for _ in tq], coefficient=rng.choice([1, 1, -1]))
            en, ep = sorted([rng.choice([0, 0.25, 0.5, rng.uniform(0, 1)]), rng.choice([0, 0.1, rng.uniform(0, 1)])], reverse=True)
            ops.append(cirq.PauliStringPhasorGate(ps, exponent_neg=en, exponent_pos=ep).on(*tq))
            continue
        ops.append(g.on(*t))
    # terminal measurements: one or two keys on qubit subsets in any order
    meas = []
    free = list(qs)
    rng.shuffle(free)
    nkeys = rng.choice([0, 1, 1, 2])
    for j in range(nkeys):
        if not free:
            break
        take = rng.randint(1, len(free)) if j == nkeys - 1 else rng.randint(1, max(1, len(free) - 1))
        tq, free = free[:take], free[take:]
        meas.append(cirq.measure(*tq, key=rng.choice(['a', 'bb', 'result', 'k 2', 'm_key'])[:6] + str(j)))
    return cirq.Circuit(ops, meas), qs, meas


def ionq_gates_to_lean(body):
    native = body.get('gateset') == 'native'
    out = []
    for g in body['circuit']:
        name = g['gate']
        if native:
            if name in ('gpi', 'gpi2'):
                out.append({'family': 'native', 'name': name, 'qs': [g['target']], 'params': [common.f2b(g['phase']), common.f2b(0.0), common.f2b(0.0)]})
            elif name == 'ms':
                out.append({'family': 'native', 'name': name, 'qs': list(g['targets']), 'params': [common.f2b(g['phases'][0]), common.f2b(g['phases'][1]), common.f2b(g.get('angle', 0.25))]})
            elif name == 'zz':
                out.append({'family': 'native', 'name': name, 'qs': list(g['targets']), 'params': [common.f2b(0.0), common.f2b(0.0), common.f2b(g['phase'])]})
            else:
                out.append({'family': 'native', 'name': '?' + name, 'qs': [0], 'params': []})
        elif name == 'pauliexp':
            if len(g['terms']) != 1:
                out.append({'family': 'qis', 'name': '?pauliexp-multi', 'qs': [0], 'params': []})
            else:
                out.append({'family': 'pauliexp', 'name': g['terms'][0], 'qs': list(g['targets']), 'params': [common.f2b(float(g['time']) * float(g['coefficients'][0]))]})
        else:
            if name == 'cnot':
                qs = [g['control'], g['target']]
            else:
                qs = list(g['targets']) if 'targets' in g else [g['target']]
            out.append({'family': 'qis', 'name': name, 'qs': qs, 'params': [common.f2b(float(g.get('rotation', 0.0)))]})
    return out


def parse_ionq_metadata(metadata):
    parts = ''.join(metadata[k] for k in sorted(metadata) if k.startswith('measurement'))
    res = {}
    if parts:
        for rec in parts.split(chr(30)):
            key, targets = rec.split(chr(31))
            res[key] = [int(x) for x in targets.split(',')]
    return res


def check_ionq(ctx, cirq, cirq_ionq, n):
    rng = ctx.substream('ionq')
    ser = cirq_ionq.Serializer()
    reqs, meta = [], []
    for i in range(n):
        native = rng.random() < 0.3
        circuit, qs, meas = ionq_circuit(cirq, cirq_ionq, rng, native)
        try:
            prog = ser.serialize_single_circuit(circuit)
        except ValueError as e:
            ctx.count('ionq_rejected', str(e)[:50])
            continue
        except Exception as e:  # noqa: BLE001  (the pauliexp limitation is reported with a non-ValueError exception class)
            if type(e).__name__ != 'NotSupportedPauliexpParameters':
                raise
            ctx.count('ionq_rejected', 'negative pauliexp time')
            continue
        body = prog.input
        unitary_part = cirq.Circuit(op for op in circuit.all_operations() if not cirq.is_measurement(op))
        nq = body['qubits']
        order = cirq.LineQubit.range(nq)
        ops = [{'m': [common.c2j(z) for z in cirq.unitary(op).reshape(-1)], 'axes': [q.x for q in op.qubits]} for op in unitary_part.all_operations()]
        reqs.append({'p': 'C17', 'op': 'unitary', 'nq': nq, 'gates': ionq_gates_to_lean(body)})
        reqs.append({'p': 'C01', 'op': 'unitary', 'shape': [2] * nq, 'ops': ops})
        meta.append((circuit, body, prog.metadata, meas))
        # several circuits in one job: each entry is the single-circuit serialization
        if i % 6 == 0:
            c2, _, _ = ionq_circuit(cirq, cirq_ionq, rng, native)
            try:
                many = ser.serialize_many_circuits([circuit, c2])
                singles = [ser.serialize_single_circuit(c).input['circuit'] for c in (circuit, c2)]
                got = [c['circuit'] for c in many.input['circuits']]
                ctx.count('check', 'ionq-many')
                if got != singles:
                    ctx.report_witness('ionq:many', 'serialize_many_circuits differs from serializing each circuit by itself', {'lines': [{'circuits': [repr(circuit), repr(c2)]}], 'impl_out': [got],
                                                                                                                         'spec_out': [singles], 'theorem_or_correspondence': 'payload'})
            except Exception as e:  # noqa: BLE001
                if not isinstance(e, ValueError) and type(e).__name__ != 'NotSupportedPauliexpParameters':
                    raise
                ctx.count('ionq_rejected', 'many:' + str(e)[:40])
    outs = ctx.driver.ask(reqs)
    for j, (circuit, body, metadata, meas) in enumerate(meta):
        v_out, c_out = outs[2 * j], outs[2 * j + 1]
        nontrivial = sum(1 for g in body['circuit']) >= 2
        ctx.case(['ionq', repr(circuit)], nontrivial, sample={'payload': json.dumps(body)[:400]} if nontrivial and len(ctx.samples) < 2 else None)
        ctx.count('check', 'ionq-unitary:' + body['gateset'])
        body['circuit'] = [g for g in body['circuit'] if g]  # (an identity phasor is serialized as an empty entry)
        for g in body['circuit']:
            ctx.count('ionq_gate', g['gate'])
        rep = {'lines': [{'circuit': repr(circuit), 'payload': body, 'metadata': metadata}]}
        if 'undefined_gate' in v_out:
            g = body['circuit'][v_out['undefined_gate']]
            ctx.report_witness('ionq:undefined-gate', f'the payload uses a gate the IonQ gate set does not define: {g}', dict(rep, impl_out=[g], spec_out=['IonQ gate set'], theorem_or_correspondence='Spec.Vendor.qisMatrix'))
            continue
        got, want = mat(v_out['matrix']), mat(c_out)
        if not phase_close(got, want, 1e-6):
            ctx.report_witness('ionq:unitary:' + body['gateset'], 'the IonQ program, read with IonQ\'s gate definitions, is not the unitary of the circuit (up to global phase)',
                               dict(rep, impl_out=[str(np.round(got, 5).tolist())[:1500]], spec_out=[str(np.round(want, 5).tolist())[:1500]], theorem_or_correspondence='Spec.Vendor vs applyOps'))
        # every measurement key is mapped to its targets, in order
        want_map = {cirq.measurement_key_name(m): [q.x for q in m.qubits] for m in meas}
        got_map = parse_ionq_metadata(metadata)
        ctx.count('check', 'ionq-measurement-map')
        if got_map != want_map:
            ctx.report_witness('ionq:measurement-map', 'the measurement metadata does not map every key to its targets', dict(rep, impl_out=[got_map], spec_out=[want_map], theorem_or_correspondence='measurement metadata'))


class FakeIonqClient:
    def __init__(self, histogram):
        self.histogram = histogram

    def get_results(self, job_id, sharpen=None, extra_query_params=None):
        return self.histogram

    def get_job(self, job_id):  # pragma: no cover
        raise AssertionError('terminal job is not refreshed')


def check_ionq_results(ctx, cirq, cirq_ionq, n):
    rng = ctx.substream('ionq-results')
    reqs, meta = [], []
    for i in range(n):
        nq = rng.randint(1, 5)
        keys = {}
        free = list(range(nq))
        rng.shuffle(free)
        for j in range(rng.choice([1, 2, 2, 3])):
            if not free:
                break
            take = rng.randint(1, len(free))
            keys[f'k{j}'], free = free[:take], free[take:]
        shots = rng.choice([1, 10, 100])
        support = rng.sample(range(2**nq), min(2**nq, rng.randint(1, 6)))
        if i == 0:
            # corpus (seeded change C17-m3): three outcomes, two keys - the rows of different keys must come from the same shot
            nq, keys, support = 2, {'k0': [0], 'k1': [1]}, [0, 2, 1]
        if i == 0 or rng.random() < 0.75:
            counts = [rng.randint(1, 5) for _ in support] if i else [1, 2, 1]
            tot = sum(counts)
            shots = tot
            hist = {str(v): c / tot for v, c in zip(support, counts)}
        else:
            hist = {str(support[0]): 1.0}
        md = {'shots': str(shots)}
        md.update({'measurement0': chr(30).join(f'{k}{chr(31)}{",".join(map(str, t))}' for k, t in keys.items())})
        for backend in ('qpu.harmony', 'simulator'):
            job = cirq_ionq.Job(client=FakeIonqClient(hist), job_dict={'id': 'j', 'status': 'completed', 'backend': backend, 'qubits': str(nq), 'stats': {'qubits': str(nq)}, 'metadata': md})
            res = job.results()
            cr = res.to_cirq_result() if backend.startswith('qpu') else res.to_cirq_result(seed=rng.randrange(2**31))
            rows = list(zip(*[[tuple(int(b) for b in row) for row in cr.measurements[k]] for k in keys]))
            exact = None
            if not backend.startswith('qpu'):
                # the exact distribution of one sampled shot, by enumerating the draws of a scripted generator
                def once(prng, res=res, keys=keys):
                    one = res.to_cirq_result(seed=prng, override_repetitions=1)
                    return tuple(tuple(int(b) for b in one.measurements[k][0]) for k in keys)
                try:
                    exact = enumerate_branches(once, max_branches=200)
                except (RuntimeError, TypeError, AttributeError) as e:
                    ctx.count('ionq_exact_skipped', type(e).__name__)
            reqs.append({'p': 'C17', 'op': 'le_bits', 'n': nq, 'values': [int(v) for v in hist]})
            meta.append((backend, nq, keys, hist, shots, rows, exact))
    for (backend, nq, keys, hist, shots, rows, exact), out in zip(meta, ctx.driver.ask(reqs)):
        # the model: outcome integer -> bit of qubit k (little endian) -> the bits of every key's targets
        expect = {}
        for (v, p), bits in zip(hist.items(), out):
            kk = tuple(tuple(bits[t] for t in targets) for targets in keys.values())
            expect[kk] = expect.get(kk, 0.0) + p
        ctx.case(['ionq-result', backend, nq, sorted(keys.items()), sorted(hist.items())], len(hist) >= 2 or nq >= 2)
        ctx.count('check', 'ionq-results:' + backend.split('.')[0])
        got = collections.Counter(rows)
        rep = {'lines': [{'backend': backend, 'qubits': nq, 'measurement_keys': keys, 'little_endian_histogram': hist, 'shots': shots}], 'theorem_or_correspondence': 'Spec.Vendor.leBits (C17_leBits_leValue)'}
        bad = [r for r in got if r not in expect]
        if bad:
            ctx.report_witness('ionq:results:' + backend.split('.')[0], 'converted results contain an outcome that the histogram does not (bits assigned to the wrong key or qubit)',
                               dict(rep, impl_out=[sorted(map(str, got))[:8]], spec_out=[sorted(map(str, expect))[:8]]))
        elif exact is not None and any(abs(exact.get(r, 0.0) - pr) > 1e-9 for r, pr in list(expect.items()) + [(r, expect.get(r, 0.0)) for r in exact]):
            ctx.count('check', 'ionq-results:simulator-weights')
            ctx.report_witness('ionq:results:simulator-weights', 'a shot sampled from simulator probabilities has another distribution than the histogram (weights attached to the wrong outcomes)',
                               dict(rep, impl_out=[sorted((str(r), round(p, 9)) for r, p in exact.items())], spec_out=[sorted((str(r), round(p, 9)) for r, p in expect.items())]))
        elif backend.startswith('qpu') and (sum(got.values()) != shots or any(abs(c - shots * expect[r]) > len(hist) for r, c in got.items())):
            ctx.report_witness('ionq:results:counts', 'converted QPU results do not reproduce the histogram counts', dict(rep, impl_out=[sorted((str(r), c) for r, c in got.items())], spec_out=[sorted((str(r), p) for r, p in expect.items())]))


# ------------------------------------------------------------------------------ AQT
def check_ionq_batches(ctx, cirq, cirq_ionq):
    """a batch job: the i-th result belongs to the i-th circuit — its histogram is read with that circuit's keys, targets and width —
    whatever the child-job ids look like (the service lists the children in submission order).  Deterministic X-only circuits, the
    histograms are computed here from the serialized program."""
    rng = ctx.substream('ionq-batches')
    for it in range(6 if ctx.tier == 'quick' else 60):
        nc = rng.randint(2, 4)
        circuits_, want = [], []
        for j in range(nc):
            nq = rng.randint(1, 3)
            qs = cirq.LineQubit.range(nq)
            flips = [rng.randint(0, 1) for _ in qs]
            if not any(flips):
                flips[rng.randrange(nq)] = 1
            order = list(range(nq))
            rng.shuffle(order)
            key = f'k{j}'
            circuits_.append(cirq.Circuit([cirq.X(q) for q, f in zip(qs, flips) if f], cirq.measure(*[qs[i] for i in order], key=key)))
            want.append((key, [flips[i] for i in order]))
        prog = cirq_ionq.Serializer().serialize_many_circuits(circuits_)
        hists = []
        for c in prog.input['circuits']:
            bits = {}
            for op in c['circuit']:
                for t in op['targets']:
                    bits[t] = bits.get(t, 0) ^ 1
            hists.append({str(sum(b << i for i, b in bits.items())): 1.0})
        ids = [f'{rng.randrange(16 ** 8):08x}-0000-4000-8000-{j:012d}' for j in range(nc)]
        if ids == sorted(ids):
            ids.reverse()
        backend_results = dict(zip(ids, hists))

        class Stub:
            def get_results(self, job_id, sharpen=None, extra_query_params=None):
                return backend_results

        for target in ('qpu', 'simulator'):
            job = cirq_ionq.Job(Stub(), {'id': 'parent', 'status': 'completed', 'backend': target, 'stats': {'qubits': str(prog.input['qubits'])}, 'metadata': {'shots': '3', **prog.metadata}})
            ctx.count('check', 'ionq:batch-results')
            ctx.case(['ionq-batch', nc, target, ids], True)
            try:
                res = job.results()
                got = []
                for r in res:
                    cr = r.to_cirq_result(seed=1) if target == 'simulator' else r.to_cirq_result()
                    got.append([(k, [int(x) for x in v[0]]) for k, v in cr.measurements.items()])
            except Exception as e:  # noqa: BLE001
                got = f'{type(e).__name__}: {e}'[:150]
            if got != [[w] for w in want]:
                ctx.report_witness('ionq:results:batch', 'the results of a batch job are not read back per circuit in submission order (keys / bits of one circuit under another)',
                                   {'lines': [{'circuits': [repr(c) for c in circuits_], 'child_ids': ids, 'target': target}], 'impl_out': [got], 'spec_out': [[[w] for w in want]],
                                    'theorem_or_correspondence': 'little-endian outcome encoding per circuit (Spec.Vendor)'})
                break


def check_aqt(ctx, cirq, n):
    import cirq_aqt

    rng = ctx.substream('aqt')
    sampler = cirq_aqt.AQTSampler(workspace='w', resource='r', access_token='t') if 'workspace' in cirq_aqt.AQTSampler.__init__.__code__.co_varnames else cirq_aqt.AQTSampler('url', 'token')
    reqs, meta = [], []
    for i in range(n):
        nq = rng.randint(1, 4)
        qs = cirq.LineQubit.range(nq)
        ops = []
        sym = None
        for _ in range(rng.randint(1, 7)):
            k = min(rng.choice([1, 1, 2]), nq)
            t = rng.sample(qs, k)
            e = gen.rand_exponent(rng)
            if k == 2:
                g = rng.choice([cirq.XX**e, cirq.XXPowGate(exponent=e, global_shift=gen.rand_shift(rng)), cirq.ms(rng.uniform(-2, 2))])
            else:
                if rng.random() < 0.2:
                    e = rng.choice([1.0, -1.0, 0.5, -0.5, 2.0])  # full and half pulses about an arbitrary axis
                g = rng.choice([cirq.Z**e, cirq.ZPowGate(exponent=e, global_shift=gen.rand_shift(rng)), cirq.PhasedXPowGate(phase_exponent=gen.rand_exponent(rng), exponent=e),
                                cirq.PhasedXPowGate(phase_exponent=rng.uniform(-2, 2), exponent=e, global_shift=gen.rand_shift(rng)), cirq.rz(rng.uniform(-5, 5))])
            ops.append(g.on(*t))
        circuit = cirq.Circuit(ops)
        try:
            js = sampler._generate_json(circuit=circuit, param_resolver=cirq.ParamResolver({}))
        except (ValueError, RuntimeError) as e:
            ctx.count('aqt_rejected', str(e)[:50])
            continue
        payload = json.loads(js)
        gates = []
        for entry in payload:
            if entry[0] == 'R':
                gates.append({'family': 'aqt', 'name': 'R', 'qs': entry[3], 'params': [common.f2b(entry[1]), common.f2b(entry[2])]})
            else:
                gates.append({'family': 'aqt', 'name': entry[0], 'qs': entry[2], 'params': [common.f2b(entry[1]), common.f2b(0.0)]})
        lops = [{'m': [common.c2j(z) for z in cirq.unitary(op).reshape(-1)], 'axes': [q.x for q in op.qubits]} for op in circuit.all_operations()]
        reqs.append({'p': 'C17', 'op': 'unitary', 'nq': nq, 'gates': gates})
        reqs.append({'p': 'C01', 'op': 'unitary', 'shape': [2] * nq, 'ops': lops})
        meta.append((circuit, payload))
    outs = ctx.driver.ask(reqs)
    for j, (circuit, payload) in enumerate(meta):
        v_out, c_out = outs[2 * j], outs[2 * j + 1]
        ctx.case(['aqt', repr(circuit)], len(payload) >= 2)
        ctx.count('check', 'aqt-unitary')
        rep = {'lines': [{'circuit': repr(circuit), 'payload': payload}]}
        if 'undefined_gate' in v_out:
            ctx.report_witness('aqt:undefined-gate', f'the payload uses an operation AQT does not define: {payload[v_out["undefined_gate"]]}', dict(rep, impl_out=[payload[v_out['undefined_gate']]], spec_out=['R / MS / Z'],
                               theorem_or_correspondence='Spec.Vendor.aqtMatrix'))
            continue
        got, want = mat(v_out['matrix']), mat(c_out)
        # the local stand-in for the AQT service reads the same operation list: the circuit it runs must mean what the list means
        try:
            from cirq_aqt.aqt_device import AQTSimulator
            nq_ = len(got).bit_length() - 1
            sim_ = AQTSimulator(num_qubits=nq_, simulate_ideal=True)
            sim_.generate_circuit_from_list(json.dumps(payload))
            body = cirq.Circuit(op for op in sim_.circuit.all_operations() if not cirq.is_measurement(op))
            qs_ = cirq.LineQubit.range(nq_)
            local_u = body.unitary(qubit_order=qs_, qubits_that_should_be_present=qs_)
            ctx.count('check', 'aqt-local-simulator')
            if not phase_close(local_u, got, 1e-6):
                ctx.report_witness('aqt:local-simulator', 'the local AQT simulator runs another circuit than the operation list describes (AQT gate definitions)',
                                   dict(rep, impl_out=[str(np.round(local_u, 5).tolist())[:1500]], spec_out=[str(np.round(got, 5).tolist())[:1500]], theorem_or_correspondence='Spec.Vendor.aqtMatrix'))
        except (ImportError, AttributeError, TypeError) as e:
            ctx.count('aqt_local_skipped', type(e).__name__)
        if not phase_close(got, want, 1e-6):
            ctx.report_witness('aqt:unitary', 'the AQT operation list, read with AQT\'s gate definitions, is not the unitary of the circuit (up to global phase)',
                               dict(rep, impl_out=[str(np.round(got, 5).tolist())[:1500]], spec_out=[str(np.round(want, 5).tolist())[:1500]], theorem_or_correspondence='Spec.Vendor vs applyOps'))


def check_altered(ctx, cirq, cirq_ionq):
    """content the vendor format cannot express is rejected rather than altered; AQT samples are reported under the circuit's key"""
    import cirq_aqt

    q = cirq.LineQubit.range(2)
    ser = cirq_ionq.Serializer()
    for name, m in (('invert-mask', cirq.measure(q[0], key='a', invert_mask=(True,))), ('confusion-map', cirq.measure(q[0], key='a', confusion_map={(0,): np.array([[0.0, 1.0], [1.0, 0.0]])}))):
        ctx.count('check', 'ionq-altered:' + name)
        try:
            prog = ser.serialize_single_circuit(cirq.Circuit(cirq.X(q[0]), m))
        except ValueError:
            continue
        ctx.report_witness('ionq:altered-measurement', f'a measurement with {name} is submitted as a plain measurement (and reported back without it)',
                           {'lines': [{'measurement': repr(m)}], 'impl_out': [prog.input['circuit'], prog.metadata], 'spec_out': ['rejected'], 'theorem_or_correspondence': 'unsupported content is rejected'})
    # a key measured twice cannot be mapped back (the key -> targets map is a dict): rejected, also across several circuits
    for name, build in (('single', lambda: ser.serialize_single_circuit(cirq.Circuit(cirq.measure(q[0], key='a'), cirq.measure(q[1], key='a')))),
                        ('many', lambda: ser.serialize_many_circuits([cirq.Circuit(cirq.X(q[0]), cirq.measure(q[0], key='a'), cirq.X(q[1]), cirq.measure(q[1], key='a'))]))):
        ctx.count('check', 'ionq-altered:repeated-key')
        try:
            prog = build()
        except ValueError:
            continue
        ctx.report_witness('ionq:repeated-key', 'a circuit measuring one key twice is submitted although only one of the measurements can be mapped back',
                           {'lines': [{'entry': name}], 'impl_out': [prog.metadata], 'spec_out': ['rejected'], 'theorem_or_correspondence': 'unsupported content is rejected'})
    # AQT local (ideal) sampler: a basis-state circuit, measured under a user key
    sampler = cirq_aqt.AQTSamplerLocalSimulator(simulate_ideal=True)
    for flips in ([1, 0, 1], [0, 1], [1]):
        qs = cirq.LineQubit.range(len(flips))
        circuit = cirq.Circuit([cirq.PhasedXPowGate(phase_exponent=0.0, exponent=1.0).on(qq) for qq, f in zip(qs, flips) if f] or [cirq.Z(qs[0]) ** 0.5])  # (the AQT sampler measures all qubits itself, under the fixed key 'm')
        ctx.count('check', 'aqt-sample')
        try:
            res = sampler.run_sweep(circuit, params=cirq.ParamResolver({}), repetitions=3)[0]
        except (ValueError, RuntimeError) as e:
            ctx.count('aqt_rejected', str(e)[:40])
            continue
        except IndexError as e:
            ctx.report_witness('aqt:sample-bits', f'the AQT sampler cannot run a circuit that skips a qubit index: {e}', {'lines': [{'circuit': repr(circuit)}], 'impl_out': [str(e)], 'spec_out': [flips],
                               'theorem_or_correspondence': 'samples are assigned to the right qubits'})
            continue
        rep = {'lines': [{'circuit': repr(circuit)}], 'theorem_or_correspondence': 'samples are assigned to the circuit\'s key and qubits'}
        if sorted(res.measurements) != ['m']:
            ctx.report_witness('aqt:measurement-key', 'AQT samples are not reported under the documented key m', dict(rep, impl_out=[sorted(res.measurements)], spec_out=['m']))
        data = next(iter(res.measurements.values()))
        if [int(x) for x in data[0]] != flips:
            ctx.report_witness('aqt:sample-bits', 'AQT samples assign outcomes to the wrong qubits', dict(rep, impl_out=[data.astype(int).tolist()], spec_out=[flips]))


def check_metadata_reuse(ctx, cirq, cirq_ionq):
    """one metadata dictionary handed to the serializer for several circuits in a row: the measurement map of each job is that of its own
    circuit (nothing left over from a previous one), and the caller's dictionary is left as it was"""
    rng = ctx.substream('metadata-reuse')
    ser = cirq_ionq.Serializer()
    q = cirq.LineQubit.range(3)
    for it in range(10 if ctx.tier == 'quick' else 100):
        md = {'user': 'x'}
        keep = dict(md)
        for step in range(3):
            keys = {}
            for j in range(rng.choice([1, 2, 3])):
                name = rng.choice('abcdefgh') * rng.choice([1, 12, 25])
                if name in keys:
                    continue
                keys[name] = rng.sample(range(3), rng.choice([1, 2]))
            circuit = cirq.Circuit(cirq.X(q[0]), *[cirq.measure(*[q[t] for t in ts], key=k) for k, ts in keys.items()])
            ctx.count('check', 'ionq-metadata-reuse')
            for form in ('single', 'many'):
                try:
                    prog = ser.serialize_single_circuit(circuit, metadata=md) if form == 'single' else ser.serialize_many_circuits([circuit], metadata=md)
                except ValueError as e:
                    ctx.count('ionq_rejected', str(e)[:40])
                    continue
                rep = {'lines': [{'circuit': repr(circuit), 'form': form, 'step': step}], 'theorem_or_correspondence': 'measurement metadata'}
                if md != keep:
                    ctx.report_witness('ionq:metadata:caller-dict', 'the serializer modifies the metadata dictionary it is given (entries of this circuit leak into the next job)', dict(rep, impl_out=[sorted(md)], spec_out=[sorted(keep)]))
                    md = dict(keep)
                if form == 'single':
                    try:
                        got_map = parse_ionq_metadata(prog.metadata)
                    except ValueError as e:
                        got_map = f'unreadable: {e}'
                    if got_map != keys:
                        ctx.report_witness('ionq:measurement-map', 'the measurement metadata does not map every key to its targets', dict(rep, impl_out=[got_map], spec_out=[keys]))


def check_rules(ctx, cirq, cirq_ionq):
    """the serializer writes exactly the gate names and rotations whose meaning Props/C17b.lean proves for every exponent"""
    rng = ctx.substream('rules')
    ser = cirq_ionq.Serializer()
    a, b = cirq.LineQubit.range(2)
    for it in range(30 if ctx.tier == 'quick' else 400):
        while True:
            t = round(rng.uniform(-1.9, 1.9), 4)
            if min(abs(t - x) for x in (-2, -1.75, -1.5, -1.25, -1, -0.75, -0.5, -0.25, 0, 0.25, 0.5, 0.75, 1, 1.25, 1.5, 1.75, 2)) > 2e-3:
                break
        shift = rng.choice([0, -0.5, 0.25])
        cases = [
            ('C17_rule_rx', cirq.XPowGate(exponent=t, global_shift=shift).on(a), 'rx', [0]), ('C17_rule_rx', cirq.rx(np.pi * t).on(a), 'rx', [0]),
            ('C17_rule_ry', cirq.YPowGate(exponent=t, global_shift=shift).on(b), 'ry', [1]), ('C17_rule_rz', cirq.ZPowGate(exponent=t, global_shift=shift).on(a), 'rz', [0]),
            ('C17_rule_xx', cirq.XXPowGate(exponent=t, global_shift=shift).on(a, b), 'xx', [0, 1]), ('C17_rule_yy', cirq.YYPowGate(exponent=t, global_shift=shift).on(b, a), 'yy', [1, 0]),
            ('C17_rule_zz', cirq.ZZPowGate(exponent=t, global_shift=shift).on(a, b), 'zz', [0, 1]),
        ]
        for rule, op, name, targets in cases:
            ctx.count('check', 'rule:' + rule)
            ctx.case(['rule', rule, repr(op)], True)
            rep = {'lines': [{'rule': rule, 'op': repr(op)}], 'theorem_or_correspondence': rule}
            try:
                got = [g for g in ser.serialize_single_circuit(cirq.Circuit(op)).input['circuit'] if g]
            except Exception as e:  # noqa: BLE001
                ctx.report_witness(f'rule:{rule}:raises', 'a gate of the accepted vocabulary cannot be serialized', dict(rep, impl_out=[f'{type(e).__name__}: {e}'[:300]], spec_out=[name]))
                continue
            want = {'gate': name, 'targets': targets, 'rotation': t * np.pi}
            ok = len(got) == 1 and got[0].get('gate') == name and list(got[0].get('targets', [])) == targets and abs(got[0].get('rotation', 1e9) - t * np.pi) < 1e-9 and set(got[0]) == set(want)
            if ok:
                continue
            # another spelling is not a violation by itself: the float interpretation of the payload decides
            try:
                out = ctx.driver.ask([{'p': 'C17', 'op': 'unitary', 'nq': 2, 'gates': ionq_gates_to_lean({'circuit': got, 'gateset': 'qis'})}])[0]
                u_got = mat(out['matrix']) if isinstance(out, dict) and 'matrix' in out else None
            except Exception:  # noqa: BLE001
                u_got = None
            u = cirq.Circuit(op).unitary(qubit_order=[a, b], qubits_that_should_be_present=[a, b])
            same = False
            if u_got is not None and u_got.shape == u.shape:
                k = np.argmax(np.abs(u))
                ph = u_got.flat[k] / u.flat[k] if abs(u.flat[k]) > 1e-9 else 1
                same = phase_close(u_got, u, 1e-6)
            if same:
                ctx.report_unproved(rule, 'the gate is no longer serialized with the spelling the theorem is about (the payload still denotes the gate in floats)', dict(rep, impl_out=[got], spec_out=[want]))
            else:
                ctx.report_witness(f'rule:{rule}', 'the serialized gate does not denote the operation', dict(rep, impl_out=[got], spec_out=[want]))


def run(ctx: common.Run):
    import cirq
    import cirq_ionq

    ctx.rule = (
        'IonQ: circuits of 1..8 operations on 1..4 line qubits over the accepted vocabulary (X/Y/Z powers at, next to and away from the special-cased exponents, '
        'global shifts, H, rx/ry/rz, XX/YY/ZZ powers, CNOT, SWAP; native GPI/GPI2/MS/ZZ) with 0..2 terminal measurement keys on qubit subsets in any order, single and '
        'many-circuit jobs; results: little-endian histograms over 1..5 qubits, 1..2 keys, QPU and simulator jobs; AQT: Z / MS / R operation lists on 1..4 qubits; '
        'non-trivial = >= 2 payload operations / >= 2 outcomes or qubits; distinct by repr'
    )
    ctx.trusted += [
        'harness/props/c17.py + lean/Driver/C17.lean (T2 on generated circuits only; 1e-6 tolerance, global phase ignored)',
        'lean/CirqVerif/Spec/Vendor.lean is a transcription of the vendors\' public gate definitions (IonQ QIS / native gates, AQT R, MS=RXX, Z=RZ in units of pi)',
        'IonQ pauliexp gates, job submission (service / sampler HTTP layers), Pasqal payloads and vendor-side parameter range limits are not modelled',
    ]
    ok, failing = ctx.lean(MODULES)
    if not ok:
        ctx.report_unproved('lean-build', f'{failing}', {'theorem_or_correspondence': failing})
        return
    n = 120 if ctx.tier == 'quick' else 2500
    check_ionq(ctx, cirq, cirq_ionq, n)
    check_ionq_results(ctx, cirq, cirq_ionq, n // 2)
    check_ionq_batches(ctx, cirq, cirq_ionq)
    check_aqt(ctx, cirq, n // 2)
    check_altered(ctx, cirq, cirq_ionq)
    check_rules(ctx, cirq, cirq_ionq)
    check_metadata_reuse(ctx, cirq, cirq_ionq)


def replay(ctx, rep):
    print(json.dumps(rep, indent=1)[:3000])
    return 1
