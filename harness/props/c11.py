"""C11 — JSON round-trips every value and keeps reading old documents.

Lean (Model/C11, Props/C11): the shared-object mechanism of the format (VAL / REF markers, keys handed out before the
contents are written, decoder registering a value when its JSON object closes) is modelled on abstract value trees and
proved to round-trip *every* value — any nesting, shared objects inside shared objects, any number of occurrences
(C11_roundtrip, a state-threaded induction with a pending-key invariant).  Tie (T2): for generated nestings of real
circuits the VAL / REF markers of the text `cirq.to_json` emits, in document order, must be those of the model applied
to the tree of `_json_dict_` values; then the value-level clauses of the property are evaluated on an instance pool —
every stored example of every package (eval of the .repr files), generated gates / operations / circuits / sweeps /
results, nested in lists, dicts and circuits: read(write(x)) == x with equal hash and equal repr, eval(repr(x)) == x,
pickle and deepcopy equal; every stored .json / .json_inward document reads to the value of its .repr; qid orderings
are total orders consistent with equality.
"""
from __future__ import annotations

import copy
import datetime
import glob
import io
import itertools
import json
import os
import pickle
import warnings

import numpy as np

from harness import common, gen

MODULES = ['CirqVerif.Props.C11']

PACKAGES = {
    'cirq': 'cirq-core/cirq/protocols/json_test_data',
    'cirq_google': 'cirq-google/cirq_google/json_test_data',
    'cirq_ionq': 'cirq-ionq/cirq_ionq/json_test_data',
    'cirq_aqt': 'cirq-aqt/cirq_aqt/json_test_data',
    'cirq_pasqal': 'cirq-pasqal/cirq_pasqal/json_test_data',
}


def eval_env():
    import importlib

    import networkx as nx
    import pandas as pd
    import sympy

    env = {'pd': pd, 'sympy': sympy, 'np': np, 'datetime': datetime, 'nx': nx}
    for m in PACKAGES:
        env[m] = importlib.import_module(m)
    return env


def flatten_examples(obj):
    return list(obj) if isinstance(obj, list) else [obj]


def safe_eq(a, b):
    try:
        r = a == b
        if isinstance(r, np.ndarray):
            return bool(r.all())
        return bool(r)
    except Exception:
        return None


# ------------------------------------------------------------------------------ VAL / REF skeleton
def abstract(cirq, o, depth=0):
    """the tree of values the encoder traverses, in document order (dict order of `_json_dict_`)"""
    def seq(items):
        items = list(items)
        if not items:
            return 'nil'
        out = 'nil'
        for it in reversed(items):
            out = {'p': [it, out]}
        return out

    if hasattr(o, '_json_dict_'):
        d = o._json_dict_()
        body = seq(abstract(cirq, v, depth + 1) for v in d.values())
        node = {'o': [type(o).__name__, body]}
        return {'s': node} if isinstance(o, cirq.SerializableByKey) else node
    if isinstance(o, dict):
        return seq(abstract(cirq, v, depth + 1) for v in o.values())
    if isinstance(o, (list, tuple, frozenset, set)):
        return seq(abstract(cirq, v, depth + 1) for v in o)
    return repr(o)[:40]


def json_skeleton(text):
    """(is_VAL, key) of the markers in document order"""
    out = []

    def walk(x):
        if isinstance(x, dict):
            t = x.get('cirq_type')
            if t == 'VAL':
                out.append([True, x['key']])
                walk(x['val'])
                return
            if t == 'REF':
                out.append([False, x['key']])
                return
            for v in x.values():
                walk(v)
        elif isinstance(x, list):
            for v in x:
                walk(v)

    walk(json.loads(text))
    return out


def nested_circuits(cirq, rng):
    # LineQubit(-1) and LineQubit(-2) hash alike (CPython: hash(-1) == hash(-2)), so different sub-circuits with equal
    # hashes occur: the memo of shared sub-circuits has to compare values
    qs = rng.choice([cirq.LineQubit.range(3), [cirq.LineQubit(-1), cirq.LineQubit(-2), cirq.LineQubit(0)], [cirq.GridQubit(0, -1), cirq.GridQubit(0, -2), cirq.GridQubit(-1, 1), cirq.GridQubit(-2, 1)]])
    pool = []

    def circ(depth):
        ops = []
        for _ in range(rng.randint(1, 3)):
            if depth > 0 and rng.random() < 0.6:
                sub = rng.choice(pool) if pool and rng.random() < 0.5 else circ(depth - 1)
                ops.append(cirq.CircuitOperation(sub, repetitions=rng.choice([1, 2])))
            else:
                ops.append(rng.choice([cirq.X, cirq.H, cirq.Z])(rng.choice(qs)))
        fc = cirq.FrozenCircuit(ops)
        pool.append(fc)
        if rng.random() < 0.3:
            # a twin on permuted qubits: another value, possibly the same hash
            twin = fc.unfreeze().transform_qubits(dict(zip(qs, qs[1:] + qs[:1]))).freeze()
            pool.append(twin)
        return fc

    top = [circ(rng.choice([1, 2, 3])) for _ in range(rng.randint(1, 3))]
    shape = rng.choice(['circuit', 'list', 'dict', 'op'])
    if shape == 'circuit':
        return cirq.Circuit(cirq.CircuitOperation(c) for c in top)
    if shape == 'list':
        return [top[0], cirq.Circuit(cirq.CircuitOperation(top[-1])), top[0], list(top)]
    if shape == 'dict':
        return {'a': top[0], 'b': [cirq.CircuitOperation(top[-1]), top[0]]}
    return cirq.CircuitOperation(top[0]).repeat(2)


def check_skeleton(ctx, cirq, n):
    rng = ctx.substream('skeleton')
    cases, reqs = [], []
    for _ in range(n):
        obj = nested_circuits(cirq, rng)
        cases.append(obj)
        reqs.append({'p': 'C11', 'op': 'skeleton', 'value': abstract(cirq, obj)})
    for obj, out in zip(cases, ctx.driver.ask(reqs)):
        text = cirq.to_json(obj)
        got = json_skeleton(text)
        ctx.case(['skeleton', text], len(got) >= 2)
        ctx.count('check', 'val-ref-skeleton')
        ctx.count('markers', str(min(len(got), 9)))
        if not out['roundtrip']:
            raise common.InfraError('model round trip failed (contradicts C11_roundtrip)')
        if got != out['skeleton']:
            ctx.report_witness('json:skeleton', 'the VAL / REF markers of the emitted JSON are not those of the model (sharing discipline changed)',
                               {'lines': [{'object': repr(obj)[:1500]}], 'impl_out': [got], 'spec_out': [out['skeleton']], 'theorem_or_correspondence': 'Model.C11.enc (C11_roundtrip)'})
        try:
            back = cirq.read_json(json_text=text)
        except Exception as e:
            ctx.report_witness('json:unreadable:shared', f'read_json cannot read what to_json wrote for nested shared circuits: {type(e).__name__}: {str(e)[:100]}',
                               {'lines': [{'object': repr(obj)[:1500]}], 'impl_out': [text[:1500]], 'spec_out': ['x'], 'theorem_or_correspondence': 'C11_roundtrip'})
            continue
        if safe_eq(back, obj) is not True:
            ctx.report_witness('json:roundtrip:shared', 'read_json(to_json(x)) != x for nested shared circuits', {'lines': [{'object': repr(obj)[:1500]}], 'impl_out': [repr(back)[:1500]], 'spec_out': ['x'],
                                                                                                            'theorem_or_correspondence': 'C11_roundtrip'})


# ------------------------------------------------------------------------------ value-level round trips
def instance_pool(ctx, cirq, rng):
    """stored examples of every package + generated values"""
    env = eval_env()
    pool = []
    for pkg, rel in PACKAGES.items():
        for path in sorted(glob.glob(f'/repo/{rel}/*.repr')):
            name = os.path.basename(path)[:-5]
            try:
                with warnings.catch_warnings():
                    warnings.simplefilter('ignore')
                    obj = eval(open(path).read(), dict(env), {})
            except Exception as e:
                ctx.count('repr_eval_error', f'{pkg}:{type(e).__name__}')
                continue
            for k, x in enumerate(flatten_examples(obj)):
                pool.append((f'{pkg}/{name}[{k}]', x))
    # generated
    import sympy

    qs = cirq.LineQubit.range(3)
    for i in range(60 if ctx.tier == 'quick' else 600):
        k = rng.choice([1, 2, 3])
        g = {1: gen.one_qubit_gate, 2: gen.two_qubit_gate, 3: gen.three_qubit_gate}[k](cirq, rng)
        pool.append((f'gen/gate{i}', g))
        op = g.on(*rng.sample(qs, k))
        if rng.random() < 0.3:
            op = op.with_tags('t', 3)
        pool.append((f'gen/op{i}', op))
    for i in range(20 if ctx.tier == 'quick' else 200):
        c, _ = gen.random_unitary_circuit(cirq, rng, max_wires=3, max_ops=5)
        pool.append((f'gen/circuit{i}', c))
        pool.append((f'gen/frozen{i}', c.freeze()))
        if len(c):
            pool.append((f'gen/circuit-op{i}', cirq.CircuitOperation(c.freeze(), repetitions=rng.choice([1, 2, -1]) if cirq.has_unitary(c) else 1)))
    for i in range(20):
        pool.append((f'gen/sweep{i}', rng.choice([cirq.Linspace('a', 0, 1, 3), cirq.Points('b', [1, 2.5]), cirq.Product(cirq.Points('a', [1]), cirq.Linspace('b', 0, 1, 2)),
                                                  cirq.Zip(cirq.Points('a', [1, 2]), cirq.Points('b', [3, 4])), cirq.ZipLongest(cirq.Points('a', [1, 2]), cirq.Points('b', [3])), cirq.UnitSweep])))
    # values derived from a value whose hash (and other cached attributes) has already been computed
    qa, qb = cirq.LineQubit(-1), cirq.LineQubit(-2)
    for i in range(10 if ctx.tier == 'quick' else 60):
        c, _ = gen.random_unitary_circuit(cirq, rng, max_wires=3, max_ops=4)
        fc = c.freeze()
        hash(fc), fc.all_qubits(), cirq.has_unitary(fc)
        pool.append((f'derived/frozen.with_tags{i}', fc.with_tags('calibration')))
        pool.append((f'derived/frozen.with_tags.with_tags{i}', fc.with_tags('calibration').with_tags(7)))
        if len(c):
            co = cirq.CircuitOperation(fc)
            hash(co)
            pool.append((f'derived/circuit-op.repeat{i}', co.repeat(2)))
            pool.append((f'derived/circuit-op.with_tags{i}', co.with_tags('t')))
            pool.append((f'derived/circuit-op.with_qubits{i}', co.with_qubits(*[cirq.NamedQubit(f'n{j}') for j in range(len(co.qubits))])))
            pool.append((f'derived/circuit-op.replace{i}', co.replace(repetitions=3, use_repetition_ids=True) if cirq.has_unitary(c) else co))
            m = c[0]
            hash(m)
            pool.append((f'derived/moment.with_operation{i}', m.with_operation(cirq.X(cirq.LineQubit(9)))))
            pool.append((f'derived/moment.without{i}', m.without_operations_touching(list(m.qubits)[:1])))
            op = next(iter(c.all_operations()))
            hash(op)
            pool.append((f'derived/op.with_tags{i}', op.with_tags('x')))
            tagged = op.with_tags('x')
            hash(tagged)
            pool.append((f'derived/op.with_tags.with_tags{i}', tagged.with_tags('y')))
            pool.append((f'derived/op.untagged{i}', tagged.untagged))
            pool.append((f'derived/op.controlled{i}', op.controlled_by(cirq.LineQubit(8))))
            pool.append((f'derived/circuit.unfreeze{i}', fc.unfreeze()))
    key = cirq.MeasurementKey('k')
    hash(key)
    pool.append(('derived/key.with_path', key.with_key_path_prefix('p')))
    pool.append(('derived/key.replace', key.replace(name='z')))
    for q in (cirq.LineQubit(1), cirq.GridQubit(1, 2), cirq.LineQid(1, 3), cirq.GridQid(1, 2, dimension=3)):
        hash(q)
        pool.append((f'derived/{type(q).__name__}+1', q + 1 if isinstance(q, (cirq.LineQubit, cirq.LineQid)) else q + (0, 1)))
    for q in (cirq.LineQubit(1), cirq.GridQubit(1, 2), cirq.NamedQubit('n')):
        hash(q)
        pool.append((f'derived/{type(q).__name__}.with_dimension', q.with_dimension(3)))
    ps = cirq.X(qa) * cirq.Y(qb)
    hash(ps)
    pool.append(('derived/pauli-string.neg', -ps))
    pool.append(('derived/pauli-string.mul', ps * cirq.Z(cirq.LineQubit(0))))
    pool.append(('derived/pauli-string.map_qubits', ps.map_qubits({qa: cirq.LineQubit(5), qb: qb})))
    pr = cirq.ParamResolver({'a': 0.5})
    hash(pr)
    pool.append(('derived/resolver', cirq.ParamResolver(pr)))
    # several values of one document, equal hashes, different values
    pool.append(('collide/frozen-list', [cirq.FrozenCircuit(cirq.X(qa)), cirq.FrozenCircuit(cirq.X(qb)), cirq.FrozenCircuit(cirq.X(qa))]))
    pool.append(('collide/circuit-ops', cirq.Circuit(cirq.CircuitOperation(cirq.FrozenCircuit(cirq.X(qa))), cirq.CircuitOperation(cirq.FrozenCircuit(cirq.X(qb))))))
    pool.append(('collide/grid', [cirq.FrozenCircuit(cirq.H(cirq.GridQubit(0, -1))), cirq.FrozenCircuit(cirq.H(cirq.GridQubit(0, -2)))]))
    pool.append(('gen/result', cirq.ResultDict(params=cirq.ParamResolver({'a': 0.5}), records={'k': np.array([[[0, 1]], [[1, 1]]], dtype=np.uint8)})))
    pool.append(('gen/circuit-op-symbolic-reps', cirq.CircuitOperation(cirq.FrozenCircuit(cirq.X(qs[0])), repetitions=sympy.Symbol('r'), use_repetition_ids=False)))
    pool.append(('gen/circuit-op-expr-reps', cirq.CircuitOperation(cirq.FrozenCircuit(cirq.X(qs[0])), repetitions=sympy.Symbol('r') * 2 + 1, use_repetition_ids=False)))
    pool.append(('gen/duration-symbolic', cirq.Duration(nanos=sympy.Symbol('t'))))
    import cirq_google as cg_
    q0_, q1_ = cirq.LineQubit(0), cirq.LineQubit(1)
    # Pauli sums with a constant (identity) term, numeric and symbolic
    pool.append(('gen/paulisum-offset', 0.5 * cirq.X(q0_) * cirq.Z(q1_) - 1.5 * cirq.Z(q0_) + 2.0))
    pool.append(('gen/paulisum-offset-only', cirq.PauliSum.from_pauli_strings([cirq.PauliString(coefficient=3.0)])))
    pool.append(('gen/paulisum-offset-complex', cirq.Y(q0_) + (1 + 2j)))
    pool.append(('gen/paulisum-offset-nested', [cirq.X(q0_) + 1, {'k': cirq.Z(q1_) - 0.25}]))
    # couplers between qids that share a coordinate but not a dimension, in either order
    for j_, (x_, y_) in enumerate([(cirq.LineQid(0, 3), cirq.LineQid(0, 2)), (cirq.LineQid(0, 2), cirq.LineQid(0, 3)), (cirq.GridQid(1, 1, dimension=3), cirq.GridQubit(1, 1)),
                                   (cirq.GridQubit(0, 1), cirq.GridQubit(0, 0))]):
        pool.append((f'gen/coupler-{j_}', cg_.Coupler(x_, y_)))
        pool.append((f'gen/coupler-op-{j_}', cirq.Circuit(cirq.I(cg_.Coupler(x_, y_))) if x_.dimension == y_.dimension == 2 else cg_.Coupler(y_, x_)))
    for j_ in range(8):   # states whose normalisation is not a fixed point of dividing by the norm once more
        v_ = np.array([complex(rng.gauss(0, 1), rng.gauss(0, 1)) for _ in range(rng.choice([2, 4, 8]))])
        pool.append((f'gen/state-preparation-{j_}', cirq.StatePreparationChannel(v_, name=f'prep{j_}')))
    for j_, dur_ in enumerate([cirq.Duration(nanos=2 * sympy.Symbol('a') * sympy.Symbol('b')), cirq.Duration(micros=sympy.Symbol('a') * sympy.Symbol('b') * sympy.Symbol('c') * 3),
                               cirq.Duration(picos=sympy.Symbol('a') + 1), cirq.Duration(nanos=sympy.Symbol('a') ** 2 * 5), cirq.Duration(millis=sympy.Symbol('a') / 4)]):
        pool.append((f'gen/duration-symbolic-{j_}', dur_))
        pool.append((f'gen/wait-symbolic-{j_}', cirq.WaitGate(dur_)))
    pool.append(('gen/wait-shapes', [cirq.WaitGate(cirq.Duration(nanos=2), num_qubits=2), cirq.WaitGate(cirq.Duration(nanos=2), qid_shape=(3,)), cirq.WaitGate(cirq.Duration(picos=sympy.Symbol('t')))]))
    for j_, wg_ in enumerate([cirq.WaitGate(cirq.Duration(nanos=2), num_qubits=2), cirq.WaitGate(cirq.Duration(nanos=2), qid_shape=(3,)), cirq.WaitGate(cirq.Duration(nanos=2), qid_shape=(2, 3)), cirq.WaitGate(cirq.Duration(nanos=2))]):
        pool.append((f'gen/wait-gate-{j_}', wg_))
    qa_ = cirq.LineQubit(0)
    pool.append(('gen/tagged-empty', cirq.TaggedOperation(cirq.X(qa_))))
    pool.append(('gen/tagged-nested', cirq.TaggedOperation(cirq.TaggedOperation(cirq.X(qa_), 'inner'), 'outer')))
    pool.append(('gen/tagged-nested-circuit', cirq.Circuit(cirq.TaggedOperation(cirq.TaggedOperation(cirq.CZ(qa_, cirq.LineQubit(1)), 'inner'), 'outer'), cirq.TaggedOperation(cirq.H(qa_)))))
    pool.append(('gen/tagged-controlled', cirq.TaggedOperation(cirq.X(qa_).with_classical_controls('k'), 't')))
    pool.append(('gen/tuple-tag-op', cirq.X(qa_).with_tags(('a', 1), 'plain')))
    pool.append(('gen/tuple-tag-circuit', cirq.Circuit(cirq.X(qa_), tags=[('c', (2, 'x'))])))
    pool.append(('gen/tuple-tag-frozen', cirq.FrozenCircuit(cirq.Moment(cirq.X(qa_), tags=[('m', 0)]), tags=[('f', 1)])))
    fc_ = cirq.FrozenCircuit(cirq.X(qa_))
    pool.append(('gen/circuit-op-ids-unused', cirq.CircuitOperation(fc_, repetitions=2, repetition_ids=['a', 'b']).replace(use_repetition_ids=False)))
    pool.append(('gen/circuit-op-symbolic-ids', cirq.CircuitOperation(fc_, repetitions=sympy.Symbol('r'), use_repetition_ids=True)))
    pool.append(('gen/circuit-op-default-ids', cirq.CircuitOperation(fc_, repetitions=2, use_repetition_ids=True)))
    pool.append(('gen/noise-prepend', cirq.ConstantQubitNoiseModel(cirq.bit_flip(0.1), prepend=True)))
    pool.append(('gen/noise-append', cirq.ConstantQubitNoiseModel(cirq.amplitude_damp(0.2))))
    pool.append(('gen/noise-like', cirq.NoiseModel.from_noise_model_like(cirq.depolarize(0.05))))
    # maps with several entries written in an order that is not the sorted one (the document is written sorted)
    q3_ = cirq.LineQubit.range(3)
    body3_ = cirq.FrozenCircuit(cirq.X(q3_[0]), cirq.CZ(q3_[1], q3_[2]), cirq.measure(q3_[0], key='a'), cirq.measure(q3_[1], key='b'))
    pool.append(('gen/circuit-op-qubit-map-order', cirq.CircuitOperation(body3_, qubit_map={q3_[2]: q3_[0], q3_[0]: q3_[1], q3_[1]: q3_[2]})))
    pool.append(('gen/circuit-op-key-map-order', cirq.CircuitOperation(body3_, measurement_key_map={'b': 'x', 'a': 'y'})))
    pool.append(('gen/circuit-op-param-order', cirq.CircuitOperation(cirq.FrozenCircuit(cirq.X(q3_[0]) ** sympy.Symbol('u'), cirq.Z(q3_[0]) ** sympy.Symbol('t')), param_resolver={sympy.Symbol('u'): 0.25, sympy.Symbol('t'): 0.5})))
    # qids of dimension 1 next to qubits
    for shape_ in ((1,), (1, 2), (2, 1, 1), (1, 3)):
        pool.append((f'gen/measure-shape-{"".join(map(str, shape_))}', cirq.MeasurementGate(len(shape_), key='k', qid_shape=shape_)))
        pool.append((f'gen/measure-op-shape-{"".join(map(str, shape_))}', cirq.Circuit(cirq.MeasurementGate(len(shape_), key='k', qid_shape=shape_).on(*cirq.LineQid.for_qid_shape(shape_)))))
    pool.append(('gen/identity-shape-1', cirq.IdentityGate(qid_shape=(1, 2))))
    # values as the simulators produce them (records and qubit groups are tuples), gates at powers
    pool.append(('gen/classical-data-store', cirq.ClassicalDataDictionaryStore(
        _records={cirq.MeasurementKey('a'): [(0, 1), (1, 1)]}, _measured_qubits={cirq.MeasurementKey('a'): [tuple(q3_[:2]), tuple(q3_[:2])]}, _channel_records={cirq.MeasurementKey('c'): [2]},
        _measurement_types={cirq.MeasurementKey('a'): cirq.MeasurementType.MEASUREMENT, cirq.MeasurementKey('c'): cirq.MeasurementType.CHANNEL})))
    pool.append(('gen/classical-data-store(simulated)', cirq.Simulator(seed=1).simulate(cirq.Circuit(cirq.X(q3_[0]), cirq.measure(q3_[0], q3_[1], key='m')))._final_simulator_state.classical_data))
    for e_ in (0.5, -1, 2, sympy.Symbol('t')):
        pool.append((f'gen/pauli-interaction**{e_}', cirq.PauliInteractionGate(cirq.X, True, cirq.Y, False) ** e_))
        pool.append((f'gen/clifford-free-power**{e_}', [cirq.XX ** e_, cirq.ISWAP ** e_, cirq.CCZ ** e_, cirq.CSWAP if e_ == 2 else cirq.CCX ** e_, cirq.PhasedISwapPowGate(phase_exponent=0.1) ** e_]))
    pool.append(('gen/symbolic', (cirq.X ** sympy.Symbol('a')).on(qs[0])))
    pool.append(('gen/expr', cirq.Circuit(cirq.rz(sympy.Symbol('a') * 2 + sympy.pi / 3).on(qs[0]))))
    pool.append(('gen/key-condition', cirq.X(qs[0]).with_classical_controls(cirq.KeyCondition(cirq.MeasurementKey('a'), 0))))
    pool.append(('gen/bitmask-condition', cirq.X(qs[0]).with_classical_controls(cirq.BitMaskKeyCondition.create_equal_mask(cirq.MeasurementKey('a'), 2, index=0))))
    return pool


def check_values(ctx, cirq, pool, rng):
    env = eval_env()
    for name, x in pool:
        ctx.case(['value', name], True)
        rep = {'lines': [{'instance': name, 'repr': repr(x)[:800]}], 'theorem_or_correspondence': 'value round trip'}
        cls = type(x).__name__
        # 1. JSON round trip: equality, hash, repr
        try:
            text = cirq.to_json(x)
        except (TypeError, ValueError) as e:
            ctx.count('not_serializable', cls)
            continue
        ctx.count('check', 'json-roundtrip')
        try:
            back = cirq.read_json(json_text=text)
        except Exception as e:
            ctx.report_witness(f'json:unreadable:{cls}', f'read_json cannot read what to_json wrote: {type(e).__name__}: {str(e)[:100]}', dict(rep, impl_out=[text[:600]], spec_out=['x']))
            continue
        eq = safe_eq(back, x)
        if eq is False:
            ctx.report_witness(f'json:roundtrip:{cls}', 'read_json(to_json(x)) != x', dict(rep, impl_out=[repr(back)[:800]], spec_out=[repr(x)[:800]]))
            continue
        if eq is True:
            try:
                hx, hb = hash(x), hash(back)
            except TypeError:
                hx = hb = None
            if hx != hb:
                ctx.report_witness(f'json:hash:{cls}', 'the value read back is equal but hashes differently', dict(rep, impl_out=[hb], spec_out=[hx]))
            if repr(back) != repr(x) and 'object at 0x' not in repr(x):
                ctx.count('repr_differs_after_roundtrip', cls)
            # equal behaviour: a noise model read back produces the same noisy circuit
            if isinstance(x, cirq.NoiseModel):
                probe = cirq.Circuit(cirq.X(cirq.LineQubit(0)), cirq.CZ(cirq.LineQubit(0), cirq.LineQubit(1)))
                try:
                    same = probe.with_noise(x) == probe.with_noise(back)
                except Exception:
                    same = True
                ctx.count('check', 'json-behaviour:noise-model')
                if not same:
                    ctx.report_witness(f'json:behaviour:{cls}', 'a noise model read back from JSON is equal but produces a different noisy circuit', dict(rep, impl_out=[repr(probe.with_noise(back))[:600]], spec_out=[repr(probe.with_noise(x))[:600]]))
        # nested in containers and written twice in one document
        try:
            nested = {'k': [x, (x,)], 'again': x}
            nb = cirq.read_json(json_text=cirq.to_json(nested))
            ctx.count('check', 'json-nested')
            if safe_eq(nb['again'], x) is False or safe_eq(nb['k'][0], x) is False or safe_eq(nb['k'][1][0], x) is False:
                ctx.report_witness(f'json:nested:{cls}', 'a value written several times inside lists / dicts does not read back equal', dict(rep, impl_out=[repr(nb)[:800]], spec_out=[repr(x)[:800]]))
        except (TypeError, ValueError):
            pass
        # 2. repr evaluates back
        r = repr(x)
        if 'object at 0x' not in r and len(r) < 20000 and type(x).__module__.split('.')[0] in PACKAGES:
            try:
                with warnings.catch_warnings():
                    warnings.simplefilter('ignore')
                    ev = eval(r, dict(env), {})
                ctx.count('check', 'repr-eval')
                if safe_eq(ev, x) is False:
                    ctx.report_witness(f'repr:eval:{cls}', 'eval(repr(x)) != x', dict(rep, impl_out=[repr(ev)[:800]], spec_out=[r[:800]]))
            except Exception as e:
                ctx.count('repr_not_evaluable', f'{cls}:{type(e).__name__}')
                if type(x).__module__.split('.')[0] in PACKAGES:
                    ctx.report_witness(f'repr:not-evaluable:{cls}', f'repr(x) does not evaluate: {type(e).__name__}: {str(e)[:100]}', dict(rep, impl_out=[r[:600]], spec_out=['an expression that evaluates to an equal value']))
        # 3. equal values have equal hashes; copies and pickles are equal
        for how, f in (('deepcopy', copy.deepcopy), ('pickle', lambda v: pickle.loads(pickle.dumps(v)))):
            try:
                c = f(x)
            except Exception as e:
                ctx.count(f'{how}_error', f'{cls}:{type(e).__name__}')
                if type(x).__module__.split('.')[0] in PACKAGES:
                    ctx.report_witness(f'{how}:raises:{cls}', f'{how} of a value raises {type(e).__name__}: {str(e)[:100]}', dict(rep, impl_out=[str(e)[:300]], spec_out=['an equal value']))
                continue
            ctx.count('check', how)
            e2 = safe_eq(c, x)
            if e2 is False:
                ctx.report_witness(f'{how}:{cls}', f'{how} of a value is not equal to it', dict(rep, impl_out=[repr(c)[:800]], spec_out=[repr(x)[:800]]))
            elif e2 is True:
                try:
                    if hash(c) != hash(x):
                        ctx.report_witness(f'{how}:hash:{cls}', f'{how} of a value is equal but hashes differently', dict(rep, impl_out=[hash(c)], spec_out=[hash(x)]))
                except TypeError:
                    pass


def check_stored_documents(ctx, cirq):
    env = eval_env()
    for pkg, rel in PACKAGES.items():
        for ext, rext in (('json', 'repr'), ('json_inward', 'repr_inward')):
            for path in sorted(glob.glob(f'/repo/{rel}/*.{ext}')):
                name = os.path.basename(path)[: -len(ext) - 1]
                rpath = path[: -len(ext)] + rext
                if not os.path.exists(rpath):
                    continue
                try:
                    with warnings.catch_warnings():
                        warnings.simplefilter('ignore')
                        want = eval(open(rpath).read(), dict(env), {})
                except Exception as e:
                    ctx.count('repr_eval_error', f'{pkg}:{type(e).__name__}')
                    continue
                ctx.count('check', f'stored-{ext}')
                ctx.case(['stored', pkg, name, ext], True)
                rep = {'lines': [{'document': f'{rel}/{name}.{ext}'}], 'theorem_or_correspondence': 'stored documents keep reading'}
                try:
                    with warnings.catch_warnings():
                        warnings.simplefilter('ignore')
                        got = cirq.read_json(path)
                except Exception as e:
                    ctx.report_witness(f'stored:unreadable:{name}', f'a stored document no longer reads: {type(e).__name__}: {str(e)[:120]}', dict(rep, impl_out=[str(e)[:300]], spec_out=['the value of the paired .repr']))
                    continue
                if safe_eq(got, want) is False:
                    ctx.report_witness(f'stored:value:{name}', 'a stored document reads to a value different from the one it was written from', dict(rep, impl_out=[repr(got)[:800]], spec_out=[repr(want)[:800]]))


def check_wrapped_qids(ctx, cirq):
    """a qubit of any class given another dimension (Qid.with_dimension) is equal to another such qid exactly when the qubits inside
    and the dimensions are equal; equal ones hash alike; the JSON text keeps them apart and reads back to the same value"""
    import cirq_pasqal

    base = [cirq_pasqal.ThreeDQubit(1, 0, 0), cirq_pasqal.TwoDQubit(1, 0), cirq_pasqal.ThreeDQubit(0, 1, 0), cirq_pasqal.TwoDQubit(0, 1), cirq.NamedQubit('a'), cirq.NamedQubit('b'),
            cirq.LineQubit(1), cirq.GridQubit(1, 0)]
    wrapped = [(q, d, q.with_dimension(d)) for q in base for d in (3, 4)]
    ctx.count('check', 'wrapped-qids')
    ctx.case(['wrapped-qids'], True)
    for (qa, da, wa), (qb, db, wb) in itertools.product(wrapped, repeat=2):
        want = (qa == qb) and da == db
        got = wa == wb
        rep = {'lines': [{'a': repr(wa), 'b': repr(wb)}], 'theorem_or_correspondence': 'equality of wrapped qids'}
        if got != want or (got and hash(wa) != hash(wb)):
            ctx.report_witness('qid:wrapped:equality', 'two qubits of different classes (or at different places) given the same dimension compare equal / equal ones hash differently',
                               dict(rep, impl_out=[got, hash(wa) == hash(wb)], spec_out=[want]))
            return
        if not want and cirq.to_json(wa) == cirq.to_json(wb):
            ctx.report_witness('qid:wrapped:json', 'two different wrapped qids have the same JSON text', dict(rep, impl_out=[cirq.to_json(wa)], spec_out=['different texts']))
            return
    for q, d, w in wrapped:
        try:
            back = cirq.read_json(json_text=cirq.to_json(w))
        except Exception as e:  # noqa: BLE001
            ctx.count('wrapped_qid_json', f'{type(q).__name__}:{type(e).__name__}')
            continue
        if back != w or back.dimension != d:
            ctx.report_witness('qid:wrapped:roundtrip', 'a wrapped qid does not come back from its JSON text', {'lines': [{'qid': repr(w)}], 'impl_out': [repr(back)], 'spec_out': [repr(w)], 'theorem_or_correspondence': 'readJson ∘ toJson = id'})
            return


def check_qid_order(ctx, cirq, rng):
    qids = []
    for _ in range(14):
        k = rng.randrange(5)
        if k == 0:
            qids.append(cirq.LineQubit(rng.randint(-3, 5)))
        elif k == 1:
            qids.append(cirq.GridQubit(rng.randint(-2, 3), rng.randint(-2, 3)))
        elif k == 2:
            qids.append(cirq.NamedQubit(rng.choice(['a', 'b', 'q1', 'q10', 'q2', 'Q'])))
        elif k == 3:
            qids.append(cirq.LineQid(rng.randint(0, 3), rng.choice([2, 3, 4])))
        else:
            qids.append(cirq.GridQid(rng.randint(0, 2), rng.randint(0, 2), dimension=rng.choice([2, 3])))
    # the same place written as a qubit and as a dimension-2 qid (equal values), also with negative and large coordinates
    for _ in range(4):
        r_, c_ = rng.choice([-1, -2, 0, 1, 2**61 - 1, -(2**61)]), rng.choice([-1, -2, 0, 3, 2**61 - 1])
        qids += [cirq.GridQubit(r_, c_), cirq.GridQid(r_, c_, dimension=2)]
        x_ = rng.choice([-1, -2, 0, 2, 2**61 - 1])
        qids += [cirq.LineQubit(x_), cirq.LineQid(x_, dimension=2)]
    ctx.count('check', 'qid-order')
    ctx.case(['qids', [repr(q) for q in qids]], True)
    rep = {'lines': [{'qids': [repr(q) for q in qids]}], 'theorem_or_correspondence': 'total order consistent with equality'}
    for a, b in itertools.product(qids, repeat=2):
        rel = [a < b, a == b, a > b]
        if sum(bool(r) for r in rel) != 1 or (a <= b) != (a < b or a == b) or (a >= b) != (a > b or a == b) or (a == b) != (hash(a) == hash(b) and a == b):
            ctx.report_witness('qid:order:trichotomy', 'qid comparison is not a total order consistent with equality', dict(rep, impl_out=[repr(a), repr(b), rel], spec_out=['exactly one of <, ==, >']))
            return
        if a == b and hash(a) != hash(b):
            ctx.report_witness('qid:hash', 'equal qids hash differently', dict(rep, impl_out=[repr(a), repr(b)], spec_out=['equal hashes']))
            return
    for a, b, c in itertools.product(qids[:8], repeat=3):
        if a < b and b < c and not a < c:
            ctx.report_witness('qid:order:transitive', 'qid comparison is not transitive', dict(rep, impl_out=[repr(a), repr(b), repr(c)], spec_out=['a < c']))
            return
    s1, s2 = sorted(qids), sorted(reversed(qids))
    if s1 != s2:
        ctx.report_witness('qid:order:sorted', 'sorting depends on the input order', dict(rep, impl_out=[repr(s1)], spec_out=[repr(s2)]))


def run(ctx: common.Run):
    import cirq

    ctx.rule = (
        'skeleton: nestings (depth <= 3) of frozen circuits inside circuit operations, shared several times, inside circuits / lists / dicts; values: every stored example '
        'of cirq, cirq_google, cirq_ionq, cirq_aqt, cirq_pasqal (.repr files) + generated gates, operations (tagged), circuits, frozen circuits, circuit operations, sweeps, '
        'results, symbolic values, classical conditions; each alone and nested in lists / tuples / dicts; stored documents: every .json and .json_inward; qids: random mixed sets; '
        'non-trivial = >= 2 VAL/REF markers resp. every instance; distinct by text'
    )
    ctx.trusted += [
        'harness/props/c11.py + lean/Driver/C11.lean; the abstraction of an object to the tree of its _json_dict_ values (document order)',
        'python json module (object_hook is called when an object closes, in document order); pickle / copy modules',
        'equality of the values themselves (==) is taken from the library: the check is about round trips, not about the meaning of == (C08)',
    ]
    ok, failing = ctx.lean(MODULES)
    if not ok:
        ctx.report_unproved('lean-build', f'{failing}', {'theorem_or_correspondence': failing})
        return
    rng = ctx.substream('values')
    check_skeleton(ctx, cirq, 40 if ctx.tier == 'quick' else 800)
    pool = instance_pool(ctx, cirq, rng)
    ctx.extra['instance_pool'] = len(pool)
    check_values(ctx, cirq, pool, rng)
    check_stored_documents(ctx, cirq)
    for _ in range(10 if ctx.tier == 'quick' else 200):
        check_qid_order(ctx, cirq, rng)
    check_wrapped_qids(ctx, cirq)


def replay(ctx, rep):
    print(json.dumps(rep, indent=1)[:3000])
    return 1
