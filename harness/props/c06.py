"""C06 — Circuit transformers preserve what the circuit computes.

Lean (Model/C06, Props/C06): operations abstracted to (identity, wires touched — qubits, measurement and control keys).
C06_same_wire_order_is_swaps (projection lemma of trace theory, induction on the first list): two lists with the same
distinct operations and the same order on every wire differ by exchanges of adjacent independent operations;
C06_swaps_preserve_semantics / C06_reordering_preserves_state: such exchanges preserve the state computed by the tensor
action of C01 (independent operators commute: C01_apply_comm); C06_check_sound: the executable check implies the
hypothesis.  Tie (T2): for the structure-only transformers (alignment, stratification, dropping empty moments,
synchronising terminal measurements, tag transformers) the real output must pass that check against the input
(operations identified by unique tags), so the theorem applies to it; for the rewriting transformers the output is
compared with the input by the Lean reference semantics: ordered product up to global phase for unitary circuits (C01),
exact joint record distribution for measured ones (C02).  tags_to_ignore, deep and argument purity are checked on the
objects themselves.
"""
from __future__ import annotations

import json

import numpy as np

from harness import common, gen
from harness.props.c02 import lean_ops

MODULES = ['CirqVerif.Props.C06', 'CirqVerif.Props.C06Rules', 'NonVacuity.ComplexModel']
IGN = 'verif-ignore'
REPEAT_KEYS = [True]


def phase_close(a, b, tol=1e-6):
    a, b = np.asarray(a), np.asarray(b)
    if a.shape != b.shape:
        return False
    k = np.unravel_index(np.argmax(np.abs(b)), b.shape)
    if abs(b[k]) < 1e-9 or abs(a[k]) < 1e-9:
        return np.allclose(a, b, atol=tol)
    ph = a[k] / b[k]
    return abs(abs(ph) - 1) < 1e-5 and np.allclose(a, ph / abs(ph) * b, atol=tol)


def flat_ops(cirq, circuit):
    """operations in order with sub-circuits unrolled"""
    return list(cirq.unroll_circuit_op(cirq.Circuit(circuit), deep=True, tags_to_check=None).all_operations())


def lean_unitary(ctx, cirq, circuit, qs):
    pos = {q: i for i, q in enumerate(qs)}
    ops = []
    phase = 1.0 + 0j
    for op in flat_ops(cirq, circuit):
        if not op.qubits:
            phase *= complex(cirq.unitary(op)[0, 0])
            continue
        ops.append({'m': [common.c2j(z) for z in cirq.unitary(op).reshape(-1)], 'axes': [pos[q] for q in op.qubits]})
    out = ctx.driver.ask([{'p': 'C01', 'op': 'unitary', 'shape': [q.dimension for q in qs], 'ops': ops}])[0]
    return phase * np.array([[common.j2c(z) for z in row] for row in out])


def lean_distribution(ctx, cirq, circuit, qs):
    init = [0j] * (2 ** len(qs))
    init[0] = 1
    flat = cirq.Circuit(flat_ops(cirq, circuit))
    out = ctx.driver.ask([{'p': 'C02', 'op': 'dist', 'shape': [2] * len(qs), 'init': [common.c2j(z) for z in init], 'ops': lean_ops(cirq, flat, list(qs))}])[0]
    d = {}
    for b in out['branches']:
        key = tuple(sorted((k, tuple(tuple(inst) for inst in v)) for k, v in b['records']))
        d[key] = d.get(key, 0.0) + common.b2f(b['p'])
    return d


def dist_close(a, b, tol=1e-6):
    return all(abs(a.get(k, 0.0) - b.get(k, 0.0)) < tol for k in set(a) | set(b))


# ------------------------------------------------------------------------------ generators
def tagged_unique(cirq, circuit):
    """every operation gets a unique ('id', n) tag so that it can be tracked through structure-only transformers"""
    n = [0]

    def tag(op, _):
        n[0] += 1
        return op.with_tags(('id', n[0]))

    return cirq.map_operations(circuit, tag)


def eject_circuit(cirq, rng, with_ignored=False):
    """phase-tracking stress: PhasedXZ / Z powers / Paulis interleaved with swap-like and CZ-like gates, flushed by ignored
    operations, sub-circuits or the end of the circuit"""
    import math

    nq = rng.randint(2, 3)
    qs = cirq.LineQubit.range(nq)
    ops = []
    for _ in range(rng.randint(2, 8)):
        r = rng.random()
        if r < 0.55:
            g = rng.choice([cirq.PhasedXZGate(x_exponent=gen.rand_exponent(rng), z_exponent=gen.rand_exponent(rng), axis_phase_exponent=gen.rand_exponent(rng)), cirq.Z ** gen.rand_exponent(rng),
                            cirq.PhasedXPowGate(phase_exponent=gen.rand_exponent(rng), exponent=rng.choice([1, 0.5, 0.25])), cirq.X, cirq.Y, cirq.Z, cirq.S, cirq.T, cirq.H, cirq.X ** 0.5])
            op = g.on(rng.choice(qs))
        else:
            g = rng.choice([cirq.SWAP, cirq.ISWAP, cirq.ISWAP ** -1, cirq.FSimGate(theta=math.pi / 2, phi=rng.choice([0.0, 0.3])), cirq.FSimGate(theta=3 * math.pi / 2, phi=0.1), cirq.CZ, cirq.CZ ** gen.rand_exponent(rng),
                            cirq.CNOT, cirq.ZZ ** 0.3, cirq.ISWAP ** 0.5])
            op = g.on(*rng.sample(qs, 2))
        if with_ignored and rng.random() < 0.2:
            op = op.with_tags(IGN)
        ops.append(op)
    if rng.random() < 0.5:
        # tail: phased gates on two wires, a swap-like gate on them, then a flush (end of circuit / ignored operation / sub-circuit)
        a_, b_ = rng.sample(qs, 2)
        pxz = lambda: cirq.PhasedXZGate(x_exponent=rng.choice([0.5, 0.25, 1.0]), z_exponent=rng.choice([0.25, -0.5, 0.3]), axis_phase_exponent=rng.choice([0.0, 0.125]))
        ops.append(pxz().on(a_))
        ops.append(rng.choice([cirq.Z ** 0.3, cirq.Z ** 0.7, pxz(), cirq.S]).on(b_))
        ops.append(rng.choice([cirq.SWAP, cirq.ISWAP, cirq.ISWAP ** -1, cirq.FSimGate(theta=math.pi / 2, phi=0.0)]).on(a_, b_))
        flush = rng.random()
        if flush < 0.35 and with_ignored:
            ops.append(cirq.H(b_).with_tags(IGN))
        elif flush < 0.55:
            ops.append(cirq.CircuitOperation(cirq.FrozenCircuit(cirq.H(a_))))
    elif rng.random() < 0.3:
        ops.append(cirq.CircuitOperation(cirq.FrozenCircuit(cirq.H(qs[0]), cirq.CZ(qs[0], qs[1]))))
    c = cirq.Circuit(ops) if rng.random() < 0.6 else cirq.Circuit(ops, strategy=cirq.InsertStrategy.NEW)
    return c, qs


def feedforward_template(cirq, rng):
    """a key measured twice with a gate in between, then a control on that key acting on a qubit that was idle since
    the start, and a final measurement: key dependencies between operations on different qubits"""
    q0, q1 = cirq.LineQubit.range(2)
    pre = rng.choice([cirq.Y, cirq.X, cirq.H, cirq.I])
    mid = rng.choice([cirq.H, cirq.X ** 0.5, cirq.Y ** 0.5])
    ctl = rng.choice([cirq.X, cirq.Y, cirq.Z])
    idx = rng.choice([-1, -1, 0, 1])
    moments = [
        cirq.Moment(cirq.measure(q0, key='a'), pre(q1)),
        cirq.Moment(mid(q0)),
        cirq.Moment(cirq.measure(q0, key='a')),
        cirq.Moment(ctl(q1).with_classical_controls(cirq.KeyCondition(cirq.MeasurementKey('a'), idx))),
        cirq.Moment(cirq.measure(q1, key='b')),
    ]
    r = rng.random()
    if r < 0.3:
        moments.insert(1, cirq.Moment(cirq.X(q1).with_classical_controls('a')))
    elif r < 0.65:
        # a measurement that can be merged leftwards into a gate, then a control on its key next to an idle-qubit gate
        moments = [cirq.Moment(mid(q0), pre(q1)), cirq.Moment(cirq.measure(q0, key='a')), cirq.Moment(ctl(q1).with_classical_controls('a')), cirq.Moment(cirq.measure(q1, key='b'))]
    return cirq.Circuit(moments), [q0, q1]


def random_circuit(cirq, rng, measured=False, with_sub=False, with_ignored=False):
    if measured and rng.random() < 0.3:
        return feedforward_template(cirq, rng)
    nq = rng.randint(1, 3)
    qs = cirq.LineQubit.range(nq)
    ops = []
    keys = []
    for _ in range(rng.randint(1, 8)):
        r = rng.random()
        k = min(rng.choice([1, 1, 1, 2]), nq)
        t = rng.sample(qs, k)
        if measured and r < 0.2:
            if keys and rng.random() < 0.2 and REPEAT_KEYS[0]:
                # the same key measured again (one qubit, like the first time or not)
                ops.append(cirq.measure(t[0], key=rng.choice(keys)) if all(len(o.qubits) == 1 for o in ops if cirq.is_measurement(o)) else cirq.measure(*t, key=f'k{len(keys)}x'))
                continue
            key = f'k{len(keys)}'
            keys.append(key)
            ops.append(cirq.measure(*t, key=key, invert_mask=tuple(rng.random() < 0.3 for _ in t)))
            continue
        if measured and keys and r < 0.3:
            ck = rng.choice(keys)
            count = sum(1 for o in ops if cirq.is_measurement(o) and ck in cirq.measurement_key_names(o))
            rc = rng.random()
            if rc < 0.5:
                cond = cirq.KeyCondition(cirq.MeasurementKey(ck), rng.choice([-1, -1, 0, count - 1]))
            elif rc < 0.8:
                cond = cirq.BitMaskKeyCondition(ck, index=rng.choice([-1, 0]), target_value=1, equal_target=rng.random() < 0.5, bitmask=1)
            else:
                cond = ck
            ops.append(gen.one_qubit_gate(cirq, rng).on(t[0]).with_classical_controls(cond))
            continue
        g = {1: gen.one_qubit_gate, 2: gen.two_qubit_gate}[k](cirq, rng)
        if rng.random() < 0.25 and k == 1:
            g = rng.choice([cirq.Z ** gen.rand_exponent(rng), cirq.X, cirq.Y, cirq.Z, cirq.PhasedXPowGate(phase_exponent=gen.rand_exponent(rng), exponent=rng.choice([1, 1, 0.5])), cirq.H, cirq.S])
        if rng.random() < 0.25 and k == 2:
            g = rng.choice([cirq.CZ, cirq.CZ ** gen.rand_exponent(rng), cirq.CNOT, cirq.ISWAP, cirq.SWAP, cirq.CZ ** 1e-9])
        op = g.on(*t)
        if with_ignored and rng.random() < 0.25:
            op = op.with_tags(IGN)
        ops.append(op)
    if with_sub and len(ops) >= 2:
        cut = rng.randint(1, len(ops) - 1)
        body = [o for o in ops[:cut] if not cirq.is_measurement(o) and not isinstance(o.untagged, cirq.ClassicallyControlledOperation)]
        if body:
            ops = [cirq.CircuitOperation(cirq.FrozenCircuit(body), repetitions=rng.choice([1, 1, 2]))] + ops[cut:]
    if measured and not keys:
        ops.append(cirq.measure(qs[0], key='k0'))
    style = rng.random()
    if style < 0.5:
        c = cirq.Circuit(ops)
    elif style < 0.8:
        c = cirq.Circuit(ops, strategy=cirq.InsertStrategy.NEW)
    else:
        c = cirq.Circuit()
        for op in ops:
            c.append(op, strategy=rng.choice([cirq.InsertStrategy.EARLIEST, cirq.InsertStrategy.NEW, cirq.InsertStrategy.INLINE]))
        if rng.random() < 0.5:
            c.insert(rng.randint(0, len(c)), cirq.Moment())
    return c, qs


def moment_hazard(cirq, circuit):
    """some moment holds two different operations of which one measures a key the other one measures or reads"""
    for m in circuit:
        ops = list(m.operations)
        for i, a in enumerate(ops):
            ma = cirq.measurement_key_names(a)
            if not ma:
                continue
            for j, b in enumerate(ops):
                if i != j and (ma & ({str(k) for k in cirq.control_keys(b)} | (cirq.measurement_key_names(b) if i < j else set()))):
                    return True
    return False


def key_wires(cirq, circuit):
    """wires encoding the classical dependencies: every reader of a key gets a private wire, which every writer (measurement)
    of that key touches too; writers of a key also share a wire.  Readers of one key are thus independent of each other,
    while a writer is dependent on every reader and writer of its key."""
    readers, table = {}, {}

    def wire(name):
        return table.setdefault(name, 1000 + len(table))

    for op in circuit.all_operations():
        ident = [t[1] for t in op.tags if isinstance(t, tuple) and t and t[0] == 'id']
        for k in {str(x) for x in cirq.control_keys(op)}:
            readers.setdefault(k, []).append(ident[0] if ident else 0)

    def wires(op, qpos):
        w = [qpos[q] for q in op.qubits]
        ident = [t[1] for t in op.tags if isinstance(t, tuple) and t and t[0] == 'id']
        for k in sorted({str(x) for x in cirq.control_keys(op)}):
            w.append(wire((k, 'r', ident[0] if ident else 0)))
        for k in sorted(cirq.measurement_key_names(op)):
            w.append(wire((k, 'w')))
            for rid in readers.get(k, []):
                w.append(wire((k, 'r', rid)))
        return sorted(set(w))

    return wires


# ------------------------------------------------------------------------------ the transformers
def structure_only(cirq):
    def strat(c, context=None):
        return cirq.stratified_circuit(c, categories=[lambda op: len(op.qubits) == 1, lambda op: len(op.qubits) == 2, cirq.is_measurement], context=context)

    return {
        'align_left': cirq.align_left, 'align_right': cirq.align_right, 'drop_empty_moments': cirq.drop_empty_moments,
        'synchronize_terminal_measurements': cirq.synchronize_terminal_measurements, 'stratified_circuit': strat, 'stratified_circuit(default)': cirq.stratified_circuit,
        'synchronize_terminal_measurements(after_other=False)': lambda c, context=None: cirq.synchronize_terminal_measurements(c, after_other_operations=False, context=context),
    }


def rewriting(cirq):
    return {
        'expand_composite': cirq.expand_composite,
        'eject_z': cirq.eject_z,
        'eject_z(eject_parameterized)': lambda c, context=None: cirq.eject_z(c, eject_parameterized=True, context=context),
        'eject_phased_paulis': cirq.eject_phased_paulis,
        'merge_single_qubit_gates_to_phased_x_and_z': cirq.merge_single_qubit_gates_to_phased_x_and_z,
        'merge_single_qubit_gates_to_phxz': cirq.merge_single_qubit_gates_to_phxz,
        'merge_single_qubit_moments_to_phxz': cirq.merge_single_qubit_moments_to_phxz,
        'merge_k_qubit_unitaries(k=2)': lambda c, context=None: cirq.merge_k_qubit_unitaries(c, k=2, context=context),
        'merge_k_qubit_unitaries(k=1)': lambda c, context=None: cirq.merge_k_qubit_unitaries(c, k=1, context=context),
        'drop_negligible_operations': lambda c, context=None: cirq.drop_negligible_operations(c, atol=1e-8, context=context),
        'drop_empty_moments': cirq.drop_empty_moments,
        'align_left': cirq.align_left,
        'align_right': cirq.align_right,
        'stratified_circuit': structure_only(cirq)['stratified_circuit'],
        'synchronize_terminal_measurements': cirq.synchronize_terminal_measurements,
        'optimize_for_target_gateset(CZ)': lambda c, context=None: cirq.optimize_for_target_gateset(c, gateset=cirq.CZTargetGateset(), context=context),
        'optimize_for_target_gateset(SqrtIswap)': lambda c, context=None: cirq.optimize_for_target_gateset(c, gateset=cirq.SqrtIswapTargetGateset(), context=context),
        'unroll_circuit_op': lambda c, context=None: cirq.unroll_circuit_op(c, deep=True, tags_to_check=None),
        'unroll_circuit_op_greedy_earliest': lambda c, context=None: cirq.unroll_circuit_op_greedy_earliest(c, deep=True, tags_to_check=None),
        'unroll_circuit_op_greedy_frontier': lambda c, context=None: cirq.unroll_circuit_op_greedy_frontier(c, deep=True, tags_to_check=None),
        'add_dynamical_decoupling': cirq.add_dynamical_decoupling,
        'drop_diagonal_before_measurement': cirq.drop_diagonal_before_measurement,
        'merge_operations_to_circuit_op': lambda c, context=None: cirq.merge_operations_to_circuit_op(c, lambda a, b: True, deep=bool(context and context.deep), tags_to_ignore=context.tags_to_ignore if context else ()),
        'merge_operations(sub-circuit)': lambda c, context=None: cirq.merge_operations(
            c, lambda a, b: cirq.CircuitOperation(cirq.FrozenCircuit(a, b)) if len(set(a.qubits) | set(b.qubits)) <= 2 else None, deep=bool(context and context.deep), tags_to_ignore=context.tags_to_ignore if context else ()),
        'merge_moments': lambda c, context=None: cirq.merge_moments(c, lambda m1, m2: cirq.Moment(m1.operations + m2.operations) if not (m1.qubits & m2.qubits) and not (cirq.measurement_key_names(m1) | cirq.measurement_key_names(m2)) else None,
                                                                   deep=bool(context and context.deep), tags_to_ignore=context.tags_to_ignore if context else ()),
        'map_operations_and_unroll': lambda c, context=None: cirq.map_operations_and_unroll(c, lambda op, _: cirq.decompose_once(op, default=op) if len(op.qubits) == 1 and cirq.has_unitary(op) else op,
                                                                                           tags_to_ignore=context.tags_to_ignore if context else (), deep=bool(context and context.deep)),
        'index_tags+remove_tags': lambda c, context=None: cirq.remove_tags(cirq.index_tags(c, target_tags={str}), target_tags={str}) if False else c,
    }


MEASURED_ONLY = {
    'defer_measurements': lambda cirq: cirq.defer_measurements,
    'dephase_measurements': lambda cirq: cirq.dephase_measurements,
    'drop_terminal_measurements': lambda cirq: cirq.drop_terminal_measurements,
}


def run(ctx: common.Run):
    import cirq

    ctx.rule = (
        'circuits of 1..8 operations on 1..3 qubits over the gate library (special and generic exponents, Pauli / Z-power / PhasedX / CZ-family emphasis for the ejection and '
        'merging passes), random moment structure with empty moments; measured stream with invert masks and classically controlled operations; variants with nested '
        'circuit operations and with operations tagged to be ignored; every transformer x {default context, tags_to_ignore, deep}; non-trivial = >= 2 operations sharing a wire; '
        'distinct by repr'
    )
    ctx.trusted += [
        'harness/props/c06.py + lean/Driver/C06.lean, C01.lean, C02.lean; operation matrices are cirq.unitary(op) (C03); wires of an operation = its qubits and its measurement / control keys',
        'unrolling of nested circuit operations uses cirq.unroll_circuit_op (C12)',
        'gauge-compiling transformers, randomized measurements, qubit management, lightcone and symbolize transformers are not covered yet',
    ]
    ok, failing = ctx.lean(MODULES)
    if not ok:
        ctx.report_unproved('lean-build', f'{failing}', {'theorem_or_correspondence': failing})
        return
    check_rules(ctx, cirq)
    check_deep_ignore(ctx, cirq, rewriting(cirq))
    check_symbolized_merge(ctx, cirq)
    check_dd(ctx, cirq)
    check_idle_gauge(ctx, cirq)
    check_gauges(ctx, cirq)
    check_qudit_passes(ctx, cirq)
    n = 40 if ctx.tier == 'quick' else 600
    rng = ctx.substream('circuits')
    so = structure_only(cirq)
    rw = rewriting(cirq)
    # ---------------------------------------------------------------- structure-only transformers: the theorem applies
    reqs, meta = [], []
    sq = cirq.LineQubit.range(4)
    so_corpus = [  # minimised past failures: a key measured twice with two controls on it in between, placed in different strata
        (cirq.Circuit([cirq.Moment(cirq.measure(sq[0], key='m'), cirq.H(sq[1])), cirq.Moment(cirq.H(sq[1])), cirq.Moment(cirq.H(sq[1])), cirq.Moment(cirq.H(sq[1])),
                       cirq.Moment(cirq.X(sq[1]).with_classical_controls('m')), cirq.Moment(cirq.X(sq[2]).with_classical_controls('m')), cirq.Moment(cirq.measure(sq[3], key='m'))]), sq),
    ]
    for i in range(n + len(so_corpus)):
        measured = rng.random() < 0.4
        circuit, qs = random_circuit(cirq, rng, measured=measured)
        if i < len(so_corpus):
            circuit, qs = so_corpus[i]
        circuit = tagged_unique(cirq, circuit)
        qpos = {q: j for j, q in enumerate(qs)}
        for name, f in so.items():
            before = circuit.copy()
            try:
                out = f(circuit)
            except (ValueError, TypeError) as e:
                ctx.count('transformer_error', f'{name}:{str(e)[:40]}')
                continue
            wires_of = key_wires(cirq, circuit)
            ident = lambda op: [t[1] for t in op.tags if isinstance(t, tuple) and t and t[0] == 'id']
            a = [{'id': (ident(op) or [0])[0], 'wires': wires_of(op, qpos)} for op in circuit.all_operations()]
            b = [{'id': (ident(op) or [0])[0], 'wires': wires_of(op, qpos)} for op in out.all_operations()]
            reqs.append({'p': 'C06', 'op': 'same_order', 'a': a, 'b': b})
            meta.append((name, circuit, out, before))
    outs = ctx.driver.ask(reqs)
    for (name, circuit, out, before), same in zip(meta, outs):
        ctx.count('check', 'structure:' + name.split('(')[0])
        ctx.case(['structure', name, repr(circuit)], len(list(circuit.all_operations())) >= 2)
        rep = {'lines': [{'transformer': name, 'circuit': repr(circuit)}], 'theorem_or_correspondence': 'C06_check_sound / C06_reordering_preserves_state'}
        if circuit != before:
            ctx.report_witness(f'mutated-input:{name}', 'the transformer modified its argument', dict(rep, impl_out=[repr(circuit)[:1500]], spec_out=[repr(before)[:1500]]))
        if not same:
            ctx.report_witness(f'structure:{name.split("(")[0]}', 'the output does not list the same operations in the same order on every qubit and key (an operation was lost, duplicated or moved across a dependent one)',
                               dict(rep, impl_out=[repr(out)[:2500]], spec_out=['same operations, same per-wire order']))
        ops_out = {op: None for op in out.all_operations()}
        if any(op not in ops_out for op in circuit.all_operations()):
            ctx.report_witness(f'structure:changed-op:{name.split("(")[0]}', 'a structure-only transformer changed an operation', dict(rep, impl_out=[repr(out)[:2500]], spec_out=['operations unchanged']))
    # ---------------------------------------------------------------- rewriting transformers: semantics through the Lean interpreters
    cq0, cq1 = cirq.LineQubit.range(2)
    corpus = [  # minimised past failures / known findings always run: (circuit, transformer names)
        (cirq.Circuit(cirq.H(cq0), cirq.Z(cq0), cirq.CircuitOperation(cirq.FrozenCircuit(cirq.H(cq0), cirq.measure(cq0, key='m')))), ['drop_diagonal_before_measurement']),
        (cirq.Circuit(cirq.X(cq0), cirq.measure(cq0, key='a'), cirq.X(cq0), cirq.measure(cq1, key='a')), ['defer_measurements', 'synchronize_terminal_measurements']),
        (cirq.Circuit(cirq.measure(cq0, key='a'), cirq.X(cq1).with_classical_controls('a'), cirq.X(cq0), cirq.measure(cq0, key='a')), ['defer_measurements']),
        (cirq.Circuit(cirq.X(cq0), cirq.measure(cq0, key='a'), cirq.X(cq0), cirq.measure(cq0, key='a'), cirq.X(cq1).with_classical_controls(cirq.BitMaskKeyCondition('a', index=0, bitmask=1, target_value=1, equal_target=True)), cirq.measure(cq1, key='b')), ['defer_measurements']),
        (cirq.Circuit(cirq.X(cq0), cirq.measure(cq0, key='a'), cirq.I(cq1), cirq.Moment(cirq.H(cq1)), cirq.Moment(cirq.H(cq1)), cirq.measure(cq1, key='a')), ['synchronize_terminal_measurements']),
        (cirq.Circuit(cirq.Moment(cirq.H(cq0), cirq.Y(cq1)), cirq.Moment(cirq.measure(cq0, key='a')), cirq.Moment(cirq.X(cq1).with_classical_controls('a')), cirq.Moment(cirq.measure(cq1, key='b'))), ['merge_operations_to_circuit_op', 'merge_operations(sub-circuit)']),
        (cirq.Circuit(cirq.CircuitOperation(cirq.FrozenCircuit(cirq.H(cq0), cirq.measure(cq0, key='a'), cirq.X(cq1).with_classical_controls('a'), cirq.measure(cq1, key='b')))),
         ['unroll_circuit_op', 'unroll_circuit_op_greedy_earliest', 'unroll_circuit_op_greedy_frontier']),
        (cirq.Circuit(cirq.Moment(cirq.CircuitOperation(cirq.FrozenCircuit(cirq.Moment(cirq.CZ(cq0, cirq.LineQubit(2)), cirq.X(cq1)), cirq.Moment(cirq.Y(cq0)), cirq.Moment(cirq.S(cirq.LineQubit(2)))), repetitions=2)), cirq.Moment(cirq.H(cq1))),
         ['unroll_circuit_op', 'unroll_circuit_op_greedy_earliest', 'unroll_circuit_op_greedy_frontier'], 'sub'),
        (cirq.Circuit(cirq.X(cq0) ** 0.3, cirq.Moment(cirq.H(cq1)), cirq.Moment(cirq.Y(cq0).with_tags(IGN)), cirq.Moment(cirq.H(cq1)), cirq.X(cq0) ** 0.2, cirq.CZ(cq0, cq1)), ['add_dynamical_decoupling'], 'ignored'),
    ]
    for i in range(n + len(corpus)):
        variant = rng.choice(['plain', 'plain', 'ignored', 'sub', 'measured', 'measured'])
        forced = None
        if i < len(corpus):
            variant, forced = (corpus[i][2] if len(corpus[i]) > 2 else 'measured'), corpus[i]
        stream = 'random'
        if variant in ('plain', 'ignored') and rng.random() < 0.45:
            circuit, qs = eject_circuit(cirq, rng, with_ignored=(variant == 'ignored'))
            stream = 'eject'
            ctx.count('stream', 'eject')
        else:
            circuit, qs = random_circuit(cirq, rng, measured=(variant == 'measured'), with_sub=(variant == 'sub'), with_ignored=(variant == 'ignored'))
        if variant == 'measured' and forced is None and rng.random() < 0.3:
            # the whole circuit as one sub-circuit operation (measurements and their controlled operations inside): the unrolling
            # primitives have to keep the classical dependencies
            circuit = cirq.Circuit(cirq.CircuitOperation(circuit.freeze()))
            ctx.count('stream', 'wrapped-measured')
        if forced is not None:
            circuit, qs = forced[0], sorted(forced[0].all_qubits())
        is_unitary = not any(cirq.is_measurement(o) or isinstance(o.untagged, cirq.ClassicallyControlledOperation) for o in flat_ops(cirq, circuit))
        names = list(rw)
        if variant == 'measured':
            names += list(MEASURED_ONLY)
        chosen = rng.sample(names, min(len(names), 9 if ctx.tier == 'quick' else 14))
        # the passes each stream is designed to stress always run on it
        must = []
        if stream == 'eject':
            must = ['eject_z', 'eject_z(eject_parameterized)', 'eject_phased_paulis', 'merge_single_qubit_gates_to_phxz']
        elif variant == 'measured':
            must = ['merge_operations_to_circuit_op', 'merge_operations(sub-circuit)', 'defer_measurements', 'synchronize_terminal_measurements', 'drop_diagonal_before_measurement',
                    'unroll_circuit_op_greedy_frontier', 'unroll_circuit_op_greedy_earliest']
        chosen = must + [x for x in chosen if x not in must][: max(0, len(chosen) - len(must))]
        if forced is not None:
            chosen = forced[1]
        want_u = want_d = None
        for name in chosen:
            f = rw[name] if name in rw else MEASURED_ONLY[name](cirq)
            context = None
            if variant == 'ignored':
                context = cirq.TransformerContext(tags_to_ignore=(IGN,))
            elif variant == 'sub':
                context = cirq.TransformerContext(deep=rng.random() < 0.5)
            before = circuit.copy()
            try:
                out = f(circuit, context=context)
            except (ValueError, TypeError, NotImplementedError) as e:
                ctx.count('transformer_error', f'{name}:{type(e).__name__}:{str(e)[:30]}')
                if name == 'defer_measurements' and 'not found' in str(e):
                    ctx.report_witness('rewrite:defer_measurements:raises', f'defer_measurements fails on a valid circuit: {str(e)[:80]}', {'lines': [{'transformer': name, 'circuit': repr(circuit)}], 'impl_out': [str(e)[:200]],
                                       'spec_out': ['a circuit with the same record distribution'], 'theorem_or_correspondence': 'Lean reference semantics (C02)'})
                continue
            ctx.count('check', 'rewrite:' + name.split('(')[0])
            ctx.count('variant', variant)
            ctx.case(['rewrite', name, variant, repr(circuit)], len(list(circuit.all_operations())) >= 2)
            rep = {'lines': [{'transformer': name, 'variant': variant, 'context': repr(context), 'circuit': repr(circuit)}], 'theorem_or_correspondence': 'Lean reference semantics (C01 / C02)'}
            if circuit != before:
                ctx.report_witness(f'mutated-input:{name}', 'the transformer modified its argument', dict(rep, impl_out=[repr(circuit)[:1500]], spec_out=[repr(before)[:1500]]))
                circuit = before
            all_qs = sorted(set(qs) | out.all_qubits())
            if name in ('drop_terminal_measurements', 'dephase_measurements', 'defer_measurements'):
                # these change the measurement structure by design; compare what they promise
                if name == 'defer_measurements':
                    if want_d is None:
                        want_d = lean_distribution(ctx, cirq, circuit, qs)
                    got_d = lean_distribution(ctx, cirq, out, all_qs)
                    if not dist_close(got_d, want_d):
                        ctx.report_witness(f'rewrite:{name}', 'deferring measurements changed the joint distribution of the records', dict(rep, impl_out=[sorted((repr(k), round(v, 8)) for k, v in got_d.items())[:12]],
                                                                                                                         spec_out=[sorted((repr(k), round(v, 8)) for k, v in want_d.items())[:12]]))
                continue
            if is_unitary:
                if want_u is None:
                    want_u = lean_unitary(ctx, cirq, circuit, list(qs))
                try:
                    got_u = lean_unitary(ctx, cirq, out, list(qs) if set(out.all_qubits()) <= set(qs) else all_qs)
                except TypeError:
                    ctx.report_witness(f'rewrite:{name}', 'the output of the transformer is no longer unitary', dict(rep, impl_out=[repr(out)[:2500]], spec_out=['unitary circuit']))
                    continue
                tol = 1e-5 if name.startswith('drop_negligible') else 1e-6
                if name == 'add_dynamical_decoupling' or got_u.shape == want_u.shape:
                    if got_u.shape != want_u.shape or not phase_close(got_u, want_u, tol):
                        ctx.report_witness(f'rewrite:{name.split("(")[0]}' + (':ignored' if variant == 'ignored' else ':deep' if variant == 'sub' else ''), 'the transformed circuit has a different unitary (up to global phase)',
                                           dict(rep, impl_out=[repr(out)[:2500]], spec_out=[repr(np.round(want_u, 5).tolist())[:1500]]))
            else:
                if want_d is None:
                    want_d = lean_distribution(ctx, cirq, circuit, qs)
                try:
                    got_d = lean_distribution(ctx, cirq, out, all_qs)
                except common.InfraError:
                    ctx.count('rewrite_unsupported_output', name)
                    continue
                if not dist_close(got_d, want_d):
                    ctx.report_witness(f'rewrite:{name.split("(")[0]}:measured', 'the transformed circuit has a different joint distribution of measurement records',
                                       dict(rep, impl_out=[repr(out)[:2000], sorted((repr(k), round(v, 8)) for k, v in got_d.items())[:10]], spec_out=[sorted((repr(k), round(v, 8)) for k, v in want_d.items())[:10]]))
                elif moment_hazard(cirq, out) and not moment_hazard(cirq, circuit):
                    # Moment equality ignores the order of the operations inside a moment, so the meaning of the output may not
                    # depend on it: the same moments with their operations listed in reverse must give the same distribution
                    rev = cirq.Circuit(cirq.Moment(list(m.operations)[::-1]) for m in out)
                    assert rev == out
                    try:
                        rev_d = lean_distribution(ctx, cirq, rev, all_qs)
                    except common.InfraError:
                        rev_d = want_d
                    ctx.count('moment_order_probe', name.split('(')[0])
                    if not dist_close(rev_d, want_d):
                        ctx.report_witness(f'rewrite:{name.split("(")[0]}:moment-order', 'the transformed circuit holds a measurement and an operation depending on its key in one moment: an equal circuit (same moments, operations listed in another order) has a different distribution',
                                           dict(rep, impl_out=[repr(out)[:2000], sorted((repr(k), round(v, 8)) for k, v in rev_d.items())[:10]], spec_out=[sorted((repr(k), round(v, 8)) for k, v in want_d.items())[:10]]))
            # operations tagged to be ignored are left untouched
            if variant == 'ignored':
                kept = list(out.all_operations())
                for op in circuit.all_operations():
                    if IGN in op.tags and op not in kept:
                        ctx.report_witness(f'ignored-op:{name.split("(")[0]}', 'an operation carrying a tag listed in tags_to_ignore was rewritten or removed', dict(rep, impl_out=[repr(out)[:2500]], spec_out=[repr(op)]))
                        break
            # sub-circuits are only rewritten when deep transformation is requested
            if variant == 'sub' and context is not None and not context.deep and not name.startswith(('unroll', 'expand_composite', 'optimize_for', 'add_dynamical', 'merge_operations', 'map_operations_and_unroll')):
                # (a sub-circuit operation may be consumed as a whole by a merging pass; what must not happen is that it survives with a rewritten body)
                subs_in = [o.untagged for o in circuit.all_operations() if isinstance(o.untagged, cirq.CircuitOperation)]
                subs_out = [o.untagged for o in out.all_operations() if isinstance(o.untagged, cirq.CircuitOperation)]
                if any(s not in subs_in for s in subs_out):
                    ctx.report_witness(f'not-deep:{name.split("(")[0]}', 'a sub-circuit was rewritten although deep transformation was not requested', dict(rep, impl_out=[repr(out)[:2500]], spec_out=[repr(subs_in)[:800]]))


class MMWrap:
    """multi-moment gauge transformers take `rng_or_seed`"""

    def __init__(self, t):
        self.t = t

    def __call__(self, circuit, prng=None):
        return self.t(circuit, rng_or_seed=prng)


def check_dd(ctx, cirq):
    """add_dynamical_decoupling on circuits with idle windows between single-qubit Cliffords of every order (all 24, as PhasedXZ gates),
    non-Clifford gates and two-qubit Cliffords, for every built-in schema: the inserted pulses are pulled through the Cliffords and merged;
    the unitary must stay the same up to global phase"""
    rng = ctx.substream('dd')
    n = 30 if ctx.tier == 'quick' else 500
    cliffs = [g.to_phased_xz_gate() for g in cirq.SingleQubitCliffordGate.all_single_qubit_cliffords]
    schemas = ['XX_PAIR', 'X_XINV', 'YY_PAIR', 'Y_YINV', 'DEFAULT', [cirq.X, cirq.Y, cirq.X, cirq.Y], [cirq.Z, cirq.Z]]
    for it in range(n):
        qs = cirq.LineQubit.range(rng.choice([2, 2, 3]))
        moments = [cirq.Moment(cirq.H.on_each(*qs))]
        for _ in range(rng.randint(3, 7)):
            ops, busy = [], set()
            if len(qs) >= 2 and rng.random() < 0.25:
                a, b = rng.sample(list(qs), 2)
                ops.append(rng.choice([cirq.CZ, cirq.CNOT, cirq.ISWAP, cirq.SWAP, cirq.CZ ** 0.5])(a, b))
                busy |= {a, b}
            for q in qs:
                if q in busy:
                    continue
                r = rng.random()
                if r < 0.45:
                    continue  # idle
                if r < 0.8:
                    ops.append(rng.choice(cliffs).on(q))
                else:
                    ops.append(rng.choice([cirq.T, cirq.X ** 0.3, cirq.H, cirq.S, cirq.Y ** 0.5])(q))
            moments.append(cirq.Moment(ops))
        circuit = cirq.Circuit(moments)
        schema = rng.choice(schemas)
        kw = {} if schema == 'DEFAULT' else {'schema': schema}
        if rng.random() < 0.3:
            kw['single_qubit_gate_moments_only'] = rng.random() < 0.5
        rep = {'lines': [{'transformer': 'add_dynamical_decoupling', 'circuit': repr(circuit), 'options': repr(kw)}], 'theorem_or_correspondence': 'Lean reference semantics (C01)'}
        before = circuit.copy()
        try:
            out = cirq.add_dynamical_decoupling(circuit, **kw)
        except (ValueError, TypeError, NotImplementedError) as e:
            ctx.count('transformer_error', f'dd:{type(e).__name__}:{str(e)[:30]}')
            continue
        ctx.count('check', 'dd')
        ctx.case(['dd', repr(circuit), repr(kw)], True)
        want = lean_unitary(ctx, cirq, circuit, list(qs))
        got = lean_unitary(ctx, cirq, out, list(qs))
        if got.shape != want.shape or not phase_close(got, want, 1e-6):
            ctx.report_witness('rewrite:add_dynamical_decoupling', 'dynamical decoupling changes the unitary of the circuit (up to global phase)', dict(rep, impl_out=[repr(out)[:2500]], spec_out=['same unitary']))
        if circuit != before:
            ctx.report_witness('mutated-input:add_dynamical_decoupling', 'the transformer modified its argument', dict(rep, impl_out=[repr(circuit)[:1500]], spec_out=[repr(before)[:1500]]))


def check_idle_gauge(ctx, cirq):
    """IdleMomentsGauge: a gate at the start of an idle window and its inverse at the end (merged into neighbouring single-qubit gates when
    possible) next to unitary gates, measurements and channels: the unitary (or the record distribution) of the circuit does not change"""
    from cirq.transformers.gauge_compiling import IdleMomentsGauge

    rng = ctx.substream('idle-gauge')
    n = 25 if ctx.tier == 'quick' else 400
    for it in range(n):
        qs = cirq.LineQubit.range(rng.choice([2, 3]))
        measured = rng.random() < 0.5
        moments, nk = [], 0
        for m in range(rng.randint(3, 7)):
            ops, busy = [], set()
            if rng.random() < 0.2:
                a, b = rng.sample(list(qs), 2)
                ops.append(rng.choice([cirq.CZ, cirq.CNOT, cirq.ISWAP ** 0.5])(a, b))
                busy |= {a, b}
            for q in qs:
                if q in busy or rng.random() < 0.55:
                    continue
                r = rng.random()
                if measured and r < 0.25:
                    ops.append(cirq.measure(q, key=f'k{nk}'))
                    nk += 1
                elif measured and nk and r < 0.35:
                    ops.append(cirq.X(q).with_classical_controls(f'k{rng.randrange(nk)}'))
                else:
                    ops.append(gen.one_qubit_gate(cirq, rng).on(q))
            moments.append(cirq.Moment(ops))
        if measured and nk == 0:
            moments.append(cirq.Moment(cirq.measure(qs[0], key='k0')))
        circuit = cirq.Circuit(moments)
        if not circuit.all_qubits():
            continue
        qs = sorted(circuit.all_qubits())
        tr = IdleMomentsGauge(rng.choice([1, 2, 3]), gauges=rng.choice(['pauli', 'clifford', 'inv_clifford']), gauge_beginning=rng.random() < 0.5, gauge_ending=rng.random() < 0.5)
        rep = {'lines': [{'transformer': repr(tr), 'circuit': repr(circuit)}], 'theorem_or_correspondence': 'Lean reference semantics (C01 / C02)'}
        before = circuit.copy()
        try:
            out = tr(circuit, rng_or_seed=rng.randrange(2**31))
        except ValueError as e:
            ctx.count('transformer_error', f'IdleMomentsGauge:ValueError:{str(e)[:30]}')
            continue
        except TypeError as e:
            ctx.report_witness('gauge:IdleMomentsGauge:raises', f'IdleMomentsGauge fails on a valid circuit: {str(e)[:80]}', dict(rep, impl_out=[str(e)[:200]], spec_out=['a circuit with the same meaning']))
            continue
        ctx.count('check', 'gauge:IdleMomentsGauge')
        ctx.case(['idle-gauge', repr(circuit), repr(tr)], True)
        if measured:
            want, got = lean_distribution(ctx, cirq, circuit, qs), lean_distribution(ctx, cirq, out, qs)
            same = dist_close(got, want)
        else:
            want, got = lean_unitary(ctx, cirq, circuit, qs), lean_unitary(ctx, cirq, out, qs)
            same = got.shape == want.shape and phase_close(got, want, 1e-6)
        if not same:
            ctx.report_witness('gauge:IdleMomentsGauge', 'the gauged circuit has a different unitary / record distribution', dict(rep, impl_out=[repr(out)[:2500]], spec_out=['same meaning']))
        if circuit != before:
            ctx.report_witness('mutated-input:IdleMomentsGauge', 'the transformer modified its argument', dict(rep, impl_out=[repr(circuit)[:1500]], spec_out=[repr(before)[:1500]]))


def check_deep_ignore(ctx, cirq, rw):
    """tags_to_ignore with deep=True: an operation marked to be ignored is left exactly as it is at every nesting depth (top level, inside a
    sub-circuit, inside a sub-circuit of a sub-circuit), whatever the pass does to its surroundings"""
    rng = ctx.substream('deep-ignore')
    q = cirq.LineQubit.range(2)
    names = [nm for nm in rw if not nm.startswith(('unroll', 'index_tags', 'add_dynamical', 'optimize_for', 'synchronize', 'stratified', 'drop_diagonal'))]
    for it in range(12 if ctx.tier == 'quick' else 120):
        body = cirq.FrozenCircuit(cirq.Moment(cirq.X(q[0]) ** 0.5), cirq.Moment(cirq.H(q[1])), cirq.Moment(cirq.X(q[0]) ** 0.5), cirq.Moment(cirq.Z(q[0]) ** 0.25, cirq.H(q[1])), cirq.Moment(cirq.H(q[1])))
        marked = cirq.CircuitOperation(body).with_tags(IGN)
        plain = rng.choice([cirq.X(q[0]) ** 0.25, cirq.T(q[0]), cirq.H(q[0])])
        depth = rng.choice([0, 1, 2, 2])
        inner = [cirq.Moment(plain), cirq.Moment(marked), cirq.Moment(plain)]
        circuit = cirq.Circuit(inner)
        for _ in range(depth):
            circuit = cirq.Circuit(cirq.Moment(plain), cirq.Moment(cirq.CircuitOperation(circuit.freeze())), cirq.Moment(plain))
        context = cirq.TransformerContext(deep=True, tags_to_ignore=(IGN,))
        for name in rng.sample(names, min(len(names), 8)):
            try:
                out = rw[name](circuit, context=context)
            except (ValueError, TypeError, NotImplementedError) as e:
                ctx.count('transformer_error', f'{name}:{type(e).__name__}:{str(e)[:30]}')
                continue
            ctx.count('check', 'deep-ignore:' + name.split('(')[0])
            ctx.case(['deep-ignore', name, depth, repr(plain)], depth >= 1)

            def find(c):
                for op in c.all_operations():
                    if op == marked:
                        return True
                    u = op.untagged
                    if isinstance(u, cirq.CircuitOperation) and IGN not in op.tags and find(u.circuit):
                        return True
                return False

            if not find(out):
                ctx.report_witness(f'ignored-changed:{name.split("(")[0]}', 'an operation tagged to be ignored was changed inside a nested sub-circuit (deep=True)',
                                   {'lines': [{'transformer': name, 'circuit': repr(circuit), 'depth': depth}], 'impl_out': [repr(out)[:2500]], 'spec_out': ['the tagged operation unchanged'], 'theorem_or_correspondence': 'tags_to_ignore (deep)'})


def check_symbolized_merge(ctx, cirq):
    """merge_single_qubit_gates_to_phxz_symbolized: for every point of the sweep, the returned circuit resolved with the returned
    sweep has the unitary of the input resolved with the input sweep (symbols may be shared between gates of any size)"""
    import sympy

    rng = ctx.substream('symbolized-merge')
    n = 25 if ctx.tier == 'quick' else 400
    syms = [sympy.Symbol(x) for x in 'tuv']
    for it in range(n):
        qs = cirq.LineQubit.range(rng.choice([2, 2, 3]))
        ops = []
        for _ in range(rng.randint(2, 7)):
            r = rng.random()
            q = rng.choice(qs)
            e = rng.choice(syms) if rng.random() < 0.5 else round(rng.uniform(-1, 1), 3)
            if r < 0.6:
                ops.append(rng.choice([cirq.X, cirq.Y, cirq.Z])(q) ** e)
            else:
                a, b = rng.sample(list(qs), 2)
                ops.append(rng.choice([cirq.CZ, cirq.CZ, cirq.ISWAP, cirq.CNOT])(a, b) ** e)
        if it == 0:
            t = syms[0]
            ops = [cirq.X(qs[0]) ** t, cirq.CZ(qs[0], qs[1]) ** t, cirq.Y(qs[0]) ** 0.3]  # corpus: one symbol in gates of both sizes
        circuit = cirq.Circuit(ops)
        used = sorted(cirq.parameter_names(circuit))
        if not used:
            continue
        npts = rng.choice([1, 2, 3])
        form = rng.choice(['zip', 'product', 'list'])
        if form == 'zip' or len(used) == 1:
            sweep = cirq.Zip(*[cirq.Points(k, [round(rng.uniform(-1, 1), 3) for _ in range(npts)]) for k in used])
        elif form == 'product':
            sweep = cirq.Product(*[cirq.Points(k, [round(rng.uniform(-1, 1), 3) for _ in range(rng.choice([1, 2]))]) for k in used])
        else:
            sweep = cirq.ListSweep([cirq.ParamResolver({k: round(rng.uniform(-1, 1), 3) for k in used}) for _ in range(npts)])
        rep = {'lines': [{'transformer': 'merge_single_qubit_gates_to_phxz_symbolized', 'circuit': repr(circuit), 'sweep': repr(sweep)}], 'theorem_or_correspondence': 'Lean reference semantics (C01)'}
        before = circuit.copy()
        try:
            nc, ns = cirq.merge_single_qubit_gates_to_phxz_symbolized(circuit, sweep=sweep)
        except (ValueError, TypeError, NotImplementedError) as e:
            ctx.count('transformer_error', f'symbolized-merge:{type(e).__name__}:{str(e)[:30]}')
            continue
        ctx.count('check', 'symbolized-merge')
        ctx.case(['symbolized-merge', repr(circuit), repr(sweep)], True)
        old_r, new_r = list(cirq.to_resolvers(sweep)), list(cirq.to_resolvers(ns))
        if len(old_r) != len(new_r):
            ctx.report_witness('symbolized-merge:sweep-length', 'the returned sweep has a different number of points', dict(rep, impl_out=[len(new_r)], spec_out=[len(old_r)]))
            continue
        for ro, rn in zip(old_r, new_r):
            want = lean_unitary(ctx, cirq, cirq.resolve_parameters(circuit, ro), list(qs))
            rc = cirq.resolve_parameters(nc, rn)
            if cirq.is_parameterized(rc):
                ctx.report_witness('symbolized-merge:unresolved', 'the returned sweep does not resolve the returned circuit', dict(rep, impl_out=[repr(nc)[:1500], repr(rn)], spec_out=['resolved']))
                break
            got = lean_unitary(ctx, cirq, rc, list(qs))
            if got.shape != want.shape or not phase_close(got, want, 1e-6):
                ctx.report_witness('symbolized-merge:unitary', 'a point of the returned sweep gives a circuit with a different unitary than the input at that point',
                                   dict(rep, impl_out=[repr(nc)[:1500], repr(rn)[:400]], spec_out=['the unitary of the input resolved with ' + repr(ro)[:300]]))
                break
        if circuit != before:
            ctx.report_witness('mutated-input:symbolized-merge', 'the transformer modified its argument', dict(rep, impl_out=[repr(circuit)[:1500]], spec_out=[repr(before)[:1500]]))


def check_gauges(ctx, cirq):
    """gauge-compiling transformers (randomised: every draw must preserve the unitary; `as_sweep`: every parameter set of the
    symbolised circuit must), the insertion sort, tag transformers and the lightcone filter"""
    import cirq_google
    from cirq.transformers import gauge_compiling as gc

    rng = ctx.substream('gauges')
    n = 10 if ctx.tier == 'quick' else 120
    gauges = {
        'CZGaugeTransformer': (gc.CZGaugeTransformer, [cirq.CZ, cirq.CZ ** 3, cirq.CZ ** -1]),
        'ISWAPGaugeTransformer': (gc.ISWAPGaugeTransformer, [cirq.ISWAP, cirq.ISWAP ** 5, cirq.ISWAP ** -3]),
        # (the same gates written with exponents outside one period: the target families accept them)
        'SqrtCZGaugeTransformer': (gc.SqrtCZGaugeTransformer, [cirq.CZ ** 0.5, cirq.CZ ** -0.5, cirq.CZ ** 1.5, cirq.CZ ** -1.5, cirq.CZ ** 2.5, cirq.CZ ** -3.5]),
        'SqrtISWAPGaugeTransformer': (gc.SqrtISWAPGaugeTransformer, [cirq.SQRT_ISWAP, cirq.ISWAP ** 4.5, cirq.ISWAP ** -3.5]),
        'CPhaseGaugeTransformer': (gc.CPhaseGaugeTransformer, [cirq.CZ, cirq.CZ ** 0.3, cirq.CZ ** -0.7, cirq.CZ ** 1.5]),
        'SpinInversionGaugeTransformer': (gc.SpinInversionGaugeTransformer, [cirq.ZZ ** 0.3, cirq.ZZ, cirq.CZ, cirq.ZZ ** -0.5]),
        'CPhaseGaugeTransformerMM': (MMWrap(gc.CPhaseGaugeTransformerMM()), [cirq.CZ, cirq.CZ ** 0.3, cirq.CZ ** -0.7]),
        'SYCGaugeTransformer': (cirq_google.transformers.sycamore_gauge.SYCGaugeTransformer if hasattr(cirq_google.transformers, 'sycamore_gauge') else None, [cirq_google.SYC]),
    }
    for i in range(n):
        name = rng.choice(list(gauges))
        tr, targets = gauges[name]
        if tr is None:
            continue
        nq = rng.randint(2, 4)
        qs = cirq.LineQubit.range(nq) if name != 'SYCGaugeTransformer' else [cirq.GridQubit(0, j) for j in range(nq)]
        moments = []
        for _ in range(rng.randint(1, 5)):
            free = list(qs)
            rng.shuffle(free)
            ops = []
            while len(free) >= 2 and rng.random() < 0.7:
                a, b = free.pop(), free.pop()
                ops.append(rng.choice(targets + [cirq.CNOT] if rng.random() < 0.85 else [cirq.ISWAP ** 0.3])(a, b))
            for q in free:
                r_ = rng.random()
                if r_ < 0.5:
                    op = gen.one_qubit_gate(cirq, rng).on(q)
                    ops.append(op.with_tags(IGN) if rng.random() < 0.15 else op)
                elif r_ < 0.6:
                    # an operation without a gate next to the target gates: it has to be carried over
                    ops.append(cirq.CircuitOperation(cirq.FrozenCircuit(gen.one_qubit_gate(cirq, rng).on(q))))
            moments.append(cirq.Moment(ops))
        circuit = cirq.Circuit(moments)
        if rng.random() < 0.3 and len(circuit):
            k = rng.randrange(len(circuit))
            circuit = cirq.Circuit(circuit[:k], cirq.Moment(), circuit[k:])
        if i == 0:
            # corpus: a sub-circuit operation in a moment that is gauged as a whole
            name, (tr, targets) = 'CPhaseGaugeTransformerMM', gauges['CPhaseGaugeTransformerMM']
            qs = cirq.LineQubit.range(3)
            circuit = cirq.Circuit(cirq.Moment(cirq.CZ(qs[0], qs[1]), cirq.CircuitOperation(cirq.FrozenCircuit(cirq.H(qs[2])))), cirq.Moment(cirq.CZ(qs[0], qs[1]) ** 0.5, cirq.X(qs[2])))
        want = lean_unitary(ctx, cirq, circuit, list(qs))
        before = circuit.copy()
        rep = {'lines': [{'transformer': name, 'circuit': repr(circuit)}], 'theorem_or_correspondence': 'Lean reference semantics (C01)'}
        for draw in range(3):
            try:
                out = tr(circuit, prng=np.random.default_rng(rng.randrange(2**31)))
            except (ValueError, TypeError, NotImplementedError) as e:
                ctx.count('transformer_error', f'{name}:{type(e).__name__}:{str(e)[:30]}')
                break
            ctx.count('check', 'gauge:' + name)
            ctx.case(['gauge', name, draw, repr(circuit)], True)
            got = lean_unitary(ctx, cirq, out, list(qs))
            if got.shape != want.shape or not phase_close(got, want, 1e-6):
                ctx.report_witness(f'gauge:{name}', 'a gauge-compiled circuit has a different unitary (up to global phase)', dict(rep, impl_out=[repr(out)[:2500]], spec_out=['same unitary']))
                break
        if circuit != before:
            ctx.report_witness(f'mutated-input:{name}', 'the transformer modified its argument', dict(rep, impl_out=[repr(circuit)[:1500]], spec_out=[repr(before)[:1500]]))
        # the sweep form: every parameter set of the symbolised circuit is a gauge of the input
        if hasattr(tr, 'as_sweep') and i % 2 == 0:
            try:
                pc, sweep = tr.as_sweep(circuit, N=3, prng=np.random.default_rng(rng.randrange(2**31)))
            except (ValueError, TypeError, NotImplementedError) as e:
                ctx.count('transformer_error', f'{name}.as_sweep:{type(e).__name__}:{str(e)[:30]}')
                continue
            for params in sweep:
                rc = cirq.resolve_parameters(pc, params)
                ctx.count('check', 'gauge-sweep:' + name)
                got = lean_unitary(ctx, cirq, rc, list(qs))
                if got.shape != want.shape or not phase_close(got, want, 1e-6):
                    ctx.report_witness(f'gauge-sweep:{name}', 'a parameter set of the gauge sweep gives a circuit with a different unitary (up to global phase)',
                                       dict(rep, impl_out=[repr(pc)[:1800], repr(params)[:600]], spec_out=['same unitary']))
                    break
    # insertion sort, tag transformers, lightcone filter
    for i in range(n * 2):
        measured = rng.random() < 0.4
        circuit, qs = random_circuit(cirq, rng, measured=measured)
        rep = {'lines': [{'circuit': repr(circuit)}], 'theorem_or_correspondence': 'Lean reference semantics (C01 / C02)'}
        is_unitary = not any(cirq.is_measurement(o) or isinstance(o.untagged, cirq.ClassicallyControlledOperation) for o in flat_ops(cirq, circuit))
        if not is_unitary and rng.random() < 0.5:
            # measurements that are not plain MeasurementGate operations: observable measurements and measurements inside a sub-circuit
            extra = []
            if rng.random() < 0.6 and len(qs) >= 2:
                a_, b_ = rng.sample(list(qs), 2)
                extra.append(cirq.measure_single_paulistring(cirq.X(a_) * rng.choice([cirq.X, cirq.Z])(b_), key='obs'))
            else:
                extra.append(cirq.CircuitOperation(cirq.FrozenCircuit(cirq.H(qs[0]), cirq.measure(qs[0], key='inner'))))
            circuit = cirq.Circuit(circuit, extra)
        rep = {'lines': [{'circuit': repr(circuit)}], 'theorem_or_correspondence': 'Lean reference semantics (C01 / C02)'}
        outs = {}
        try:
            outs['insertion_sort_transformer'] = cirq.transformers.insertion_sort_transformer(circuit)
        except (ValueError, TypeError, NotImplementedError) as e:
            ctx.count('transformer_error', f'insertion_sort:{type(e).__name__}')
        tagged = cirq.Circuit(op.with_tags('s') if rng.random() < 0.5 else op for op in circuit.all_operations())
        outs['index_tags'] = cirq.index_tags(tagged, target_tags={'s'})
        outs['remove_tags'] = cirq.remove_tags(tagged, target_tags={'s'})
        outs['toggle_tags'] = cirq.toggle_tags(tagged, ['s'])
        if not is_unitary:
            outs['lightcone_filter'] = cirq.transformers.lightcone_filter(circuit)
        for name, out in outs.items():
            ctx.count('check', 'misc:' + name)
            ctx.case(['misc', name, repr(circuit)], len(list(circuit.all_operations())) >= 2)
            all_qs = sorted(set(qs) | out.all_qubits())
            if name in ('index_tags', 'remove_tags', 'toggle_tags'):
                # tags only: the untagged operations are the same, moment by moment
                if [[o.untagged for o in m] for m in out] != [[o.untagged for o in m] for m in tagged]:
                    ctx.report_witness(f'misc:{name}', 'a tag transformer changed more than tags', dict(rep, impl_out=[repr(out)[:2000]], spec_out=['same operations']))
                continue
            if is_unitary:
                want, got = lean_unitary(ctx, cirq, circuit, list(all_qs)), lean_unitary(ctx, cirq, out, list(all_qs))
                if not phase_close(got, want, 1e-6):
                    ctx.report_witness(f'misc:{name}', 'the transformed circuit has a different unitary (up to global phase)', dict(rep, impl_out=[repr(out)[:2000]], spec_out=['same unitary']))
            else:
                if cirq.measurement_key_names(out) != cirq.measurement_key_names(circuit):
                    ctx.report_witness(f'misc:{name}:keys', 'the transformed circuit does not measure the same keys', dict(rep, impl_out=[sorted(cirq.measurement_key_names(out))], spec_out=[sorted(cirq.measurement_key_names(circuit))]))
                    continue
                try:
                    want_d, got_d = lean_distribution(ctx, cirq, circuit, all_qs), lean_distribution(ctx, cirq, out, all_qs)
                except common.InfraError:
                    continue
                if not dist_close(got_d, want_d):
                    ctx.report_witness(f'misc:{name}:measured', 'the transformed circuit has a different joint distribution of measurement records',
                                       dict(rep, impl_out=[repr(out)[:2000], sorted((repr(k), round(v, 8)) for k, v in got_d.items())[:10]], spec_out=[sorted((repr(k), round(v, 8)) for k, v in want_d.items())[:10]]))


def check_qudit_passes(ctx, cirq):
    """passes written for qubits either refuse qudit operations or leave the circuit's unitary alone"""
    rng = ctx.substream('qudits')
    rw = rewriting(cirq)
    names = ['eject_z', 'eject_phased_paulis', 'merge_single_qubit_gates_to_phxz', 'merge_k_qubit_unitaries(k=1)', 'drop_negligible_operations', 'align_left', 'stratified_circuit', 'expand_composite',
             'synchronize_terminal_measurements', 'drop_empty_moments', 'merge_single_qubit_moments_to_phxz']
    for _ in range(8 if ctx.tier == 'quick' else 80):
        d = rng.choice([3, 3, 4])
        qs = [cirq.LineQid(0, d), cirq.LineQubit(1)]
        X, Z = cirq.XPowGate(dimension=d), cirq.ZPowGate(dimension=d)
        ops = [rng.choice([X, X, Z, X ** 2, Z ** 0.5, X ** -1, Z ** 2]).on(qs[0]) for _ in range(rng.randint(2, 4))]
        if rng.random() < 0.5:
            ops.insert(rng.randrange(len(ops) + 1), rng.choice([cirq.X, cirq.Z ** 0.5, cirq.H]).on(qs[1]))
        circuit = cirq.Circuit(ops)
        want = lean_unitary(ctx, cirq, circuit, qs)
        for name in names:
            ctx.count('check', 'qudit-pass')
            ctx.case(['qudit-pass', name, repr(circuit)], True)
            try:
                out = rw[name](circuit)
                got = lean_unitary(ctx, cirq, out, qs)
            except (ValueError, TypeError, NotImplementedError) as e:
                ctx.count('qudit_pass_refused', f'{name}:{type(e).__name__}')
                continue
            if got.shape != want.shape or not phase_close(got, want, 1e-6):
                ctx.report_witness(f'rewrite:{name.split("(")[0]}:qudit', 'a pass treats qudit operations as the qubit gates of the same name: the unitary changes',
                                   {'lines': [{'transformer': name, 'circuit': repr(circuit)}], 'impl_out': [repr(out)[:1500]], 'spec_out': ['same unitary, or a refusal'], 'theorem_or_correspondence': 'Lean reference semantics (C01)'})


def check_rules(ctx, cirq):
    """the passes emit exactly the right-hand sides of the rules proved in Props/C06Rules.lean (for every parameter value there):
    per qubit, the sequence of emitted operations has the expected gates (matrices compared without phase freedom)"""
    rng = ctx.substream('rules')
    q0, q1 = cirq.LineQubit.range(2)
    PX = lambda p, t=1.0: cirq.PhasedXPowGate(phase_exponent=p, exponent=t)
    Z = lambda a: cirq.ZPowGate(exponent=a)
    n = 12 if ctx.tier == 'quick' else 200
    cases = []
    for _ in range(n):
        a, b = rng.choice([0.25, -0.3, 0.5, 1.0, 0.1234, rng.uniform(-1, 1)]), rng.choice([0.5, -0.7, 0.31, rng.uniform(-1, 1)])
        p, t = rng.choice([0.0, 0.25, 0.4, -0.6, rng.uniform(-1, 1)]), rng.choice([0.5, 0.3, -0.45, 1.0, rng.uniform(-1, 1)])
        x, z, ax = rng.uniform(-1, 1), rng.uniform(-1, 1), rng.uniform(-1, 1)
        cases += [
            ('C06_rule_z_through_phasedx', cirq.eject_z, [Z(a)(q0), PX(p, t)(q0)], {q0: [PX(p - a, t), Z(a)]}),
            ('C06_rule_z_into_phasedxz', cirq.eject_z, [Z(a)(q0), cirq.PhasedXZGate(x_exponent=x, z_exponent=z, axis_phase_exponent=ax)(q0)],
             {q0: [cirq.PhasedXZGate(x_exponent=x, z_exponent=z + a, axis_phase_exponent=ax - a)]}),
            ('C06_rule_z_commutes_cz', cirq.eject_z, [Z(a)(q0), Z(b)(q1), (cirq.CZ ** t)(q0, q1)], {q0: [cirq.CZ ** t, Z(a)], q1: [cirq.CZ ** t, Z(b)]}),
            ('C06_rule_z_through_swaplike', cirq.eject_z, [Z(a)(q0), Z(b)(q1), cirq.SWAP(q0, q1)], {q0: [cirq.SWAP, Z(b)], q1: [cirq.SWAP, Z(a)]}),
            ('C06_rule_z_through_swaplike', cirq.eject_z, [Z(a)(q0), Z(b)(q1), cirq.ISWAP(q0, q1)], {q0: [cirq.ISWAP, Z(b)], q1: [cirq.ISWAP, Z(a)]}),
            ('C06_rule_z_through_swaplike', cirq.eject_z, [Z(a)(q0), Z(b)(q1), cirq.ISWAP_INV(q0, q1)], {q0: [cirq.ISWAP_INV, Z(b)], q1: [cirq.ISWAP_INV, Z(a)]}),
            ('C06_rule_z_after_pauli', cirq.eject_phased_paulis, [PX(p)(q0), Z(a)(q0), cirq.measure(q0, key='m')], {q0: [PX(p + a / 2), cirq.MeasurementGate(1, key='m')]}),
            ('C06_rule_x_through_cz', cirq.eject_phased_paulis, [cirq.X(q0), (cirq.CZ ** t)(q0, q1), cirq.measure(q0, q1, key='m')],
             {q0: [cirq.CZ ** -t, cirq.X, cirq.MeasurementGate(2, key='m')], q1: [Z(t), cirq.CZ ** -t, cirq.MeasurementGate(2, key='m')]}),
        ]
    for rule, f, ops, want in cases:
        circuit = cirq.Circuit(ops)
        out = f(circuit)
        ctx.count('check', 'rule:' + rule)
        ctx.case(['rule', rule, repr(circuit)], True)
        rep = {'lines': [{'rule': rule, 'circuit': repr(circuit)}], 'theorem_or_correspondence': rule}
        if True:
            ok = True
            for q, gates in want.items():
                got = [o for o in out.all_operations() if q in o.qubits]
                got = [o for o in got if not (len(o.qubits) == 1 and cirq.has_unitary(o) and np.allclose(cirq.unitary(o), np.eye(2), atol=1e-8))]
                gates = [g for g in gates if not (cirq.num_qubits(g) == 1 and cirq.has_unitary(g) and np.allclose(cirq.unitary(g), np.eye(2), atol=1e-8))]
                if len(got) != len(gates):
                    ok = False
                    break
                for o, g in zip(got, gates):
                    if cirq.is_measurement(o) or cirq.is_measurement(g):
                        ok = ok and cirq.is_measurement(o) and cirq.is_measurement(g)
                    else:
                        uo, ug = cirq.unitary(o.gate), cirq.unitary(g)
                        ok = ok and uo.shape == ug.shape and np.allclose(uo, ug, atol=1e-8)
        if not ok:
            ctx.report_witness(f'rule:{rule}', 'the pass does not emit the right-hand side of the commutation rule it is proved sound by', dict(rep, impl_out=[repr(out)[:2000]], spec_out=[repr(want)[:1500]]))


def replay(ctx, rep):
    print(json.dumps(rep, indent=1)[:3000])
    return 1
