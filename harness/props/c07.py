"""C07 — Hardware compilation: output is native, equivalent, routable and validated.

Lean (Model/C07, Props/C07): the routing bookkeeping (`MappingManager`: logical->physical and physical->logical arrays,
`apply_swap`) keeps the two arrays mutually inverse permutations under every sequence of swaps (C07_applySwap_inv,
C07_route_inv); for every sequence of router actions the physical events, read back from the initial mapping by
un-mapping operations and tracking SWAPs, are exactly the logical operations in placement order and end in the reported
mapping (C07_replay_route).  Tie (T2): `RouteCQC.route_circuit` on generated circuits x connected device graphs x initial
mappers: two-qubit operations only on graph edges; the routed circuit is read back with the Lean `replay` and must list
the original operations in an order that respects every qubit (C06 check, so the C06 theorem applies) and end in the
reported swap map; the unitary of the routed circuit followed by the inverse of that permutation equals that of the
mapped original (Lean C01 product).  Target gatesets (CZ, partial CZ, sqrt-iSWAP, Sycamore, Google CZ, IonQ, AQT, Pasqal):
output accepted by the gateset and equal up to global phase (Lean C01 product).  Devices: validate_operation accepts
exactly the gateset members on device qubits / pairs.
"""
from __future__ import annotations

import itertools
import json
import math

import numpy as np

from harness import common, gen
from harness.props.c06 import lean_unitary, phase_close

MODULES = ['CirqVerif.Props.C07', 'CirqVerif.Props.C07Timesteps', 'CirqVerif.Props.C06']


# ------------------------------------------------------------------------------ routing
def random_graph(cirq, nx, rng):
    kind = rng.choice(['line', 'grid', 'ring', 'tree', 'random'])
    if kind == 'line':
        n = rng.randint(2, 6)
        nodes = cirq.LineQubit.range(n)
        g = nx.Graph((nodes[i], nodes[i + 1]) for i in range(n - 1))
    elif kind == 'grid':
        r, c = rng.choice([(2, 2), (2, 3), (3, 2)])
        nodes = [cirq.GridQubit(i, j) for i in range(r) for j in range(c)]
        g = nx.Graph((a, b) for a in nodes for b in nodes if a < b and a.is_adjacent(b))
    elif kind == 'ring':
        n = rng.randint(3, 6)
        nodes = cirq.LineQubit.range(n)
        g = nx.Graph((nodes[i], nodes[(i + 1) % n]) for i in range(n))
    elif kind == 'tree':
        n = rng.randint(3, 6)
        nodes = cirq.LineQubit.range(n)
        g = nx.Graph((nodes[i], nodes[rng.randrange(i)]) for i in range(1, n))
    else:
        n = rng.randint(3, 6)
        nodes = cirq.LineQubit.range(n)
        g = nx.Graph((nodes[i], nodes[rng.randrange(i)]) for i in range(1, n))
        for _ in range(rng.randint(0, 3)):
            a, b = rng.sample(nodes, 2)
            g.add_edge(a, b)
    return g


def check_timesteps(ctx, cirq, n):
    """RouteCQC's factoring of a circuit into timesteps (two-qubit skeleton + one-qubit operations per timestep) against the Lean model
    (Model/C07Timesteps; Props/C07Timesteps proves it respects every qubit and key dependency): both lists compared exactly"""
    rng = ctx.substream('timesteps')
    reqs, meta = [], []
    for it in range(n):
        qs = cirq.LineQubit.range(rng.randint(2, 4))
        ops, desc, nk = [], [], 0
        for k in range(rng.randint(1, 10)):
            r = rng.random()
            ident = k + 1
            if r < 0.35 and len(qs) >= 2:
                a, b = rng.sample(list(qs), 2)
                if nk and rng.random() < 0.2:
                    key = rng.randrange(nk)
                    op = cirq.CZ(a, b).with_classical_controls(f'k{key}')
                    desc.append({'id': ident, 'q': [a.x, b.x], 'm': [], 'c': [key]})
                elif rng.random() < 0.15:
                    op = cirq.measure(a, b, key=f'k{nk}')
                    desc.append({'id': ident, 'q': [a.x, b.x], 'm': [nk], 'c': []})
                    nk += 1
                else:
                    op = rng.choice([cirq.CZ, cirq.CNOT, cirq.ISWAP ** 0.5])(a, b)
                    desc.append({'id': ident, 'q': [a.x, b.x], 'm': [], 'c': []})
            else:
                q = rng.choice(qs)
                if r < 0.55 or (r < 0.75 and nk == 0):
                    op = cirq.measure(q, key=f'k{nk}')
                    desc.append({'id': ident, 'q': [q.x], 'm': [nk], 'c': []})
                    nk += 1
                elif r < 0.75:
                    key = rng.randrange(nk)
                    op = cirq.X(q).with_classical_controls(f'k{key}')
                    desc.append({'id': ident, 'q': [q.x], 'm': [], 'c': [key]})
                else:
                    op = rng.choice([cirq.H, cirq.T, cirq.X ** 0.5])(q)
                    desc.append({'id': ident, 'q': [q.x], 'm': [], 'c': []})
            ops.append(op.with_tags(('id', ident)))
        try:
            circuit = cirq.Circuit(ops)
        except ValueError:
            continue
        # the model reads the operations moment by moment, in the order the implementation iterates them
        order = [[t[1] for t in o.tags if isinstance(t, tuple)][0] for m in circuit for o in m]
        by_id = {d['id']: d for d in desc}
        reqs.append({'p': 'C07', 'op': 'timesteps', 'ops': [by_id[i] for i in order]})
        meta.append(circuit)
    for circuit, want in zip(meta, ctx.driver.ask(reqs)):
        ctx.count('check', 'timesteps')
        ctx.case(['timesteps', repr(circuit)], True)
        try:
            two, single = cirq.RouteCQC._get_one_and_two_qubit_ops_as_timesteps(circuit)
        except ValueError as e:
            ctx.count('route_rejected', str(e)[:50])
            continue
        ids = lambda l: [[[t[1] for t in o.tags if isinstance(t, tuple)][0] for o in m] for m in l]
        got = {'two': ids(two), 'single': ids(single)}
        norm = lambda d: {'two': [sorted(m) for m in d['two']], 'single': [list(m) for m in d['single']]}
        # (trailing empty timesteps carry nothing)
        strip = lambda d: {k: v[: max([i + 1 for i, m in enumerate(d['two']) if m] + [i + 1 for i, m in enumerate(d['single']) if m] + [0])] for k, v in d.items()}
        if strip(norm(got)) != strip(norm(want)):
            ctx.report_witness('route:timesteps', 'the timestep factoring of the circuit differs from the model (an operation in another timestep, or one-qubit operations in another order)',
                               {'lines': [{'circuit': repr(circuit)}], 'impl_out': [got], 'spec_out': [want], 'theorem_or_correspondence': 'Model.C07.runTS (C07_timesteps_respect_dependencies)'})


def check_routing(ctx, cirq, nx, n):
    rng = ctx.substream('routing')
    for i in range(n):
        g = random_graph(cirq, nx, rng)
        phys = sorted(g.nodes)
        nl = rng.randint(2, len(phys))
        logical = [cirq.NamedQubit(f'l{j}') for j in range(nl)]
        ops = []
        for k in range(rng.randint(1, 9)):
            if rng.random() < 0.65 and nl >= 2:
                gate = rng.choice([cirq.CZ, cirq.CNOT, cirq.ISWAP ** 0.5, cirq.CZ ** 0.3, cirq.SWAP, cirq.FSimGate(0.3, 0.2)])
                ops.append(gate.on(*rng.sample(logical, 2)).with_tags(('id', k + 1)))
            else:
                ops.append(gen.one_qubit_gate(cirq, rng).on(rng.choice(logical)).with_tags(('id', k + 1)))
        if rng.random() < 0.3:
            # measurements and the operations they control: routing must keep every operation after the measurement it depends on
            nk = 0
            for k in range(len(ops), len(ops) + rng.randint(2, 5)):
                r_ = rng.random()
                if r_ < 0.45 or nk == 0:
                    ops.append(cirq.measure(rng.choice(logical), key=f'k{nk}').with_tags(('id', k + 1)))
                    nk += 1
                elif r_ < 0.8:
                    ops.append(rng.choice([cirq.X, cirq.Z, cirq.H])(rng.choice(logical)).with_classical_controls(f'k{rng.randrange(nk)}').with_tags(('id', k + 1)))
                else:
                    ops.append(rng.choice([cirq.CZ, cirq.CNOT])(*rng.sample(logical, 2)).with_tags(('id', k + 1)))
            ctx.count('route_stream', 'measured')
        circuit = cirq.Circuit(ops)
        used = sorted(circuit.all_qubits())
        router = cirq.RouteCQC(g)
        mapper = None
        if rng.random() < 0.4:
            # a hard-coded initial mapping may also place logical qubits the circuit does not use (they can be swapped through, and the
            # reported permutation has to account for them)
            spect = [cirq.NamedQubit(f's{j}') for j in range(rng.choice([0, 0, 1, 2]))][: len(phys) - len(used)]
            pl = rng.sample(phys, len(used) + len(spect))
            # a hard-coded initial mapping must place the logical qubits on a connected part of the device
            if nx.is_connected(g.subgraph(pl)):
                mapper = cirq.HardCodedInitialMapper(dict(zip(used + spect, pl)))
                if spect:
                    ctx.count('route_mapper', 'hard-coded+spectators')
        try:
            routed, init_map, swap_map = router.route_circuit(circuit, lookahead_radius=rng.choice([1, 3, 8]), tag_inserted_swaps=True, initial_mapper=mapper)
        except ValueError as e:
            ctx.count('route_rejected', str(e)[:50])
            continue
        except (IndexError, KeyError) as e:
            ctx.report_witness('route:crash', f'route_circuit crashes on a circuit and a connected device graph: {type(e).__name__}: {str(e)[:80]}',
                               {'lines': [{'circuit': repr(circuit), 'edges': [(repr(a), repr(b)) for a, b in g.edges], 'initial_mapper': repr(mapper)}], 'impl_out': [type(e).__name__], 'spec_out': ['a routed circuit'],
                                'theorem_or_correspondence': 'routing'})
            continue
        ctx.case(['route', repr(circuit), sorted(map(str, g.edges))], sum(1 for o in ops if len(o.qubits) == 2) >= 2)
        ctx.count('check', 'route')
        rep = {'lines': [{'circuit': repr(circuit), 'edges': [(repr(a), repr(b)) for a, b in g.edges], 'initial_mapper': repr(mapper)}], 'theorem_or_correspondence': 'C07_replay_route'}
        # 1. two-qubit operations on edges only
        bad = [o for o in routed.all_operations() if len(o.qubits) == 2 and not g.has_edge(*o.qubits)]
        if bad or any(len(o.qubits) > 2 for o in routed.all_operations()):
            ctx.report_witness('route:off-edge', 'the routed circuit has a two-qubit operation on a pair that is not an edge of the device graph', dict(rep, impl_out=[repr(bad)[:800]], spec_out=['edges only']))
            continue
        # 2. read the routed circuit back with the Lean model
        pidx = {q: j for j, q in enumerate(phys)}
        lq = sorted(init_map)  # logical qubits placed (the router may also map spare logical names)
        lidx = {q: j for j, q in enumerate(lq)}
        # complete the initial mapping to a permutation of the physical register (unused places hold dummy logical qubits)
        l2p = [pidx[init_map[q]] for q in lq]
        spare = [p for p in range(len(phys)) if p not in l2p]
        l2p_full = l2p + spare
        events = []
        for o in routed.all_operations():
            if cirq.RoutingSwapTag() in o.tags:
                events.append({'swap': [pidx[q] for q in o.qubits]})
            else:
                ident = [t[1] for t in o.tags if isinstance(t, tuple) and t and t[0] == 'id']
                events.append({'id': ident[0] if ident else 0, 'physical': [pidx[q] for q in o.qubits]})
        out = ctx.driver.ask([{'p': 'C07', 'op': 'replay', 'l2p': l2p_full, 'events': events}])[0]
        # measurement / control keys are wires too (numbered after the qubits); they do not move with the qubit mapping
        key_names = sorted({str(k) for o in circuit.all_operations() for k in (cirq.measurement_key_objs(o) | cirq.control_keys(o))})
        key_wires = {[t[1] for t in o.tags if isinstance(t, tuple)][0]: [1000 + key_names.index(str(k)) for k in sorted(cirq.measurement_key_objs(o) | cirq.control_keys(o), key=str)] for o in circuit.all_operations()}
        back = [{'id': o['id'], 'wires': o['qubits'] + key_wires.get(o['id'], [])} for o in out['ops']]
        orig = [{'id': [t[1] for t in o.tags if isinstance(t, tuple)][0], 'wires': [lidx[q] for q in o.qubits] + key_wires[[t[1] for t in o.tags if isinstance(t, tuple)][0]]} for o in circuit.all_operations()]
        # (gates with interchangeable qubits may be placed with their qubits exchanged: compare the wire sets per operation and the per-wire order)
        back_n = [{'id': o['id'], 'wires': sorted(o['wires'])} for o in back]
        orig_n = [{'id': o['id'], 'wires': sorted(o['wires'])} for o in orig]
        same = ctx.driver.ask([{'p': 'C06', 'op': 'same_order', 'a': orig_n, 'b': back_n}])[0]
        if not same:
            ctx.report_witness('route:readback', 'read back through the qubit mapping (tracking the inserted SWAPs) the routed circuit is not the original: an operation is missing, duplicated, on other qubits or moved across a dependent one',
                               dict(rep, impl_out=[back], spec_out=[orig]))
            continue
        asym = [o for o, b in zip(sorted(orig, key=lambda x: x['id']), sorted(back, key=lambda x: x['id'])) if o['wires'] != b['wires']]
        for o in asym:
            op_obj = [x for x in circuit.all_operations() if ('id', o['id']) in x.tags][0]
            if not np.allclose(cirq.unitary(op_obj), cirq.unitary(op_obj.gate.on(*reversed(op_obj.qubits))) if False else cirq.Circuit(op_obj).unitary(qubit_order=list(reversed(op_obj.qubits))), atol=1e-9):
                ctx.report_witness('route:readback:qubit-order', 'an operation that is not symmetric in its qubits was placed with its qubits exchanged', dict(rep, impl_out=[repr(op_obj)], spec_out=['same qubit order']))
        # 3. the reported swap map is the permutation accumulated by the SWAPs
        final_l2p = out['l2p']
        want_swap = {phys[l2p_full[j]]: phys[final_l2p[j]] for j in range(len(lq))}
        got_swap = {k: v for k, v in swap_map.items() if k in want_swap}
        if got_swap != want_swap or len(set(swap_map.values())) != len(swap_map) or set(swap_map.values()) != set(swap_map):
            ctx.report_witness('route:swap-map', 'the reported swap map is not the permutation accumulated by the inserted SWAPs', dict(rep, impl_out=[{repr(k): repr(v) for k, v in swap_map.items()}], spec_out=[{repr(k): repr(v) for k, v in want_swap.items()}]))
            continue
        # 4. numerically: routed circuit followed by the inverse permutation = original on its initial places
        if len(phys) <= 6 and not key_names:
            mapped = circuit.transform_qubits(lambda q: init_map[q])
            perm_back = []
            # undo: content now at swap_map[p] goes back to p
            cur = {p: p for p in phys}
            for src, dst in swap_map.items():
                cur[src] = dst
            targets = [cur[p] for p in phys]
            inv = [targets.index(p) for p in phys]
            undo = cirq.QubitPermutationGate(inv).on(*phys) if sorted(inv) == list(range(len(phys))) and inv != list(range(len(phys))) else None
            full = cirq.Circuit(routed, undo) if undo is not None else cirq.Circuit(routed)
            got_u = lean_unitary(ctx, cirq, full, phys)
            want_u = lean_unitary(ctx, cirq, mapped, phys)
            ctx.count('check', 'route-unitary')
            if not phase_close(got_u, want_u, 1e-6):
                # try the other direction of the permutation before reporting (the map is documented as initial -> final places)
                undo2 = cirq.QubitPermutationGate(targets).on(*phys) if sorted(targets) == list(range(len(phys))) else None
                alt = lean_unitary(ctx, cirq, cirq.Circuit(routed, undo2), phys) if undo2 is not None else None
                if alt is None or not phase_close(alt, want_u, 1e-6):
                    ctx.report_witness('route:unitary', 'the routed circuit is not the original up to the reported qubit permutation', dict(rep, impl_out=[repr(routed)[:2000]], spec_out=['original up to swap map']))


# ------------------------------------------------------------------------------ target gatesets
def gatesets(cirq):
    import cirq_aqt
    import cirq_google
    import cirq_ionq
    import cirq_pasqal

    out = {
        'CZTargetGateset': (cirq.CZTargetGateset(), 'line'),
        'CZTargetGateset(partial)': (cirq.CZTargetGateset(allow_partial_czs=True), 'line'),
        'SqrtIswapTargetGateset': (cirq.SqrtIswapTargetGateset(), 'line'),
        'SqrtIswapTargetGateset(3)': (cirq.SqrtIswapTargetGateset(required_sqrt_iswap_count=3), 'line'),
        'SycamoreTargetGateset': (cirq_google.SycamoreTargetGateset(), 'grid'),
        'GoogleCZTargetGateset': (cirq_google.GoogleCZTargetGateset(), 'grid'),
        'IonQTargetGateset': (cirq_ionq.IonQTargetGateset(), 'line'),
        'AriaNativeGateset': (cirq_ionq.AriaNativeGateset(), 'line'),
        'ForteNativeGateset': (cirq_ionq.ForteNativeGateset(), 'line'),
        'AQTTargetGateset': (cirq_aqt.aqt_target_gateset.AQTTargetGateset(), 'line'),
        'PasqalGateset': (cirq_pasqal.PasqalGateset(), 'line'),
    }
    return out


def known_gate_circuits(cirq, gs, tier):
    """every gateset x the two-qubit gates compilers keep special cases for x integer / half-integer exponents over
    more than one period, standing alone (alone in the circuit, or fenced by operations that cannot be merged with it)"""
    import cirq_google

    fams = [cirq.ISWAP, cirq.SWAP, cirq.CZ, cirq.CNOT, cirq.ZZ, cirq.XX, cirq.YY, cirq.SQRT_ISWAP, cirq.FSimGate(np.pi / 2, np.pi / 6), cirq_google.SYC, cirq.PhasedISwapPowGate(phase_exponent=0.25), cirq.givens(0.3)]
    exps = [-5, -3, -2, -1, -0.5, 0.5, 1, 2, 3, 4, 5] if tier != 'quick' else [-1, 0.5, 3]
    if tier == 'quick':
        fams = [cirq.ISWAP, cirq.SWAP, cirq.CZ, cirq.CNOT, cirq.SQRT_ISWAP, cirq.FSimGate(np.pi / 2, np.pi / 6), cirq_google.SYC]
    out = []
    for name, (gateset, layout) in gs.items():
        qs = cirq.LineQubit.range(3) if layout == 'line' else [cirq.GridQubit(0, j) for j in range(3)]
        for g in fams:
            for e in exps:
                try:
                    ge = g ** e
                except TypeError:
                    continue
                if ge is NotImplemented or ge is None:
                    continue
                out.append((name, qs, cirq.Circuit(ge.on(qs[0], qs[1]))))
                if tier != 'quick' or (e == -1 and g in (cirq.ISWAP, cirq.SWAP)):
                    out.append((name, qs, cirq.Circuit(cirq.CZ(qs[1], qs[2]), ge.on(qs[0], qs[1]), cirq.CZ(qs[1], qs[2]))))
        # named single-qubit gates standing alone (alone in the circuit, on a qubit next to an unrelated two-qubit gate, as a one-operation
        # sub-circuit): compilers keep exact-gate fast paths for them that merging usually hides
        ones = [cirq.H, cirq.X, cirq.Y, cirq.Z, cirq.S, cirq.T, cirq.H ** 0.5, cirq.X ** 0.5, cirq.Y ** -0.5, cirq.S ** -1, cirq.HPowGate(exponent=1, global_shift=0.25), cirq.rx(np.pi), cirq.ry(np.pi / 2)]
        if tier == 'quick':
            ones = [cirq.H] + ones[1 + (len(name) % 2)::2]
        for g1 in ones:
            out.append((name, qs, cirq.Circuit(g1.on(qs[0]))))
            out.append((name, qs, cirq.Circuit(cirq.CZ(qs[1], qs[2]), g1.on(qs[0]))))
            if tier != 'quick' or g1 == cirq.H:
                out.append((name, qs, cirq.Circuit(cirq.CircuitOperation(cirq.FrozenCircuit(g1.on(qs[0]))), cirq.CZ(qs[1], qs[2]))))
                out.append((name, qs, cirq.Circuit(g1.on(qs[0]), cirq.CZ(qs[0], qs[1]), g1.on(qs[2]))))
        # one-operation sub-circuits that repeat or remap their body, next to a two-qubit gate
        for two in (cirq.XX ** 0.5, cirq.CZ):
            body = cirq.FrozenCircuit(cirq.X(qs[0]) ** 0.5)
            out.append((name, qs, cirq.Circuit(two.on(qs[0], qs[1]), cirq.CircuitOperation(body, repetitions=2))))
            out.append((name, qs, cirq.Circuit(two.on(qs[0], qs[1]), cirq.CircuitOperation(body, qubit_map={qs[0]: qs[1]}))))
        # three-qubit gates with their own decomposition routes, at fractional powers, on the qubits in any order
        import itertools as _it
        perms = list(_it.permutations(qs)) if tier != 'quick' else [tuple(qs), (qs[2], qs[0], qs[1])]
        for g3 in (cirq.CCZ, cirq.CCX, cirq.CSWAP):
            for e in ((0.5, -0.3, 1, 2.5) if tier != 'quick' else (0.5, 1)):
                try:
                    ge = g3 ** e
                except TypeError:
                    continue
                if ge is NotImplemented or ge is None:
                    continue
                for perm in perms:
                    out.append((name, qs, cirq.Circuit(ge.on(*perm))))
    return out


def check_gatesets(ctx, cirq, n):
    rng = ctx.substream('gatesets')
    gs = gatesets(cirq)
    known = known_gate_circuits(cirq, gs, ctx.tier)
    for i in range(n + len(known)):
        if i < len(known):
            name, qs, circuit = known[i]
            gateset = gs[name][0]
            ops = list(circuit.all_operations())
            ctx.count('stream', 'known-gate')
        else:
            nq = rng.randint(1, 3)
            name = rng.choice(list(gs))
            gateset, layout = gs[name]
            qs = cirq.LineQubit.range(nq) if layout == 'line' else [cirq.GridQubit(0, j) for j in range(nq)]
            ops = []
            for _ in range(rng.randint(1, 6)):
                k = min(rng.choice([1, 1, 2, 2, 3]), nq)
                r = rng.random()
                if r < 0.25:
                    g = cirq.MatrixGate(gen.rand_unitary(rng, 2**k))
                elif k == 3:
                    g = gen.three_qubit_gate(cirq, rng)
                else:
                    g = {1: gen.one_qubit_gate, 2: gen.two_qubit_gate}[k](cirq, rng)
                ops.append(g.on(*rng.sample(qs, k)))
                if rng.random() < 0.2:
                    # a sub-circuit operation that repeats or remaps a one-qubit body (compilers unwrap one-operation sub-circuits)
                    qa = rng.choice(qs)
                    body = cirq.FrozenCircuit(gen.one_qubit_gate(cirq, rng).on(qa))
                    kw = rng.choice([{'repetitions': 2}, {'repetitions': 3}, {'repetitions': -1}, {'qubit_map': {qa: rng.choice(qs)}}])
                    if kw.get('qubit_map', {}).get(qa) == qa:
                        kw = {'repetitions': 2}
                    ops.append(cirq.CircuitOperation(body, **kw))
            circuit = cirq.Circuit(ops)
        try:
            out = cirq.optimize_for_target_gateset(circuit, gateset=gateset)
        except (ValueError, TypeError, NotImplementedError) as e:
            ctx.count('compile_error', f'{name}:{type(e).__name__}:{str(e)[:40]}')
            continue
        ctx.case(['gateset', name, repr(circuit)], len(ops) >= 2 or i < len(known))
        ctx.count('check', 'gateset:' + name)
        rep = {'lines': [{'gateset': name, 'circuit': repr(circuit)}], 'theorem_or_correspondence': 'native + equivalent (C01 product)'}
        foreign = [o for o in out.all_operations() if o not in gateset]
        if foreign:
            ctx.report_witness(f'gateset:foreign:{name.split("(")[0]}', 'the compiled circuit contains an operation the target gateset does not accept', dict(rep, impl_out=[repr(foreign[:3])[:1200]], spec_out=['only accepted operations']))
            continue
        try:
            got = lean_unitary(ctx, cirq, out, sorted(set(qs) | out.all_qubits()))
            want = lean_unitary(ctx, cirq, circuit, sorted(set(qs) | out.all_qubits()))
        except TypeError:
            ctx.count('compile_error', f'{name}:non-unitary-output')
            continue
        if not phase_close(got, want, 2e-6):
            ctx.report_witness(f'gateset:unitary:{name.split("(")[0]}', 'the compiled circuit has a different unitary (up to global phase)', dict(rep, impl_out=[repr(out)[:2500]], spec_out=['same unitary']))


# ------------------------------------------------------------------------------ devices
def check_devices(ctx, cirq, n):
    import cirq_aqt
    import cirq_ionq
    import cirq_pasqal

    rng = ctx.substream('devices')
    devs = []
    for k in (2, 4):
        devs.append(('AQT', cirq_aqt.aqt_device.get_aqt_device(k)[0], cirq.LineQubit.range(k + 1)))
    devs.append(('IonQ', cirq_ionq.IonQAPIDevice(qubits=cirq.LineQubit.range(3)), cirq.LineQubit.range(4)))
    pq = [cirq_pasqal.TwoDQubit(x, y) for x in range(2) for y in range(2)]
    devs.append(('PasqalVirtual', cirq_pasqal.PasqalVirtualDevice(control_radius=1.5, qubits=pq), pq + [cirq_pasqal.TwoDQubit(5, 5)]))
    # Pasqal virtual devices: a controlled operation is accepted iff all its qubits are on the device and pairwise within the
    # control radius (Euclidean distance, computed here from the coordinates)
    def coords(q):
        if isinstance(q, cirq.GridQubit):
            return (q.row, q.col, 0)
        if isinstance(q, cirq.LineQubit):
            return (q.x, 0, 0)
        return (q.x, q.y, getattr(q, 'z', 0))

    layouts = {
        'grid': [cirq.GridQubit(r, c) for r in range(3) for c in range(3)],
        'line': cirq.LineQubit.range(5),
        'twod': [cirq_pasqal.TwoDQubit(x, y) for x in (0, 1, 2.5) for y in (0, 1.5)],
        'threed': [cirq_pasqal.ThreeDQubit(x, y, z) for x in (0, 1) for y in (0, 1) for z in (0, 1.2)],
    }
    for lname, lq in layouts.items():
        for radius in (1.0, 1.2, 1.5, 2.0, 2.3, 3.0):
            dev = cirq_pasqal.PasqalVirtualDevice(control_radius=radius, qubits=lq)
            for a in lq:
                for b in lq:
                    if a == b:
                        continue
                    for g in (cirq.CZ, cirq.CZ ** -1):
                        op = g.on(a, b)
                        try:
                            dev.validate_operation(op)
                            acc = True
                        except ValueError:
                            acc = False
                        dist = math.sqrt(sum((x - y) ** 2 for x, y in zip(coords(a), coords(b))))
                        if abs(dist - radius) < 1e-9:
                            continue
                        ctx.count('check', f'pasqal-radius:{lname}:{acc}')
                        ctx.case(['pasqal-radius', lname, radius, repr(op)], True)
                        if acc != (dist <= radius):
                            ctx.report_witness(f'device:pasqal-radius:{lname}', 'the Pasqal virtual device accepts / rejects a controlled operation against the control radius',
                                               {'lines': [{'layout': lname, 'radius': radius, 'operation': repr(op)}], 'impl_out': [acc], 'spec_out': [dist <= radius, dist], 'theorem_or_correspondence': 'accept iff Euclidean distance <= control radius'})
    for i in range(n):
        dname, dev, pool = rng.choice(devs)
        g = rng.choice([cirq.X, cirq.Z ** 0.3, cirq.H, cirq.CZ, cirq.CNOT, cirq.XX ** 0.5, cirq.ms(0.3), cirq.PhasedXPowGate(phase_exponent=0.2, exponent=0.4), cirq.ISWAP, cirq.MeasurementGate(1, key='m'), cirq.T,
                        cirq.CCZ, cirq.SWAP, cirq.rz(0.4), cirq.ZZ ** 0.2, cirq.MeasurementGate(2, key='mm')])
        k = cirq.num_qubits(g)
        if k > len(pool):
            continue
        op = g.on(*rng.sample(list(pool), k))
        if rng.random() < 0.3:
            op = op.with_tags('note')  # a tag does not take an operation out of (or into) a gateset that does not look at tags
        try:
            dev.validate_operation(op)
            accepted = True
        except (ValueError, NotImplementedError):
            accepted = False
        md = dev.metadata
        on_device = all(q in md.qubit_set for q in op.qubits)
        in_gateset = op in md.gateset if md is not None and getattr(md, 'gateset', None) is not None else None
        ctx.count('check', f'device:{dname}:{accepted}')
        ctx.case(['device', dname, repr(op)], True)
        rep = {'lines': [{'device': dname, 'operation': repr(op)}], 'theorem_or_correspondence': 'accept iff in gateset and on device'}
        if accepted and not on_device:
            ctx.report_witness(f'device:off-device:{dname}', 'the device accepts an operation on a qubit it does not have', dict(rep, impl_out=[True], spec_out=[False]))
        if in_gateset is not None and accepted and not in_gateset:
            ctx.report_witness(f'device:foreign-gate:{dname}', 'the device accepts an operation that is not in its gateset', dict(rep, impl_out=[True], spec_out=[False]))
        if in_gateset and on_device and not accepted and (dname in ('AQT', 'IonQ') or (op.tags and len(op.qubits) == 1 and not cirq.is_measurement(op))):
            # (Pasqal devices add geometric constraints, e.g. the control radius, on top of gateset membership)
            ctx.report_witness(f'device:rejects-native:{dname}', 'the device rejects an operation of its gateset on its own qubits', dict(rep, impl_out=[False], spec_out=[True]))


def check_circuit_validation(ctx, cirq, n):
    """a device accepts a circuit exactly when it accepts each of its operations (and, for devices that constrain moments, each
    moment): the verdict on a circuit may not depend on what was validated before it in the same call (tags included)"""
    import cirq_aqt
    import cirq_google as cg
    import cirq_ionq

    rng = ctx.substream('circuit-validation')
    gq = [cirq.GridQubit(0, 0), cirq.GridQubit(0, 1), cirq.GridQubit(1, 1)]
    pairs = [(gq[0], gq[1]), (gq[1], gq[2])]
    devices = {
        # tag-sensitive gate families without their complement: physical Z only, virtual Z only
        'GridDevice[physical-z]': (cg.GridDevice._from_device_information(qubit_pairs=pairs, gateset=cirq.Gateset(cirq.CZ, cirq.PhasedXZGate, cirq.GateFamily(cirq.ZPowGate, tags_to_accept=[cg.PhysicalZTag()]), cirq.MeasurementGate)), gq),
        'GridDevice[virtual-z]': (cg.GridDevice._from_device_information(qubit_pairs=pairs, gateset=cirq.Gateset(cirq.CZ, cirq.PhasedXZGate, cirq.GateFamily(cirq.ZPowGate, tags_to_ignore=[cg.PhysicalZTag()]), cirq.MeasurementGate)), gq),
        'Sycamore': (cg.Sycamore, [cirq.GridQubit(5, 2), cirq.GridQubit(5, 3), cirq.GridQubit(6, 3)]),
        'IonQ': (cirq_ionq.IonQAPIDevice(qubits=cirq.LineQubit.range(3)), cirq.LineQubit.range(3)),
        'AQT': (cirq_aqt.aqt_device.get_aqt_device(3)[0], cirq.LineQubit.range(3)),
    }

    def accepts(f, x):
        try:
            f(x)
            return True
        except (ValueError, NotImplementedError):
            return False

    # systematic: the same gate on the same qubits in two tag variants, in both orders, on every device
    variants = [lambda op: op, lambda op: op.with_tags(cg.PhysicalZTag()), lambda op: op.with_tags('note'), lambda op: op.with_tags(cg.FSimViaModelTag())]
    forced = []
    for dname, (dev, qs) in devices.items():
        for base in (cirq.Z(qs[0]) ** 0.3, cirq.CZ(qs[0], qs[1]), cirq.FSimGate(0.3, 0.2).on(qs[0], qs[1]), cirq.X(qs[0])):
            for va in variants:
                for vb in variants:
                    if va is not vb:
                        forced.append((dname, [va(base), vb(base)]))
    if ctx.tier == 'quick':
        forced = forced[ctx.seed % 2::2]
    # a sub-circuit operation on three qubits with a two-qubit gate on an uncoupled pair inside
    syc_q = devices['Sycamore'][1]
    forced.append(('Sycamore', [cirq.CircuitOperation(cirq.FrozenCircuit(cg.SYC(syc_q[0], syc_q[2]), cirq.X(syc_q[1])))]))
    forced.append(('Sycamore', [cirq.CircuitOperation(cirq.FrozenCircuit(cg.SYC(syc_q[0], syc_q[1]), cirq.X(syc_q[2])))]))
    forced.append(('GridDevice[virtual-z]', [cirq.CircuitOperation(cirq.FrozenCircuit(cirq.CZ(gq[0], gq[2]), cirq.X(gq[1])))]))
    forced.append(('GridDevice[virtual-z]', [cirq.CircuitOperation(cirq.FrozenCircuit(cirq.CircuitOperation(cirq.FrozenCircuit(cirq.CZ(gq[0], gq[2]), cirq.X(gq[1])))))]))
    for it in range(n + len(forced)):
        dname = rng.choice(list(devices))
        dev, qs = devices[dname]
        ops = []
        if it < len(forced):
            dname, ops = forced[it]
            dev, qs = devices[dname]
        for _ in range(rng.randint(2, 4) if it >= len(forced) else 0):
            g = rng.choice([cirq.Z ** 0.3, cirq.Z ** 0.3, cirq.CZ, cirq.X, cirq.PhasedXZGate(x_exponent=0.2, z_exponent=0.1, axis_phase_exponent=0.3), cirq.H, cirq.ISWAP, cg.SYC, cirq.XX ** 0.5])
            k = cirq.num_qubits(g)
            t = [qs[0]] if k == 1 and rng.random() < 0.6 else rng.sample(list(qs), k)
            op = g.on(*t)
            if rng.random() < 0.5:
                op = op.with_tags(rng.choice([cg.PhysicalZTag(), 'note', cg.FSimViaModelTag()]))
            ops.append(op)
        if it >= len(forced) and dname in ('Sycamore', 'GridDevice[physical-z]', 'GridDevice[virtual-z]') and rng.random() < 0.3 and len(ops) >= 2:
            # some of the operations wrapped into one sub-circuit operation: what is inside has to be acceptable one by one
            ops = [cirq.CircuitOperation(cirq.FrozenCircuit(ops[:2]))] + ops[2:]
        circuit = cirq.Circuit(ops, strategy=cirq.InsertStrategy.NEW)
        per_op = all(accepts(dev.validate_operation, op) for op in cirq.unroll_circuit_op(circuit, deep=True, tags_to_check=None).all_operations())
        per_moment = all(accepts(dev.validate_moment, m) for m in circuit)
        whole = accepts(dev.validate_circuit, circuit)
        ctx.count('check', f'circuit-validation:{dname}')
        ctx.case(['circuit-validation', dname, repr(circuit)], True)
        has_sub = any(isinstance(op.untagged, cirq.CircuitOperation) for op in circuit.all_operations())
        # (a sub-circuit operation is itself an operation of the circuit: a device may refuse the wrapper, e.g. for acting on an
        # uncoupled pair, although everything inside is acceptable; it may not accept it when something inside is not)
        if (whole and not (per_op and per_moment)) or (not has_sub and whole != (per_op and per_moment)):
            ctx.report_witness(f'device:circuit-validation:{dname.split("[")[0]}', 'validate_circuit disagrees with validating the operations (and moments) of the circuit one by one',
                               {'lines': [{'device': dname, 'circuit': repr(circuit)}], 'impl_out': [whole], 'spec_out': [per_op and per_moment], 'theorem_or_correspondence': 'accept iff every operation is accepted'})


def run(ctx: common.Run):
    import cirq
    import networkx as nx

    ctx.rule = (
        'routing: circuits of 1..9 one- and two-qubit operations on 2..6 logical qubits x device graphs (lines, rings, grids, random trees, trees with extra edges) x lookahead radius x '
        'default / hard-coded initial mappings; gatesets: circuits of 1..6 operations on 1..3 qubits (random 1-3 qubit unitaries, library gates) x 11 target gatesets; devices: AQT, IonQ, Pasqal '
        'virtual devices x 16 gate kinds on and off the device; non-trivial = >= 2 two-qubit operations / >= 2 operations; distinct by repr'
    )
    ctx.trusted += [
        'harness/props/c07.py + lean/Driver/C07.lean, C06.lean, C01.lean; operation matrices are cirq.unitary(op) (C03); the SWAP gate exchanges the contents of its qubits (C03) — the link between '
        'the SWAP events of the model and the SWAP operations of the routed circuit',
        'gateset membership (`op in gateset`) and device metadata are read from the library objects; networkx graph queries',
        'Google GridDevice validation is covered by C16; gateset options other than those listed, and sub-circuit / no-compile tags, are not covered yet',
    ]
    ok, failing = ctx.lean(MODULES)
    if not ok:
        ctx.report_unproved('lean-build', f'{failing}', {'theorem_or_correspondence': failing})
        return
    n = 40 if ctx.tier == 'quick' else 600
    check_timesteps(ctx, cirq, 150 if ctx.tier == 'quick' else 3000)
    check_routing(ctx, cirq, nx, n)
    check_gatesets(ctx, cirq, n * 2)
    check_devices(ctx, cirq, n * 3)
    check_circuit_validation(ctx, cirq, n * 3)


def replay(ctx, rep):
    print(json.dumps(rep, indent=1)[:3000])
    return 1
