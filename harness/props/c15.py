"""C15 — Analytical decompositions rebuild their input within documented bounds.

Lean (Model/C15, Props/C15): the normalisation of KAK interaction coefficients (`kak_canonicalize_vector`: canonical
shifts, magnitude sort, double negations, boundary fix) is modelled exactly (angles as integers in units of pi/(4q)) and
proved, for every unit q and every input, to return coefficients in the Weyl chamber 0 <= |z| <= y <= x <= pi/4 with
z >= 0 at x = pi/4 (C15_canonicalize_canonical), reached by symmetry moves only (C15_canonicalize_move), fixing
canonical vectors (C15_canonical_fixed, hence idempotent).  Tie (T2): cirq.kak_canonicalize_vector on rational multiples
of pi/4 (incl. all chamber boundaries) against the model; every decomposition / synthesis routine is run on generated
unitaries (Haar-like, special classes, boundary and near-tolerance cases) and the product of the returned factors /
operations — computed by the Lean reference interpreter for operation lists — is compared with the input, together with
the promised form (canonical coefficients, gate counts, gate kinds).
"""
from __future__ import annotations

import functools
import itertools
import json
import math

import numpy as np

from harness import common, gen

MODULES = ['CirqVerif.Props.C15', 'CirqVerif.Props.C15Face']

X = np.array([[0, 1], [1, 0]], dtype=complex)
Y = np.array([[0, -1j], [1j, 0]], dtype=complex)
Z = np.diag([1, -1]).astype(complex)
I2 = np.eye(2, dtype=complex)
XX, YY, ZZ = np.kron(X, X), np.kron(Y, Y), np.kron(Z, Z)


def expm_herm(h):
    w, v = np.linalg.eigh(h)
    return (v * np.exp(1j * w)) @ v.conj().T


def interaction(x, y, z):
    return expm_herm(x * XX + y * YY + z * ZZ)


def phase_close(a, b, tol):
    a, b = np.asarray(a), np.asarray(b)
    if a.shape != b.shape:
        return False
    k = np.unravel_index(np.argmax(np.abs(b)), b.shape)
    if abs(b[k]) < 1e-12 or abs(a[k]) < 1e-12:
        return np.allclose(a, b, atol=tol)
    ph = a[k] / b[k]
    return abs(abs(ph) - 1) < 1e-6 and np.allclose(a, ph / abs(ph) * b, atol=tol)


def special_two_qubit(cirq, rng):
    """unitaries of the measure-zero classes and of the boundaries of the Weyl chamber, dressed with random local gates"""
    loc = lambda: np.kron(gen.rand_unitary(rng, 2), gen.rand_unitary(rng, 2))
    pi4 = math.pi / 4
    eps = rng.choice([0, 0, 1e-10, -1e-10, 1e-8, 1e-7, 3e-7])
    core = rng.choice([
        np.eye(4, dtype=complex), cirq.unitary(cirq.CNOT), cirq.unitary(cirq.CZ), cirq.unitary(cirq.ISWAP), cirq.unitary(cirq.SWAP), cirq.unitary(cirq.SQRT_ISWAP),
        cirq.unitary(cirq.CZ**0.5), cirq.unitary(cirq.ISWAP**-0.5), cirq.unitary(cirq.SWAP**0.5), cirq.unitary(cirq.FSimGate(0.3, 0.7)),
        interaction(pi4 + eps, pi4 / 2, -pi4 / 4), interaction(pi4 + eps, pi4 + eps, 0), interaction(pi4, pi4, pi4 + eps), interaction(pi4 / 2, pi4 / 2, -pi4 / 2 + eps),
        interaction(pi4 / 3, eps, 0), interaction(pi4 + eps, 0.2, -0.2), interaction(0.3, 0.3, eps), interaction(eps, 0, 0), interaction(pi4, 0.1, 0),
    ])
    k = rng.random()
    if k < 0.3:
        return core
    if k < 0.65:
        return loc() @ core @ loc()
    return loc() @ core


def rand_two_qubit(cirq, rng):
    return special_two_qubit(cirq, rng) if rng.random() < 0.55 else gen.rand_unitary(rng, 4)


def lean_product(ctx, cirq, ops, qubits):
    """matrix of an operation list on `qubits`, computed by the Lean reference interpreter from the per-operation matrices"""
    pos = {q: i for i, q in enumerate(qubits)}
    lops = [{'m': [common.c2j(z) for z in cirq.unitary(op).reshape(-1)], 'axes': [pos[q] for q in op.qubits]} for op in ops if len(op.qubits)]
    out = ctx.driver.ask([{'p': 'C01', 'op': 'unitary', 'shape': [2] * len(qubits), 'ops': lops}])[0]
    m = np.array([[common.j2c(z) for z in row] for row in out])
    for op in ops:
        if not len(op.qubits):
            m = m * complex(cirq.unitary(op)[0, 0])
    return m


# ------------------------------------------------------------------------------ canonicalisation
def check_canonicalize(ctx, cirq, n):
    rng = ctx.substream('kakvec')
    cases = []
    for q in (1, 2, 4):
        rngv = range(-3 * q, 3 * q + 1)
        for v in itertools.product(rngv, repeat=3):
            if q == 1 or rng.random() < (0.02 if ctx.tier == 'quick' else 0.3):
                cases.append((q, list(v)))
    for _ in range(n):
        q = rng.choice([3, 5, 8, 12])
        cases.append((q, [rng.randint(-5 * q, 5 * q) for _ in range(3)]))
    outs = ctx.driver.ask([{'p': 'C15', 'op': 'canonicalize', 'q': q, 'v': v} for q, v in cases])
    for (q, v), want in zip(cases, outs):
        unit = math.pi / 4 / q
        x, y, z = (t * unit for t in v)
        d = cirq.kak_canonicalize_vector(x, y, z)
        got = [c / unit for c in d.interaction_coefficients]
        ctx.case(['kakvec', q, v], any(abs(t) > q for t in v))
        ctx.count('check', 'kak_canonicalize_vector')
        rep = {'lines': [{'unit': f'pi/{4 * q}', 'vector': v}], 'theorem_or_correspondence': 'Model.C15.canonicalize (C15_canonicalize_canonical)'}
        if not all(abs(a - b) < 1e-6 for a, b in zip(got, want)):
            ctx.report_witness('kak:canonical-vector', 'kak_canonicalize_vector returns coefficients different from the model\'s canonical representative', dict(rep, impl_out=[got], spec_out=[want]))
            continue
        # the implied matrix identity  g (a1 x a0) exp(i(x2 XX + y2 YY + z2 ZZ)) (b1 x b0) = exp(i(x XX + y YY + z ZZ))
        a1, a0 = d.single_qubit_operations_after
        b1, b0 = d.single_qubit_operations_before
        rebuilt = d.global_phase * np.kron(a1, a0) @ interaction(*d.interaction_coefficients) @ np.kron(b1, b0)
        if not np.allclose(rebuilt, interaction(x, y, z), atol=1e-8):
            ctx.report_witness('kak:canonical-vector:matrix', 'the local gates and phase returned by kak_canonicalize_vector do not relate the canonical interaction to the input interaction',
                               dict(rep, impl_out=[repr(np.round(rebuilt, 6).tolist())[:600]], spec_out=[repr(np.round(interaction(x, y, z), 6).tolist())[:600]]))


def canonical_ok(x, y, z, tol=1e-7):
    pi4 = math.pi / 4
    return -tol <= abs(z) <= y + tol and y <= x + tol and x <= pi4 + tol and (x < pi4 - tol or z >= -tol)


# ------------------------------------------------------------------------------ matrix factorisations
def check_shannon_structured(ctx, cirq):
    """quantum Shannon decomposition of structured unitaries with (nearly) degenerate spectra in the demultiplexing step:
    Fourier transforms and permutation-like matrices times a phase, products of identical blocks"""
    rng = ctx.substream('shannon-structured')
    cases = []
    for nq in ((4, 5) if ctx.tier == 'quick' else (3, 4, 5)):
        qs = cirq.LineQubit.range(nq)
        uq = cirq.unitary(cirq.qft(*qs))
        ks = (8, 3) if ctx.tier == 'quick' else range(10)
        for k in ks:
            cases.append((f'qft{nq}*phase{k}', qs, uq * np.exp(1j * np.linspace(0, 2 * np.pi, 10)[k])))
    q3 = cirq.LineQubit.range(3)
    cases.append(('ccx*phase', q3, cirq.unitary(cirq.CCX) * np.exp(0.7j)))
    cases.append(('block-repeat', q3, np.kron(np.eye(2), gen.rand_unitary(rng, 4))))
    cases.append(('cswap', q3, cirq.unitary(cirq.CSWAP)))
    for name, qs, un in cases:
        ctx.count('check', 'shannon:structured')
        ctx.case(['shannon-structured', name], True)
        rep = {'lines': [{'matrix': name}], 'theorem_or_correspondence': 'operation product via applyOps'}
        try:
            ops = list(cirq.flatten_to_ops(cirq.quantum_shannon_decomposition(qs, un)))
        except ValueError as e:
            ctx.report_witness('synth:shannon:raises', f'quantum_shannon_decomposition raises on a unitary input: {str(e)[:80]}', dict(rep, impl_out=[str(e)[:200]], spec_out=['operations whose product is the input']))
            continue
        got = cirq.Circuit(ops).unitary(qubit_order=qs, qubits_that_should_be_present=qs) if len(qs) > 4 else lean_product(ctx, cirq, ops, qs)
        if not phase_close(got, un, 1e-5):
            ctx.report_witness('synth:shannon', 'quantum_shannon_decomposition: the product of the operations is not the input', dict(rep, impl_out=[len(ops)], spec_out=['product = input up to phase']))


def check_symbolic_sqrt_iswap(ctx, cirq):
    """the symbolic sqrt-iSWAP decomposition of CZ**t / SWAP**t / ISWAP**t / FSim(theta, phi): resolved at any value of the
    symbols (incl. the integer exponents where the angles sit at the end of their ranges) it reproduces the gate"""
    import sympy

    rng = ctx.substream('symbolic-sqrt-iswap')
    a, b = cirq.LineQubit.range(2)
    t, u_ = sympy.symbols('t u')
    vals = [0, 1, -1, 2, 3, 0.5, -0.5, 1.5, 1 + 1e-10, 1 - 1e-10, 0.3, rng.uniform(-2, 2), rng.uniform(-2, 2)]
    fams = [('CZ', lambda x, y: cirq.CZ ** x, False), ('SWAP', lambda x, y: cirq.SWAP ** x, False), ('ISWAP', lambda x, y: cirq.ISWAP ** x, False), ('FSim', lambda x, y: cirq.FSimGate(x, y), True)]
    for name, mk, two in fams:
        for inv in (False, True):
            ops = cirq.parameterized_2q_op_to_sqrt_iswap_operations(mk(t, u_).on(a, b), use_sqrt_iswap_inv=inv)
            if ops is NotImplemented:
                ctx.count('symbolic_sqrt_iswap', f'{name}:not-implemented')
                continue
            circuit = cirq.Circuit(ops)
            for tv in vals:
                uv = rng.choice([0.0, 0.7, -1.3, np.pi]) if two else 0.0
                ctx.count('check', 'symbolic-sqrt-iswap')
                ctx.case(['symbolic-sqrt-iswap', name, inv, tv, uv], True)
                rep = {'lines': [{'gate': name, 'use_sqrt_iswap_inv': inv, 't': tv, 'u': uv}], 'theorem_or_correspondence': 'operation product'}
                try:
                    got = cirq.resolve_parameters(circuit, {'t': tv, 'u': uv}).unitary(qubit_order=[a, b])
                except (ValueError, TypeError) as e:
                    ctx.report_witness('synth:symbolic-sqrt-iswap:raises', f'the symbolic sqrt-iSWAP decomposition cannot be resolved at this value: {str(e)[:80]}', dict(rep, impl_out=[str(e)[:200]], spec_out=['the gate']))
                    continue
                if not phase_close(got, cirq.unitary(mk(tv, uv)), 1e-6):
                    ctx.report_witness('synth:symbolic-sqrt-iswap', 'the resolved symbolic sqrt-iSWAP decomposition is not the gate', dict(rep, impl_out=['...'], spec_out=['the gate up to global phase']))


def check_factoring(ctx, cirq, n):
    """factor_state_vector / factor_density_matrix: on a product state, for every choice and order of the extracted axes, the
    factors multiply back to the input (validation accepts it); an entangled state is rejected"""
    from cirq.linalg import transformations as T

    rng = ctx.substream('factoring')
    for _ in range(n):
        dims = [rng.choice([2, 2, 3]) for _ in range(rng.randint(2, 3))]
        vecs = [np.array([complex(rng.gauss(0, 1), rng.gauss(0, 1)) for _ in range(d)]) for d in dims]
        vecs = [v / np.linalg.norm(v) for v in vecs]
        rhos = []
        for d in dims:
            a = np.array([[complex(rng.gauss(0, 1), rng.gauss(0, 1)) for _ in range(d)] for _ in range(d)])
            m = a @ a.conj().T
            rhos.append(m / np.trace(m))
        psi = functools.reduce(np.kron, vecs).reshape(dims)
        rho = functools.reduce(np.kron, rhos).reshape(dims * 2)
        k = rng.randint(1, len(dims) - 1)
        axes = rng.sample(range(len(dims)), k)
        rest = [i for i in range(len(dims)) if i not in axes]
        ctx.count('check', 'factor')
        ctx.case(['factor', dims, axes], True)
        rep = {'lines': [{'dims': dims, 'axes': axes}], 'theorem_or_correspondence': 'factor product'}
        try:
            e, r = T.factor_density_matrix(rho, axes, validate=True)
            want_e = functools.reduce(np.kron, [rhos[i] for i in axes])
            want_r = functools.reduce(np.kron, [rhos[i] for i in rest])
            ok = np.allclose(e.reshape(want_e.shape), want_e, atol=1e-7) and np.allclose(r.reshape(want_r.shape), want_r, atol=1e-7)
            what = 'factors differ from the factors of the product state'
        except ValueError as ex:
            ok, what = False, f'a product state is rejected: {ex}'
        if not ok:
            ctx.report_witness('factor:density_matrix', 'factor_density_matrix: ' + what, dict(rep, impl_out=[what], spec_out=['extracted (x) remainder = input']))
        try:
            e, r = T.factor_state_vector(psi, axes, validate=True)
            want_e = functools.reduce(np.kron, [vecs[i] for i in axes])
            want_r = functools.reduce(np.kron, [vecs[i] for i in rest])
            full = np.kron(e.reshape(-1), r.reshape(-1))
            ref = np.kron(want_e, want_r)
            ok = np.allclose(full, ref, atol=1e-7)
            what = 'factors do not multiply back to the input'
        except ValueError as ex:
            ok, what = False, f'a product state is rejected: {ex}'
        if not ok:
            ctx.report_witness('factor:state_vector', 'factor_state_vector: ' + what, dict(rep, impl_out=[what], spec_out=['extracted (x) remainder = input']))
    bell = np.zeros((2, 2), dtype=complex)
    bell[0, 0] = bell[1, 1] = 1 / np.sqrt(2)
    for name, f, arg in (('state_vector', T.factor_state_vector, bell), ('density_matrix', T.factor_density_matrix, np.outer(bell.reshape(-1), bell.reshape(-1).conj()).reshape(2, 2, 2, 2))):
        try:
            f(arg, [0], validate=True)
            ctx.report_witness(f'factor:{name}:entangled', f'factor_{name} with validation accepts an entangled state', {'lines': [{'state': 'Bell'}], 'impl_out': ['accepted'], 'spec_out': ['ValueError'], 'theorem_or_correspondence': 'factor product'})
        except ValueError:
            pass


def check_cnot_counts_and_tabulation(ctx, cirq, n):
    """num_cnots_required against the interaction coefficients (0: local; 1: (pi/4, 0, 0); 2: third coefficient 0; else 3) and against
    the CZ synthesis; TwoQubitGateTabulation.compile_two_qubit_gate: the returned local layers around the base gate multiply to
    the gate it says it compiled, within the promised infidelity of the target when it reports success"""
    from cirq.transformers.heuristic_decompositions.two_qubit_gate_tabulation import two_qubit_gate_product_tabulation

    rng = ctx.substream('cnot-counts')
    q0, q1 = cirq.LineQubit.range(2)

    def loc():
        return np.kron(gen.rand_unitary(rng, 2), gen.rand_unitary(rng, 2))

    for _ in range(n):
        kind = rng.choice(['local', 'cnot', 'edge', 'iswap', 'z0', 'swap', 'generic', 'generic'])
        x, y, z = {'local': (0, 0, 0), 'cnot': (np.pi / 4, 0, 0), 'edge': (np.pi / 4, rng.uniform(0.05, np.pi / 4 - 0.05), 0), 'iswap': (np.pi / 4, np.pi / 4, 0),
                   'z0': (rng.uniform(0.1, 0.7), rng.uniform(0.02, 0.09), 0), 'swap': (np.pi / 4, np.pi / 4, np.pi / 4),
                   'generic': (rng.uniform(0.3, 0.78), rng.uniform(0.1, 0.29), rng.uniform(0.02, 0.09))}[kind]
        u = loc() @ interaction(x, y, z) @ loc() * np.exp(1j * rng.uniform(0, 6))
        want = {'local': 0, 'cnot': 1, 'edge': 2, 'iswap': 2, 'z0': 2, 'swap': 3, 'generic': 3}[kind]
        got = cirq.num_cnots_required(u)
        ctx.count('check', 'num_cnots_required')
        ctx.case(['cnots', kind, np.round(u, 6).tobytes().hex()[:40]], True)
        ops = cirq.two_qubit_matrix_to_cz_operations(q0, q1, u, allow_partial_czs=False)
        n_cz = sum(1 for o in ops if len(o.qubits) == 2)
        if got != want or n_cz != want:
            ctx.report_witness('synth:num-cnots', 'num_cnots_required (or the number of CZs of the synthesis) is not the number the interaction class needs',
                               {'lines': [{'class': kind, 'interaction': [float(x), float(y), float(z)]}], 'impl_out': [got, n_cz], 'spec_out': [want], 'theorem_or_correspondence': 'interaction classes (C15 canonical coefficients)'})
    # gate tabulation
    base = cirq.unitary(cirq.FSimGate(np.pi / 2, np.pi / 6))
    tab = two_qubit_gate_product_tabulation(base, 0.05, sample_scaling=20, random_state=np.random.RandomState(ctx.seed))
    for _ in range(max(6, n // 4)):
        kind = rng.choice(['base-class', 'base-class', 'generic', 'local', 'base'])
        target = {'base-class': lambda: loc() @ base @ loc(), 'generic': lambda: gen.rand_unitary(rng, 4), 'local': loc, 'base': lambda: base}[kind]()
        res = tab.compile_two_qubit_gate(target)
        ks = res.local_unitaries
        m = np.kron(*ks[0])
        for k in ks[1:]:
            m = np.kron(*k) @ base @ m
        fid_actual = abs(np.trace(m.conj().T @ res.actual_gate)) / 4
        fid_target = abs(np.trace(m.conj().T @ target)) / 4
        ctx.count('check', 'tabulation:' + kind)
        ctx.case(['tabulation', kind, np.round(target, 5).tobytes().hex()[:40]], True)
        if fid_actual < 1 - 1e-6 or (res.success and fid_target ** 2 < 1 - 0.05 - 1e-6):
            ctx.report_witness('synth:tabulation', 'the local layers returned by TwoQubitGateTabulation.compile_two_qubit_gate do not multiply (around the base gate) to the gate it reports / approximate the target',
                               {'lines': [{'target_class': kind, 'layers': len(ks)}], 'impl_out': [float(fid_actual), float(fid_target), bool(res.success)], 'spec_out': ['product = actual_gate, fidelity^2 >= 0.95 when success'],
                                'theorem_or_correspondence': 'factor product'})


def check_multi_controlled(ctx, cirq):
    """decompose_multi_controlled_x / _rotation for every number of controls up to 7 and every number of free (borrowed) qubits: the product
    of the returned operations is the controlled gate written out as a matrix, and the borrowed qubits are returned unchanged"""
    rng = ctx.substream('multi-controlled')

    def controlled_matrix(m, nc, nfree):
        # controls are the first nc qubits, then the target, then the free qubits (identity on them)
        d = 2 ** (nc + 1)
        full = np.eye(d, dtype=complex)
        full[d - 2:, d - 2:] = m
        return np.kron(full, np.eye(2 ** nfree))

    cases = [(nc, nf) for nc in range(0, 8) for nf in range(0, 5) if nc + nf + 1 <= 10]
    if ctx.tier == 'quick':
        cases = [c for j, c in enumerate(cases) if j % 2 == ctx.seed % 2 or c in ((5, 3), (6, 4), (5, 4))]
    for nc, nf in cases:
        qs = cirq.LineQubit.range(nc + 1 + nf)
        controls, target, free = list(qs[:nc]), qs[nc], list(qs[nc + 1:])
        order = list(qs)
        if rng.random() < 0.5:
            # the qubits handed over in another order than the register: the matrix is still written for controls, target, free
            perm = list(range(len(qs)))
            rng.shuffle(perm)
            qs2 = [qs[j] for j in perm]
            controls, target, free = qs2[:nc], qs2[nc], qs2[nc + 1:]
            order = qs2
        for name, build, m in (
            ('decompose_multi_controlled_x', lambda: cirq.decompose_multi_controlled_x(controls, target, free), np.array([[0, 1], [1, 0]], dtype=complex)),
            ('decompose_multi_controlled_rotation', None, None),
        ):
            if build is None:
                m = gen.rand_unitary(rng, 2) if rng.random() < 0.5 else cirq.unitary(rng.choice([cirq.X ** 0.3, cirq.Z ** 0.7, cirq.Y, cirq.rx(0.4), cirq.H]))
                mm = m
                build = lambda: cirq.decompose_multi_controlled_rotation(mm, controls, target)
            ctx.count('check', name)
            ctx.case(['multi-controlled', name, nc, nf, [q.x for q in order]], nc >= 3)
            rep = {'lines': [{'routine': name, 'controls': nc, 'free': nf, 'order': [q.x for q in order], 'matrix': np.round(m, 6).tolist().__repr__()}], 'theorem_or_correspondence': 'controlled gate as a block matrix (C04_controlled_slice)'}
            try:
                ops = build()
            except (ValueError, TypeError) as e:
                ctx.count('synth_error', f'{name}:{str(e)[:40]}')
                continue
            got = cirq.Circuit(ops).unitary(qubit_order=order, qubits_that_should_be_present=order) if ops else np.eye(2 ** len(order))
            want = controlled_matrix(m, nc, nf)
            if got.shape != want.shape or not np.allclose(got, want, atol=1e-6):
                ctx.report_witness(f'synth:{name}', f'{name} with {nc} controls and {nf} free qubits does not multiply to the controlled gate', dict(rep, impl_out=[f'max deviation {np.abs(got - want).max():.3g}', repr(ops)[:1500]], spec_out=['controlled gate']))


def check_known_gate_tables(ctx, cirq):
    """cirq_google.known_2q_op_to_sycamore_operations: whatever the table answers for a gate (None = not known) has the unitary of that gate
    up to global phase, for the named two-qubit gates at integer, half-integer and generic powers, in both qubit orders, tagged or not"""
    import cirq_google

    rng = ctx.substream('known-gates')
    q0, q1 = cirq.GridQubit(0, 0), cirq.GridQubit(0, 1)
    fams = [cirq.ISWAP, cirq.SWAP, cirq.CZ, cirq.CNOT, cirq.ZZ, cirq.XX, cirq.YY, cirq.SQRT_ISWAP, cirq_google.SYC, cirq.FSimGate(np.pi / 2, np.pi / 6), cirq.FSimGate(np.pi / 2, 0), cirq.PhasedISwapPowGate(phase_exponent=0.25)]
    exps = [-3, -2, -1, -0.5, 0.5, 1, 2, 3, 0.25, round(rng.uniform(-1, 1), 3)]
    for g in fams:
        for e in exps:
            try:
                ge = g ** e
            except TypeError:
                continue
            if ge is NotImplemented or ge is None:
                continue
            for qs in ((q0, q1), (q1, q0)):
                op = ge.on(*qs)
                if rng.random() < 0.3:
                    op = op.with_tags('t')
                ctx.count('check', 'known_2q_op_to_sycamore_operations')
                ctx.case(['known-gate', repr(op)], True)
                try:
                    out = cirq_google.known_2q_op_to_sycamore_operations(op)
                except (ValueError, TypeError) as ex:
                    ctx.count('synth_error', f'known_2q:{str(ex)[:40]}')
                    continue
                if out is None:
                    ctx.count('known_gate', 'not-known')
                    continue
                ctx.count('known_gate', 'known')
                got = cirq.Circuit(out).unitary(qubit_order=[q0, q1], qubits_that_should_be_present=[q0, q1])
                want = cirq.Circuit(op).unitary(qubit_order=[q0, q1])
                bad = [o for o in cirq.Circuit(out).all_operations() if len(o.qubits) == 2 and o.gate != cirq_google.SYC]
                if bad or not phase_close(got, want, 1e-6):
                    ctx.report_witness('synth:known_2q_op_to_sycamore_operations', 'the Sycamore known-gate table returns a circuit that is not the gate (up to global phase) or uses another two-qubit gate than SYC',
                                       {'lines': [{'op': repr(op)}], 'impl_out': [repr(cirq.Circuit(out))[:1500]], 'spec_out': [np.round(want, 5).tolist().__repr__()], 'theorem_or_correspondence': 'C15 synthesis (T2)'})


def check_matrix_routines(ctx, cirq, n):
    rng = ctx.substream('matrix')
    for i in range(n):
        u = rand_two_qubit(cirq, rng)
        rep = {'lines': [{'matrix': repr(np.round(u, 9).tolist())}], 'theorem_or_correspondence': 'factor product'}
        ctx.case(['kak', np.round(u, 6).tobytes().hex()[:40]], True)
        # KAK
        k = cirq.kak_decomposition(u)
        a1, a0 = k.single_qubit_operations_after
        b1, b0 = k.single_qubit_operations_before
        rebuilt = k.global_phase * np.kron(a1, a0) @ interaction(*k.interaction_coefficients) @ np.kron(b1, b0)
        ctx.count('check', 'kak_decomposition')
        if not np.allclose(rebuilt, u, atol=1e-6):
            ctx.report_witness('kak:rebuild', 'the KAK factors do not multiply to the input', dict(rep, impl_out=[repr(np.round(rebuilt, 6).tolist())[:800]], spec_out=['input']))
        if not canonical_ok(*k.interaction_coefficients):
            ctx.report_witness('kak:canonical', 'KAK interaction coefficients are outside the canonical region', dict(rep, impl_out=[list(k.interaction_coefficients)], spec_out=['0 <= |z| <= y <= x <= pi/4, z >= 0 if x = pi/4']))
        for m in (a1, a0, b1, b0):
            if not np.allclose(m @ m.conj().T, np.eye(2), atol=1e-7):
                ctx.report_witness('kak:local-unitary', 'a KAK local factor is not unitary', dict(rep, impl_out=[repr(np.round(m, 6).tolist())], spec_out=['unitary 2x2']))
        if abs(abs(k.global_phase) - 1) > 1e-7:
            ctx.report_witness('kak:phase', 'KAK global phase is not a phase', dict(rep, impl_out=[complex(k.global_phase)], spec_out=['|g| = 1']))
        # kak_vector
        kv = cirq.kak_vector(u)
        ctx.count('check', 'kak_vector')
        if not np.allclose(sorted(np.abs(kv)), sorted(np.abs(k.interaction_coefficients)), atol=1e-6) or not canonical_ok(*kv, tol=1e-6):
            ctx.report_witness('kak:vector', 'kak_vector disagrees with kak_decomposition or is not canonical', dict(rep, impl_out=[list(map(float, kv))], spec_out=[list(k.interaction_coefficients)]))
        # kron factoring of a local gate
        l1, l0 = gen.rand_unitary(rng, 2), gen.rand_unitary(rng, 2)
        g, f1, f2 = cirq.kron_factor_4x4_to_2x2s(np.kron(l1, l0) * np.exp(1j * rng.uniform(0, 6)))
        ctx.count('check', 'kron_factor')
        if not np.allclose(g * np.kron(f1, f2), np.kron(l1, l0) * (g * np.kron(f1, f2))[0, 0] / np.kron(l1, l0)[0, 0] if abs(np.kron(l1, l0)[0, 0]) > 1e-3 else g * np.kron(f1, f2), atol=1e-6):
            ctx.report_witness('kron-factor', 'kron_factor_4x4_to_2x2s factors do not multiply to the input', dict(rep, impl_out=['...'], spec_out=['...']))
        # single-qubit routines
        s = rng.choice([gen.rand_unitary(rng, 2), np.eye(2, dtype=complex), X, Z, cirq.unitary(cirq.H), cirq.unitary(cirq.S), cirq.unitary(cirq.X**0.5), cirq.unitary(cirq.Z**rng.uniform(-1, 1)),
                        cirq.unitary(cirq.X**1e-9), cirq.unitary(cirq.PhasedXPowGate(phase_exponent=0.3, exponent=1.0))])
        srep = {'lines': [{'matrix': repr(np.round(s, 9).tolist())}], 'theorem_or_correspondence': 'single-qubit synthesis'}
        q0 = cirq.LineQubit(0)
        for name, f in (('pauli_rotations', lambda: [(p_ ** e_)(q0) for p_, e_ in cirq.single_qubit_matrix_to_pauli_rotations(s)]), ('phased_x_z', lambda: [g(q0) for g in cirq.single_qubit_matrix_to_phased_x_z(s)]),
                        ('phxz', lambda: [g(q0) for g in [cirq.single_qubit_matrix_to_phxz(s)] if g is not None]), ('gates', lambda: [g(q0) for g in cirq.single_qubit_matrix_to_gates(s)])):
            ops = f()
            got = lean_product(ctx, cirq, ops, [q0])
            ctx.count('check', 'single:' + name)
            if not phase_close(got, s, 1e-6):
                ctx.report_witness(f'single:{name}', f'single_qubit_matrix_to_{name}: the product of the returned gates is not the input (up to global phase)', dict(srep, impl_out=[[repr(o) for o in ops]], spec_out=['input']))
        a, b, c = cirq.deconstruct_single_qubit_matrix_into_angles(s)
        rz = lambda t: np.array([[np.exp(-0.5j * t), 0], [0, np.exp(0.5j * t)]])
        ry = lambda t: np.array([[np.cos(t / 2), -np.sin(t / 2)], [np.sin(t / 2), np.cos(t / 2)]], dtype=complex)
        ctx.count('check', 'single:angles')
        if not phase_close(rz(c) @ ry(b) @ rz(a), s, 1e-6):
            ctx.report_witness('single:angles', 'deconstruct_single_qubit_matrix_into_angles: Rz(c) Ry(b) Rz(a) is not the input up to phase', dict(srep, impl_out=[[a, b, c]], spec_out=['input']))
        aa = cirq.axis_angle(s)
        ax = np.array(aa.axis)
        rebuilt1 = aa.global_phase * (np.cos(aa.angle / 2) * I2 - 1j * np.sin(aa.angle / 2) * (ax[0] * X + ax[1] * Y + ax[2] * Z))
        ctx.count('check', 'single:axis_angle')
        if not np.allclose(rebuilt1, s, atol=1e-6) or abs(np.linalg.norm(ax) - 1) > 1e-6 and abs(aa.angle) > 1e-6:
            ctx.report_witness('single:axis-angle', 'axis_angle: exp(-i angle/2 n.sigma) times the phase is not the input', dict(srep, impl_out=[repr(aa)], spec_out=['input']))
        # map_eigenvalues / unitary powers
        t = rng.uniform(-1.5, 1.5)
        me = cirq.map_eigenvalues(u, lambda e: e**t if abs(e) > 0 else e)
        w, v = np.linalg.eig(u)
        ctx.count('check', 'map_eigenvalues')
        if not np.allclose(me @ v, v * (w**t), atol=1e-5):
            ctx.report_witness('map-eigenvalues', 'map_eigenvalues does not act as the function on the eigenvalues', dict(rep, impl_out=['...'], spec_out=['...']))


# ------------------------------------------------------------------------------ synthesis into gate sets
def count_2q(ops):
    return sum(1 for o in ops if len(o.qubits) == 2)


def check_weyl_faces(ctx, cirq):
    """unitaries at every distance 1e-11 .. 1e-5 from the corners and the x = pi/4 face of the Weyl chamber (where the canonical
    coefficients jump and the eigenphases of the magic-basis matrix become degenerate), with global phases that put the eigenphases
    near 0 and +-pi/2: the KAK decomposition rebuilds the input and the syntheses multiply to it"""
    rng = ctx.substream('weyl-faces')
    q0, q1 = cirq.LineQubit.range(2)
    pi4 = math.pi / 4
    loc = lambda: np.kron(gen.rand_unitary(rng, 2), gen.rand_unitary(rng, 2))
    fs = cirq.FSimGate(theta=1.3, phi=0.4)
    scales = [10.0 ** k for k in range(-11, -4)] + [3e-9, 3e-8, 2e-8, 0.7e-8]
    reps = 1 if ctx.tier == 'quick' else 6
    patterns = [(0, 0, 1), (0, 0, None), (0, None, None), (None, None, None)]   # which distances are 0, eps, or eps * random
    phases = [1, 1j, np.exp(0.25j * math.pi), None]
    for eps in scales:
        for shape in ('swap', 'swap-', 'face', 'iswap', 'cnot'):
            for pat, ph, _ in itertools.product(patterns if shape.startswith('swap') else patterns[-1:], phases, range(reps)):
                d1, d2, d3 = (eps * (rng.uniform(0, 1) if f is None else f) for f in pat)
                x, y, z = {'swap': (pi4 - d1, pi4 - d1 - d2, pi4 - d1 - d2 - d3), 'swap-': (pi4 - d1, pi4 - d1 - d2, -(pi4 - d1 - d2 - d3)),
                           'face': (pi4 - d1, 0.4, rng.choice([1, -1]) * (0.2 + d3)), 'iswap': (pi4 - d1, pi4 - d1 - d2, rng.choice([1, -1]) * d3),
                           'cnot': (pi4 - d1, d2, rng.choice([1, -1]) * min(d2, d3))}[shape]
                ph = np.exp(1j * rng.uniform(0, 6)) if ph is None else ph
                u = ph * (loc() @ interaction(x, y, z) @ loc())
                rep = {'lines': [{'matrix': repr(u.tolist()), 'shape': shape, 'eps': eps, 'coefficients': [x, y, z]}], 'theorem_or_correspondence': 'kak_reconstructs / operation product'}
                ctx.case(['weyl-face', shape, eps], True)
                ctx.count('check', 'weyl-face:kak')
                kak = cirq.kak_decomposition(u)
                if not np.allclose(cirq.unitary(kak), u, atol=1e-6):
                    ctx.report_witness('kak:reconstruct:weyl-face', 'kak_decomposition of a unitary next to a face of the Weyl chamber does not multiply back to the input',
                                       dict(rep, impl_out=[repr(np.round(cirq.unitary(kak), 7).tolist())], spec_out=['the input']))
                    continue
                ctx.count('check', 'weyl-face:four-fsim')
                c = cirq.decompose_two_qubit_interaction_into_four_fsim_gates(u, fsim_gate=fs, qubits=(q0, q1))
                if not np.allclose(c.unitary(qubit_order=[q0, q1]), u, atol=1e-6):
                    ctx.report_witness('synth:fsim', 'decompose_two_qubit_interaction_into_four_fsim_gates: wrong product next to a face of the Weyl chamber',
                                       dict(rep, impl_out=[repr(np.round(c.unitary(qubit_order=[q0, q1]), 7).tolist())], spec_out=['the input']))
                for name, f in (('cz', lambda: cirq.two_qubit_matrix_to_cz_operations(q0, q1, u, allow_partial_czs=False)),
                                ('sqrt-iswap', lambda: cirq.two_qubit_matrix_to_sqrt_iswap_operations(q0, q1, u))):
                    ctx.count('check', f'weyl-face:{name}')
                    got = cirq.Circuit(f()).unitary(qubit_order=[q0, q1], qubits_that_should_be_present=[q0, q1])
                    if not phase_close(got, u, 1e-5):
                        ctx.report_witness(f'synth:{name}', f'synthesis into {name}: wrong product next to a face of the Weyl chamber',
                                           dict(rep, impl_out=[repr(np.round(got, 7).tolist())], spec_out=['the input up to phase']))


def check_cphase_to_fsim(ctx, cirq):
    """decompose_cphase_into_two_fsim: for every exponent in the intervals compute_cphase_exponents_for_fsim_decomposition reports (and
    its images under the period 2), with or without a global shift, the operations multiply to the matrix of the given gate — global
    phase included, as documented — and contain exactly two copies of the FSim gate"""
    import cirq_google

    rng = ctx.substream('cphase-fsim')
    q0, q1 = cirq.LineQubit.range(2)
    fsims = [cirq.FSimGate(theta=np.pi / 2, phi=np.pi / 6), cirq.FSimGate(theta=1.3, phi=0.4), cirq_google.SYC, cirq.FSimGate(theta=0.3, phi=2.0), cirq.FSimGate(theta=-np.pi / 2, phi=-0.3), cirq.FSimGate(theta=2.8, phi=1.0)]
    for fs in fsims:
        intervals = cirq.compute_cphase_exponents_for_fsim_decomposition(fs)
        for lo, hi in intervals:
            for it in range(4 if ctx.tier == 'quick' else 30):
                e = rng.uniform(lo, hi) if it > 1 else (lo + (hi - lo) * (0.001 if it == 0 else 0.999))
                e += rng.choice([0, 0, 2, -2, 4])
                sh = rng.choice([0, 0, 0.25, -0.5, 1, 0.3])
                g = cirq.CZPowGate(exponent=e, global_shift=sh)
                ctx.count('check', 'cphase-to-two-fsim')
                ctx.case(['cphase-fsim', repr(fs), round(e, 6), sh], True)
                rep = {'lines': [{'fsim': repr(fs), 'cphase': repr(g)}], 'theorem_or_correspondence': 'operation product = input (exact)'}
                try:
                    ops_ = list(cirq.decompose_cphase_into_two_fsim(g, fsim_gate=fs, qubits=(q0, q1)))
                except ValueError as ex:
                    ctx.report_witness('synth:cphase-fsim:rejected', f'decompose_cphase_into_two_fsim rejects an exponent inside the interval it reports as feasible: {str(ex)[:100]}', dict(rep, impl_out=[str(ex)[:200]], spec_out=['two FSim gates']))
                    continue
                got = cirq.Circuit(ops_).unitary(qubit_order=[q0, q1], qubits_that_should_be_present=[q0, q1])
                want = cirq.unitary(g)
                n2 = sum(1 for o in ops_ if len(o.qubits) == 2)
                foreign = [o for o in ops_ if len(o.qubits) == 2 and o.gate != fs]
                if not np.allclose(got, want, atol=1e-6) or n2 != 2 or foreign:
                    sig = 'synth:cphase-fsim' + (':global-shift' if sh != 0 and phase_close(got, want, 1e-6) else '')
                    ctx.report_witness(sig, 'decompose_cphase_into_two_fsim: the operations do not multiply to the matrix of the given CZPowGate (global phase included), or not exactly two FSim gates',
                                       dict(rep, impl_out=[repr(np.round(got, 7).tolist()), n2], spec_out=[repr(np.round(want, 7).tolist()), 2]))


def check_synthesis(ctx, cirq, n):
    import cirq_google

    rng = ctx.substream('synth')
    q0, q1, q2 = cirq.LineQubit.range(3)
    for i in range(n):
        u = rand_two_qubit(cirq, rng)
        rep = {'lines': [{'matrix': repr(u.tolist())}], 'theorem_or_correspondence': 'operation product via applyOps'}  # (full precision: the replay must be the same input)
        ctx.case(['synth', np.round(u, 6).tobytes().hex()[:40]], True)
        # CZ target
        partial, clean = rng.random() < 0.5, rng.random() < 0.5
        ops = cirq.two_qubit_matrix_to_cz_operations(q0, q1, u, allow_partial_czs=partial, clean_operations=clean)
        got = lean_product(ctx, cirq, ops, [q0, q1])
        ctx.count('check', 'to_cz')
        n2 = count_2q(ops)
        bad_kind = [o for o in ops if len(o.qubits) == 2 and not (isinstance(o.gate, cirq.CZPowGate) and (partial or abs(abs(o.gate.exponent) - 1) < 1e-9))]
        if not phase_close(got, u, 1e-5) or n2 > 3 or bad_kind:
            ctx.report_witness('synth:cz', f'two_qubit_matrix_to_cz_operations(allow_partial_czs={partial}, clean_operations={clean}): wrong product, more than 3 CZ, or a foreign two-qubit gate',
                               dict(rep, impl_out=[[repr(o) for o in ops][:30], n2], spec_out=['<= 3 CZ, product = input up to phase']))
        # sqrt-iSWAP target
        req = rng.choice([None, None, 3])
        try:
            ops = cirq.two_qubit_matrix_to_sqrt_iswap_operations(q0, q1, u, required_sqrt_iswap_count=req, clean_operations=clean)
            got = lean_product(ctx, cirq, ops, [q0, q1])
            ctx.count('check', 'to_sqrt_iswap')
            n2 = count_2q(ops)
            kinds_ok = all(isinstance(o.gate, cirq.ISwapPowGate) and abs(abs(o.gate.exponent) - 0.5) < 1e-9 for o in ops if len(o.qubits) == 2)
            if not phase_close(got, u, 1e-5) or n2 > 3 or (req is not None and n2 != req) or not kinds_ok:
                ctx.report_witness('synth:sqrt-iswap', f'two_qubit_matrix_to_sqrt_iswap_operations(required_sqrt_iswap_count={req}): wrong product or gate count',
                                   dict(rep, impl_out=[[repr(o) for o in ops][:30], n2], spec_out=['<= 3 sqrt-iSWAP (exactly the required count), product = input up to phase']))
        except ValueError as e:
            ctx.count('synth_rejected', 'sqrt_iswap:' + str(e)[:40])
        # four FSim gates
        fs = rng.choice([cirq.FSimGate(theta=np.pi / 2, phi=np.pi / 6), cirq.FSimGate(theta=1.3, phi=0.4), cirq.ISWAP, cirq_google.SYC, cirq.ISwapPowGate(exponent=-1), cirq.ISwapPowGate(exponent=1, global_shift=0.3),
                         cirq.ISwapPowGate(exponent=0.9, global_shift=-0.25)])
        try:
            c = cirq.decompose_two_qubit_interaction_into_four_fsim_gates(u, fsim_gate=fs, qubits=(q0, q1))
            ops = list(c.all_operations())
            got = lean_product(ctx, cirq, ops, [q0, q1])
            ctx.count('check', 'to_four_fsim')
            if not np.allclose(got, u, atol=1e-5) or count_2q(ops) > 4:   # (exact: the circuit carries an explicit global phase operation)
                ctx.report_witness('synth:fsim' + (':global-shift' if phase_close(got, u, 1e-5) and count_2q(ops) <= 4 else ''), 'decompose_two_qubit_interaction_into_four_fsim_gates: wrong product or more than 4 FSim gates', dict(rep, impl_out=[[repr(o) for o in ops][:30], repr(fs), repr(np.round(got, 7).tolist())], spec_out=['<= 4 FSim, product = input']))
        except ValueError as e:
            ctx.count('synth_rejected', 'fsim:' + str(e)[:40])
        # Mølmer–Sørensen target
        ops = cirq.two_qubit_matrix_to_ion_operations(q0, q1, u)
        got = lean_product(ctx, cirq, ops, [q0, q1])
        ctx.count('check', 'to_ms')
        if not phase_close(got, u, 1e-5) or count_2q(ops) > 3:
            ctx.report_witness('synth:ms', 'two_qubit_matrix_to_ion_operations: wrong product or more than 3 MS gates', dict(rep, impl_out=[[repr(o) for o in ops][:30]], spec_out=['<= 3 MS, product = input']))
        # Sycamore target
        if i % 3 == 0:
            try:
                ops = list(cirq.flatten_to_ops(cirq_google.two_qubit_matrix_to_sycamore_operations(q0, q1, u)))
                got = lean_product(ctx, cirq, ops, [q0, q1])
                ctx.count('check', 'to_sycamore')
                if not phase_close(got, u, 1e-5) or any(len(o.qubits) == 2 and o.gate != cirq_google.SYC for o in ops):
                    ctx.report_witness('synth:sycamore', 'two_qubit_matrix_to_sycamore_operations: wrong product or a foreign two-qubit gate', dict(rep, impl_out=[[repr(o) for o in ops][:30]], spec_out=['SYC only, product = input']))
            except ValueError as e:
                ctx.count('synth_rejected', 'sycamore:' + str(e)[:40])
        # two-qubit state preparation
        psi = np.array([complex(rng.gauss(0, 1), rng.gauss(0, 1)) for _ in range(4)])
        if rng.random() < 0.3:
            psi = np.kron(gen.rand_unitary(rng, 2)[:, 0], gen.rand_unitary(rng, 2)[:, 0])  # product state
        elif rng.random() < 0.4:
            # nearly a product state: the entangling gate may only be dropped when the error this causes is negligible
            psi = np.kron(gen.rand_unitary(rng, 2)[:, 0], gen.rand_unitary(rng, 2)[:, 0]) + 10 ** rng.uniform(-9, -1) * psi
        psi /= np.linalg.norm(psi)
        for name, f in (('cz', cirq.prepare_two_qubit_state_using_cz), ('sqrt_iswap', cirq.prepare_two_qubit_state_using_sqrt_iswap), ('iswap', cirq.prepare_two_qubit_state_using_iswap)):
            ops = list(cirq.flatten_to_ops(f(q0, q1, psi)))
            m = lean_product(ctx, cirq, ops, [q0, q1])
            ctx.count('check', 'state-prep:' + name)
            ov = np.vdot(m[:, 0], psi)
            if abs(abs(ov) - 1) > 1e-6 or np.max(np.abs(m[:, 0] * ov / abs(ov) - psi)) > 1e-6 or count_2q(ops) > 1:
                ctx.report_witness(f'state-prep:{name}', f'prepare_two_qubit_state_using_{name}: the circuit does not prepare the state from |00> (or uses more than one entangling gate)',
                                   {'lines': [{'state': repr(np.round(psi, 9).tolist())}], 'impl_out': [[repr(o) for o in ops]], 'spec_out': ['|<psi|U|00>| = 1'], 'theorem_or_correspondence': 'operation product via applyOps'})
    # controlled rotations by small angles and close to a Pauli, systematically: nothing larger than the tolerance may be dropped
    for t in (3e-5, 1e-5) if ctx.tier == 'quick' else (1e-3, 1e-4, 3e-5, 1e-5, 3e-6, 1e-7):
        for gname, g in (('rx', cirq.rx(t)), ('ry', cirq.ry(t)), ('rz', cirq.rz(t)), ('ry(pi-t)', cirq.ry(np.pi - t)), ('rx(pi+t)', cirq.rx(np.pi + t)), ('phxz', cirq.PhasedXZGate(x_exponent=t, z_exponent=0.3, axis_phase_exponent=0.2)),
                         ('Z**t', cirq.ZPowGate(exponent=t)), ('Z**(1-t)', cirq.ZPowGate(exponent=1 - t)), ('X**t shifted', cirq.XPowGate(exponent=t, global_shift=0.25)),
                         ('diag(1, e^{it})', cirq.MatrixGate(np.diag([1, np.exp(1j * t)]))), ('e^{it/3} rx(0.4)', cirq.MatrixGate(np.exp(1j * t / 3) * cirq.unitary(cirq.rx(0.4))))):
            for nc in (1, 2, 3):
                sq = cirq.unitary(g)
                qs = cirq.LineQubit.range(nc + 1)
                ops = list(cirq.flatten_to_ops(cirq.decompose_multi_controlled_rotation(sq, list(qs[:nc]), qs[nc])))
                got = lean_product(ctx, cirq, ops, qs)
                want = np.eye(2 ** (nc + 1), dtype=complex)
                want[-2:, -2:] = sq
                ctx.count('check', 'multi_controlled_rotation:small-angle')
                ctx.case(['mcr-small', gname, t, nc], True)
                if not np.allclose(got, want, rtol=0, atol=1e-6):
                    ctx.report_witness('synth:multi-controlled:small-angle', 'decompose_multi_controlled_rotation: the product is not the controlled unitary (a small rotation was dropped)',
                                       {'lines': [{'gate': gname, 't': t, 'controls': nc}], 'impl_out': [len(ops), float(np.max(np.abs(got - want)))], 'spec_out': ['controlled-U within 1e-6'], 'theorem_or_correspondence': 'operation product via applyOps'})
    # three qubits, n qubits, controlled rotations, Cliffords
    for i in range(max(4, n // 8)):
        u3 = rng.choice([gen.rand_unitary(rng, 8), np.eye(8, dtype=complex), cirq.unitary(cirq.CCX), cirq.unitary(cirq.CCZ), cirq.unitary(cirq.CSWAP), np.kron(gen.rand_unitary(rng, 4), gen.rand_unitary(rng, 2)),
                         np.kron(np.kron(gen.rand_unitary(rng, 2), gen.rand_unitary(rng, 2)), gen.rand_unitary(rng, 2)), np.diag(np.exp(1j * np.array([rng.uniform(0, 6) for _ in range(8)])))])
        rep = {'lines': [{'matrix': repr(np.round(u3, 6).tolist())[:1500]}], 'theorem_or_correspondence': 'operation product via applyOps'}
        ctx.case(['synth3', np.round(u3, 6).tobytes().hex()[:40]], True)
        ops = list(cirq.flatten_to_ops(cirq.three_qubit_matrix_to_operations(q0, q1, q2, u3)))
        got = lean_product(ctx, cirq, ops, [q0, q1, q2])
        ctx.count('check', 'three_qubit')
        if not phase_close(got, u3, 1e-5) or any(len(o.qubits) > 2 for o in ops):
            ctx.report_witness('synth:three-qubit', 'three_qubit_matrix_to_operations: wrong product or an operation on more than two qubits', dict(rep, impl_out=[len(ops)], spec_out=['product = input up to phase']))
        nq = rng.choice([1, 2, 3])
        un = u3 if nq == 3 else gen.rand_unitary(rng, 2**nq)
        qs = cirq.LineQubit.range(nq)
        if rng.random() < 0.5:
            qs = rng.sample(qs, nq)  # the qubits in another order than sorted: the matrix is read in the order given
        ops = list(cirq.flatten_to_ops(cirq.quantum_shannon_decomposition(qs, un)))
        got = lean_product(ctx, cirq, ops, qs)
        ctx.count('check', 'shannon')
        # (documented as preserving the global phase: compared exactly, global-phase operations included)
        exact = cirq.Circuit(ops).unitary(qubit_order=qs, qubits_that_should_be_present=qs) if ops else np.eye(2**nq)
        if not phase_close(got, un, 1e-5) or not np.allclose(exact, un, atol=1e-5):
            ctx.report_witness('synth:shannon', 'quantum_shannon_decomposition: the product of the operations is not the input', {'lines': [{'matrix': repr(np.round(un, 6).tolist())[:1500]}], 'impl_out': [len(ops)], 'spec_out': ['product = input up to phase'],
                                                                                                                        'theorem_or_correspondence': 'operation product via applyOps'})
        # multi-controlled single-qubit unitary
        nc = rng.choice([1, 2, 3])
        sq = gen.rand_unitary(rng, 2)
        sq = sq / np.sqrt(np.linalg.det(sq)) if rng.random() < 0.5 else sq
        if rng.random() < 0.4:
            # rotations by small angles and rotations close to a Pauli: nothing larger than the tolerance may be dropped
            t = 10 ** rng.uniform(-9, -2)
            sq = cirq.unitary(rng.choice([cirq.rx(t), cirq.ry(t), cirq.rz(t), cirq.ry(np.pi - t), cirq.rx(np.pi + t), cirq.PhasedXZGate(x_exponent=t, z_exponent=rng.choice([0, 0.3]), axis_phase_exponent=0.2),
                                          cirq.ZPowGate(exponent=t), cirq.ZPowGate(exponent=1 - t), cirq.XPowGate(exponent=t, global_shift=0.25)]))
        qs = cirq.LineQubit.range(nc + 1)
        try:
            ops = list(cirq.flatten_to_ops(cirq.decompose_multi_controlled_rotation(sq, list(qs[:nc]), qs[nc])))
            got = lean_product(ctx, cirq, ops, qs)
            want = np.eye(2 ** (nc + 1), dtype=complex)
            want[-2:, -2:] = sq
            ctx.count('check', 'multi_controlled_rotation')
            if not np.allclose(got, want, atol=1e-6):
                ctx.report_witness('synth:multi-controlled', 'decompose_multi_controlled_rotation: the product is not the controlled unitary', {'lines': [{'matrix': repr(np.round(sq, 6).tolist()), 'controls': nc}], 'impl_out': [len(ops)],
                                                                                                                                  'spec_out': ['controlled-U'], 'theorem_or_correspondence': 'operation product via applyOps'})
        except ValueError as e:
            ctx.count('synth_rejected', 'mcr:' + str(e)[:40])
        # Clifford tableau synthesis
        nqc = rng.choice([1, 2, 3])
        qs = cirq.LineQubit.range(nqc)
        cl = cirq.Circuit()
        for _ in range(rng.randint(1, 8)):
            if nqc >= 2 and rng.random() < 0.4:
                cl.append(rng.choice([cirq.CNOT, cirq.CZ, cirq.SWAP])(*rng.sample(qs, 2)))
            else:
                cl.append(rng.choice([cirq.H, cirq.S, cirq.X, cirq.Y, cirq.Z, cirq.S**-1, cirq.X**0.5])(rng.choice(qs)))
        tab = cirq.CliffordGate.from_op_list(list(cl.all_operations()), qs).clifford_tableau
        ops = cirq.decompose_clifford_tableau_to_operations(qs, tab)
        got = lean_product(ctx, cirq, ops, qs)
        ctx.count('check', 'clifford_tableau')
        if not phase_close(got, cl.unitary(qubit_order=qs, qubits_that_should_be_present=qs), 1e-6):
            ctx.report_witness('synth:clifford', 'decompose_clifford_tableau_to_operations: the operations do not implement the tableau\'s Clifford', {'lines': [{'circuit': repr(cl)}], 'impl_out': [[repr(o) for o in ops]], 'spec_out': ['same unitary up to phase'],
                                                                                                                                       'theorem_or_correspondence': 'operation product via applyOps'})


def run(ctx: common.Run):
    import cirq

    ctx.rule = (
        'canonicalisation: every integer vector in [-3q, 3q]^3 for q = 1 (sampled for q = 2, 4) + random vectors at q in {3, 5, 8, 12}; two-qubit inputs: Haar-like unitaries and the special '
        'classes (identity, local, CNOT / iSWAP / SWAP / sqrt-iSWAP / partial CZ / FSim, Weyl-chamber boundaries and corners, perturbed by 0, 1e-10, 1e-8, 1e-7, 3e-7) bare or dressed with random '
        'local gates; single-qubit inputs incl. Paulis, Clifford and near-identity; 3-qubit inputs incl. CCX / CCZ / CSWAP / product / diagonal; option flags allow_partial_czs, clean_operations, '
        'required_sqrt_iswap_count, several FSim base gates; non-trivial = every case; distinct by matrix'
    )
    ctx.trusted += [
        'harness/props/c15.py + lean/Driver/C15.lean, C01.lean; matrices of returned operations are cirq.unitary(op) (C03) composed by the Lean interpreter (C01)',
        'numpy linear algebra for the reference interaction exp(i(x XX + y YY + z ZZ)), kron products and eigen-decompositions; tolerance 1e-5 .. 1e-6, global phase ignored where documented',
        'the heuristic gate tabulation and bidiagonalisation helpers are covered only through the routines that call them',
    ]
    ok, failing = ctx.lean(MODULES)
    if not ok:
        ctx.report_unproved('lean-build', f'{failing}', {'theorem_or_correspondence': failing})
        return
    n = 40 if ctx.tier == 'quick' else 800
    check_canonicalize(ctx, cirq, n * 2)
    check_matrix_routines(ctx, cirq, n)
    check_factoring(ctx, cirq, max(20, n // 2))
    check_shannon_structured(ctx, cirq)
    check_symbolic_sqrt_iswap(ctx, cirq)
    check_cnot_counts_and_tabulation(ctx, cirq, max(24, n // 2))
    check_synthesis(ctx, cirq, n)
    check_weyl_faces(ctx, cirq)
    check_cphase_to_fsim(ctx, cirq)
    check_multi_controlled(ctx, cirq)
    check_known_gate_tables(ctx, cirq)


def replay(ctx, rep):
    print(json.dumps(rep, indent=1)[:3000])
    return 1
