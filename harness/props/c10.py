"""C10 — Parameter resolution and sweeps commute with everything else.

Lean: Model.C10 (sweeps: len / param_tuples / keys / __getitem__ / slices; resolver: substitution and
recursive resolution with loop detection), Props.C10 (len = number of assignments, indexing = iteration,
product order, zip / zip-longest lengths, repeat-last, linspace end points, substitution commutes with
evaluation, recursive resolution is sound for every consistent assignment).  Tie (T2): generated sweeps
(nested, empty, single-point), expression trees built through sympy with resolver chains (recursive and
cyclic), parameterised circuits (resolve-then-compute = compute-then-substitute; simulate_sweep =
per-assignment simulation; flatten preserves every gate parameter).
"""
from __future__ import annotations

import itertools

import json
from fractions import Fraction

import numpy as np

from harness import common, gen

MODULES = ['CirqVerif.Props.C10']


def rat(x):
    f = Fraction(x) if not isinstance(x, float) else Fraction(*x.as_integer_ratio())
    return [f.numerator, f.denominator]


def unrat(p):
    return p[0] / p[1]


class SweepGen:
    def __init__(self, cirq, rng):
        self.cirq, self.rng, self.n = cirq, rng, 0

    def key(self):
        self.n += 1
        return f's{self.n}'

    def leaf(self):
        cirq, r = self.cirq, self.rng
        k = r.randrange(4)
        key = self.key()
        if k == 0:
            vals = [r.choice([0.0, 1.0, 0.5, -2.0, 0.25, 3.0]) for _ in range(r.choice([0, 1, 2, 3, 4]))]
            return cirq.Points(key, vals), {'k': 'points', 'key': key, 'vals': [rat(v) for v in vals]}
        if k == 1:
            a, b, n = r.choice([0.0, 1.0, -1.0, 0.5]), r.choice([1.0, 2.0, 0.0, 10.0]), r.choice([1, 2, 3, 5])
            return cirq.Linspace(key, a, b, n), {'k': 'linspace', 'key': key, 'start': rat(a), 'stop': rat(b), 'length': n}
        if k == 2:
            key2 = self.key()
            rs = [{key: float(r.randrange(5)), key2: float(r.randrange(3))} for _ in range(r.choice([1, 2, 3]))]
            return cirq.ListSweep(rs), {'k': 'list', 'rs': [[[kk, rat(v)] for kk, v in d.items()] for d in rs]}
        return cirq.UnitSweep, {'k': 'unit'}

    def sweep(self, depth):
        cirq, r = self.cirq, self.rng
        if depth == 0 or r.random() < 0.3:
            return self.leaf()
        kind = r.choice(['product', 'zip', 'zip_longest', 'concat'])
        nargs = r.choice([0, 1, 2, 2, 3]) if kind in ('product', 'zip') else r.choice([1, 2, 2, 3])
        if kind == 'concat':
            # all operands of a Concat must have the same keys: concatenate slices / copies of one sweep
            base, lb = self.sweep(depth - 1)
            parts = [(base, lb)] * nargs
        else:
            parts = [self.sweep(depth - 1) for _ in range(nargs)]
        if kind == 'zip_longest' and any(len(p[0]) == 0 for p in parts):
            kind = 'zip'
        cls = {'product': cirq.Product, 'zip': cirq.Zip, 'zip_longest': cirq.ZipLongest, 'concat': cirq.Concat}[kind]
        if len(parts) == 2 and kind in ('product', 'zip') and r.random() < 0.4 and not any(type(p[0]) is cirq.Zip and len(p[0].sweeps) == 0 for p in parts):
            # the operator forms (an operand that is a ZipLongest / Concat must stay one operand)
            obj = parts[0][0] * parts[1][0] if kind == 'product' else parts[0][0] + parts[1][0]
        else:
            obj = cls(*[p[0] for p in parts])
        if not parts:
            lean = {'k': 'unit'} if kind == 'product' else {'k': 'empty'}
        else:
            lean = parts[0][1]
            for p in parts[1:]:
                lean = {'k': kind, 'a': lean, 'b': p[1]}
        return obj, lean


def params_of(resolver):
    return [[str(k), v] for k, v in resolver.param_dict.items()]


def same_params(a, b):
    """two assignments read from the implementation"""
    return len(a) == len(b) and all(k1 == k2 and abs(complex(v1) - complex(v2)) < 1e-12 for (k1, v1), (k2, v2) in zip(a, b))


def close_params(a, b):
    if len(a) != len(b):
        return False
    for (k1, v1), (k2, v2) in zip(a, b):
        if k1 != k2 or abs(float(v1) - unrat(v2)) > 1e-9 * max(1, abs(unrat(v2))):
            return False
    return True


def run(ctx: common.Run):
    import cirq
    import sympy

    ctx.rule = (
        'sweeps: random nestings (depth <= 3) of Product / Zip / ZipLongest / Concat over Points, Linspace, ListSweep, UnitSweep incl. empty and '
        'single-point operands and zero-operand Product / Zip; every index in [-n-1, n] and a set of slices; resolver: random expression trees '
        '(sums, products, nested symbols) and resolver chains of depth <= 4 incl. cyclic ones, recursive and non-recursive; circuits: '
        'parameterised random circuits x resolvers; non-trivial = nested sweep with >= 2 assignments / expression with >= 2 symbols'
    )
    ctx.trusted += [
        'harness/props/c10.py + lean/Driver/C10.lean (T2 on generated inputs only)',
        'sympy arithmetic on numbers (sums / products of floats) as documented; values cross as exact rationals of the floats',
        'Linspace points are compared up to float rounding (1e-9 relative); everything structural is compared exactly',
    ]
    ok, failing = ctx.lean(MODULES)
    if not ok:
        ctx.report_unproved('lean-build', f'{failing}', {'theorem_or_correspondence': failing})
        return
    n = 150 if ctx.tier == 'quick' else 2500
    check_sweeps(ctx, cirq, n)
    check_sweepables(ctx, cirq)
    check_resolver(ctx, cirq, sympy, n)
    check_linear_combinations(ctx, cirq, sympy, max(30, n // 4))
    check_circuits(ctx, cirq, sympy, max(20, n // 5))
    check_gate_families(ctx, cirq, sympy, 3 if ctx.tier == 'quick' else 25)
    check_compose(ctx, cirq, sympy, n)
    check_single_pass_wrappers(ctx, cirq, sympy)
    check_symbolic_repetitions(ctx, cirq, sympy)
    check_derived_circuits(ctx, cirq, sympy)
    check_sweep_measurements(ctx, cirq, sympy)


def check_sweeps(ctx, cirq, n):
    rng = ctx.substream('sweeps')
    reqs, meta = [], []
    for i in range(n):
        g = SweepGen(cirq, rng)
        try:
            obj, lean = g.sweep(rng.choice([0, 1, 2, 3]))
        except ValueError as e:
            ctx.count('sweep_ctor_error', str(e)[:40])
            continue
        length = len(obj)
        idxs = list(range(-length - 1, length + 1))
        slices = [{'start': rng.choice([None, 0, 1, -1, -2, 5]), 'stop': rng.choice([None, 0, 2, -1, 7]), 'step': rng.choice([1, 1, 2, -1, -2, 3])} for _ in range(4)]
        reqs.append({'p': 'C10', 'op': 'sweep', 'sweep': lean, 'indices': idxs, 'slices': slices})
        meta.append((obj, lean, idxs, slices))
    outs = ctx.driver.ask(reqs)
    for (obj, lean, idxs, slices), out in zip(meta, outs):
        ctx.count('sweep_kind', lean['k'])
        tuples = [params_of(r) for r in obj]
        ctx.case(lean, len(tuples) >= 2 and lean['k'] not in ('points', 'linspace', 'list', 'unit'),
                 sample={'sweep': repr(obj)[:300], 'len': len(obj)} if len(tuples) >= 2 and len(ctx.samples) < 3 else None)
        problems = []
        if len(obj) != out['len'] or len(tuples) != out['len']:
            problems.append(('len', [len(obj), len(tuples)], out['len']))
        if [str(k) for k in obj.keys] != out['keys']:
            problems.append(('keys', [str(k) for k in obj.keys], out['keys']))
        if len(tuples) != len(out['tuples']) or not all(close_params(a, b) for a, b in zip(tuples, out['tuples'])):
            problems.append(('param_tuples', tuples[:6], out['tuples'][:6]))
        for i, o in zip(idxs, out['items']):
            try:
                got = {'ok': params_of(obj[i])}
            except IndexError:
                got = {'err': 'IndexError'}
            if ('err' in got) != ('err' in o) or ('ok' in got and not close_params(got['ok'], o['ok'])):
                problems.append((f'getitem[{i}]', got, o))
                break
        for sl, o in zip(slices, out['slices']):
            got = [params_of(r) for r in obj[slice(sl['start'], sl['stop'], sl['step'])]]
            if len(got) != len(o) or not all(close_params(a, b) for a, b in zip(got, o)):
                problems.append((f'slice{sl}', got[:5], o[:5]))
                break
        # the conversion functions enumerate the same assignments (an empty sweep has none, not one empty assignment)
        for cname, conv in (('to_resolvers', lambda: list(cirq.to_resolvers(obj))), ('to_sweeps', lambda: [r for sw in cirq.to_sweeps(obj) for r in sw]),
                            ('to_sweep', lambda: list(cirq.to_sweep(obj))), ('to_resolvers(list)', lambda: list(cirq.to_resolvers([obj, obj])))):
            try:
                got = [params_of(r) for r in conv()]
            except (TypeError, ValueError) as e:
                problems.append((cname, f'{type(e).__name__}: {e}'[:100], len(tuples)))
                continue
            want_t = tuples + tuples if cname.endswith('(list)') else tuples
            if len(got) != len(want_t) or not all(same_params(a, b) for a, b in zip(got, want_t)):
                problems.append((cname, got[:6], want_t[:6]))
        for name, got, want in problems:
            ctx.report_witness(f'sweep:{name.split("[")[0].split("{")[0]}', f'{name} of the sweep differs from what its definition describes',
                               {'lines': [{'sweep': repr(obj)}], 'impl_out': [got], 'spec_out': [want], 'theorem_or_correspondence': 'C10_len_eq_tuples / C10_getItem_eq'})


def check_sweepables(ctx, cirq):
    """every form of a sweepable converts to the assignments it stands for"""
    import sympy

    R = cirq.ParamResolver
    cases = [
        ('None', None, [{}]), ('resolver', R({'a': 1.0}), [{'a': 1.0}]), ('empty resolver', R({}), [{}]), ('dict', {'a': 1.0}, [{'a': 1.0}]), ('empty dict', {}, [{}]),
        ('dict of lists', {'a': [1.0, 2.0], 'b': [3.0]}, [{'a': 1.0, 'b': 3.0}, {'a': 2.0, 'b': 3.0}]), ('dict of tuples', {'a': (1.0, 2.0)}, [{'a': 1.0}, {'a': 2.0}]),
        ('empty list', [], []), ('list of resolvers', [R({'a': 1.0}), R({'a': 2.0})], [{'a': 1.0}, {'a': 2.0}]), ('list of dicts', [{'a': 1.0}, {'b': 2.0}], [{'a': 1.0}, {'b': 2.0}]),
        ('empty points', cirq.Points('a', []), []), ('empty zip', cirq.Zip(), []), ('empty linspace', cirq.Linspace('a', 0, 1, 0), []), ('unit', cirq.UnitSweep, [{}]), ('empty product', cirq.Product(), [{}]),
        ('product with empty factor', cirq.Product(cirq.Points('a', [1.0, 2.0]), cirq.Points('b', [])), []), ('list with empty sweep', [cirq.Points('a', []), cirq.Points('b', [1.0])], [{'b': 1.0}]),
        ('symbol keys', {sympy.Symbol('a'): [0.5]}, [{'a': 0.5}]), ('nested lists', [[R({'a': 1.0})], cirq.Points('a', [2.0])], [{'a': 1.0}, {'a': 2.0}]),
    ]
    for name, sweepable, want in cases:
        ctx.count('check', 'sweepable')
        ctx.case(['sweepable', name], True)
        try:
            got = [params_of(r) for r in cirq.to_resolvers(sweepable)]
            got2 = [params_of(r) for sw in cirq.to_sweeps(sweepable) for r in sw]
        except (TypeError, ValueError) as e:
            got = got2 = f'{type(e).__name__}: {e}'[:100]
        norm = lambda g: [{k: float(v) for k, v in x} for x in g] if isinstance(g, list) else g
        if norm(got) != want or norm(got2) != want:
            ctx.report_witness('sweep:sweepable', f'cirq.to_resolvers / to_sweeps of a sweepable ({name}) does not enumerate the assignments it stands for',
                               {'lines': [{'sweepable': repr(sweepable)[:300]}], 'impl_out': [repr(got)[:400], repr(got2)[:400]], 'spec_out': [repr(want)], 'theorem_or_correspondence': 'C10_len_eq_tuples'})


def check_linear_combinations(ctx, cirq, sympy, n):
    """resolving a linear combination of gates / operations = substituting into every term (terms that become equal add up)"""
    rng = ctx.substream('lincomb')
    a, b = sympy.symbols('a b')
    q = cirq.LineQubit(0)
    for _ in range(n):
        fam = rng.choice([cirq.X, cirq.Y, cirq.Z, cirq.H])
        exps = [rng.choice([a, b, a + b, 2 * a, 0.5, b - a]) for _ in range(rng.randint(2, 3))]
        coefs = [rng.choice([2, 3, -1, 0.5, a, 1j]) for _ in exps]
        vals = rng.choice([{'a': 0.5, 'b': 0.5}, {'a': 0.25, 'b': 0.5}, {'a': 0.0, 'b': 0.5}, {'a': rng.uniform(-1, 1), 'b': rng.uniform(-1, 1)}])
        sub = lambda e: complex(sympy.sympify(e).subs({a: vals['a'], b: vals['b']}))
        if any(abs(sub(c)) < 1e-12 for c in coefs):
            continue  # (a term with coefficient 0 disappears from the combination, and with it the qubits it named: the zero operator has no shape)
        want = sum(sub(c) * cirq.unitary(fam ** float(sub(e).real)) for c, e in zip(coefs, exps))
        for kind in ('gates', 'operations'):
            terms = {}
            for c, e in zip(coefs, exps):
                key = (fam ** e) if kind == 'gates' else (fam ** e).on(q)
                if key in terms:
                    break
                terms[key] = c
            else:
                lc = cirq.LinearCombinationOfGates(terms) if kind == 'gates' else cirq.LinearCombinationOfOperations(terms)
                ctx.count('check', 'lincomb:' + kind)
                ctx.case(['lincomb', kind, repr(lc), repr(vals)], True)
                try:
                    got = cirq.resolve_parameters(lc, vals).matrix()
                except (TypeError, ValueError) as e:
                    ctx.count('lincomb_error', type(e).__name__)
                    continue
                if got.shape != want.shape or not np.allclose(got, want, atol=1e-8):
                    ctx.report_witness(f'resolve:linear-combination:{kind}', 'resolving a linear combination differs from substituting the values into each term',
                                       {'lines': [{'combination': repr(lc), 'values': vals}], 'impl_out': [repr(np.round(got, 6).tolist())], 'spec_out': [repr(np.round(want, 6).tolist())], 'theorem_or_correspondence': 'resolve_then_compute'})


def rand_expr(rng, sympy, names, depth):
    """returns (sympy expression, lean expr)"""
    if depth == 0 or rng.random() < 0.35:
        if rng.random() < 0.6:
            nme = rng.choice(names)
            return sympy.Symbol(nme), {'k': 'sym', 'n': nme}
        v = rng.choice([0.5, 2.0, -1.0, 3.0, 0.25])
        return sympy.Float(v), {'k': 'num', 'v': rat(v)}
    a, la = rand_expr(rng, sympy, names, depth - 1)
    b, lb = rand_expr(rng, sympy, names, depth - 1)
    if rng.random() < 0.5:
        return sympy.Add(a, b, evaluate=False), {'k': 'add', 'a': la, 'b': lb}
    return sympy.Mul(a, b, evaluate=False), {'k': 'mul', 'a': la, 'b': lb}


def lean_eval(e, env):
    if e['k'] == 'num':
        return unrat(e['v'])
    if e['k'] == 'sym':
        return env[e['n']]
    f = (lambda x, y: x + y) if e['k'] == 'add' else (lambda x, y: x * y)
    return f(lean_eval(e['a'], env), lean_eval(e['b'], env))


def lean_syms(e):
    if e['k'] == 'num':
        return set()
    if e['k'] == 'sym':
        return {e['n']}
    return lean_syms(e['a']) | lean_syms(e['b'])


def check_resolver(ctx, cirq, sympy, n):
    rng = ctx.substream('resolver')
    names = ['a', 'b', 'c', 'd', 'e']
    reqs, meta = [], []
    for i in range(n):
        # a resolver chain: some symbols bound to numbers, some to expressions over other symbols (possibly cyclic)
        bound = rng.sample(names, rng.randint(1, 4))
        rdict, lean_r = {}, []
        for nm in bound:
            if rng.random() < 0.45:
                v = rng.choice([0.5, 1.0, 2.0, -3.0])
                rdict[nm] = v
                lean_r.append([nm, {'k': 'num', 'v': rat(v)}])
            else:
                e, le = rand_expr(rng, sympy, names, rng.choice([0, 1, 2]))
                rdict[nm] = e
                lean_r.append([nm, le])
        e, le = rand_expr(rng, sympy, names, rng.choice([0, 1, 2, 3]))
        recursive = rng.random() < 0.7
        reqs.append({'p': 'C10', 'op': 'resolve', 'resolver': lean_r, 'expr': le, 'recursive': recursive})
        meta.append((rdict, e, le, recursive))
    outs = ctx.driver.ask(reqs)
    for (rdict, e, le, recursive), out in zip(meta, outs):
        resolver = cirq.ParamResolver(rdict)
        ctx.count('resolve', 'recursive' if recursive else 'single-pass')
        ctx.case([repr(rdict), str(e), recursive], len(lean_syms(le)) >= 2, sample={'expr': str(e), 'resolver': {k: str(v) for k, v in rdict.items()}} if len(ctx.samples) < 5 and len(lean_syms(le)) >= 2 else None)
        try:
            got = resolver.value_of(e, recursive=recursive)
            got_k = 'ok'
        except RecursionError:
            got, got_k = None, 'RecursionError'
        want_k = 'ok' if 'ok' in out else out['err']
        ctx.count('resolve_outcome', got_k)
        if got_k != want_k:
            ctx.report_witness('resolve:loop', 'loop detection of recursive resolution differs from the resolver structure',
                               {'lines': [{'expr': str(e), 'resolver': {k: str(v) for k, v in rdict.items()}, 'recursive': recursive}], 'impl_out': [got_k, str(got)], 'spec_out': [want_k],
                                'theorem_or_correspondence': 'resolveRec (T2)'})
            continue
        if got_k != 'ok':
            continue
        want = out['ok']
        # compare as functions of the remaining free symbols at two random points, and the free symbol sets
        gsyms = {str(s) for s in getattr(got, 'free_symbols', set())}
        wsyms = lean_syms(want)
        okv = True
        for trial in range(2):
            env = {nm: rng.choice([0.3, -1.7, 2.2, 0.9, 1.1]) + trial for nm in ['a', 'b', 'c', 'd', 'e']}
            gv = complex(got.subs({sympy.Symbol(k): v for k, v in env.items()})) if hasattr(got, 'subs') else complex(got)
            wv = lean_eval(want, env)
            if abs(gv - wv) > 1e-8 * max(1, abs(wv)):
                okv = False
        if not okv or not gsyms <= wsyms:
            ctx.report_witness('resolve:value', 'resolved value differs from substituting the bindings by ordinary algebra',
                               {'lines': [{'expr': str(e), 'resolver': {k: str(v) for k, v in rdict.items()}, 'recursive': recursive}], 'impl_out': [str(got)], 'spec_out': [want],
                                'theorem_or_correspondence': 'C10_subst_commutes / C10_resolveRec_sound'})


def check_circuits(ctx, cirq, sympy, n):
    """resolve-then-compute = compute-then-substitute; sweeps = per-assignment; flatten preserves gate values"""
    rng = ctx.substream('circuits')
    a, b = sympy.Symbol('a'), sympy.Symbol('b')
    for i in range(n + 1):
        circuit, qids = gen.random_unitary_circuit(cirq, rng, max_wires=3, max_ops=6)
        if i == 0:  # corpus: the witness of the known finding circuit:flatten:subcircuit always runs
            q0 = cirq.LineQubit(0)
            sc0 = cirq.Circuit(cirq.CircuitOperation(cirq.FrozenCircuit(cirq.X(q0) ** (2 * a))), cirq.Z(q0) ** (a / 2))
            flat0, emap0 = cirq.flatten(sc0)
            if cirq.is_parameterized(cirq.resolve_parameters(flat0, emap0.transform_params({'a': 0.3}))):
                ctx.report_witness('circuit:flatten:subcircuit', 'cirq.flatten leaves the expressions inside a CircuitOperation symbolic while transform_params drops the original symbols',
                                   {'lines': [{'circuit': repr(sc0)}], 'impl_out': [sorted(cirq.parameter_names(flat0))], 'spec_out': ['only fresh symbols'], 'theorem_or_correspondence': 'flatten_preserves'})
            continue
        exprs = [a, b, a + b, 2 * a, a * b, b - 0.5, a / 2]
        moments = []
        for m in circuit:
            ops = []
            for op in m.operations:
                if isinstance(op.gate, cirq.EigenGate) and rng.random() < 0.5:
                    ops.append((op.gate**1)._with_exponent(rng.choice(exprs)).on(*op.qubits).with_tags('tag'))
                else:
                    ops.append(op)
            moments.append(cirq.Moment(ops))
        sc = cirq.Circuit(moments)
        if rng.random() < 0.3 and len(sc):
            sc = cirq.Circuit(cirq.CircuitOperation(sc.freeze()))
        if not cirq.is_parameterized(sc):
            continue
        qs = sorted(sc.all_qubits())
        vals = {'a': rng.choice([0.0, 0.5, 1.0, 0.37]), 'b': rng.choice([0.25, -1.0, 1.5, 0.11])}
        r = cirq.ParamResolver(vals)
        ctx.count('check', 'circuit-resolve')
        ctx.case(['circ', repr(sc)], True)
        resolved = cirq.resolve_parameters(sc, r)
        # (1) resolution is compositional: chain resolver a->c, c->value
        chain = cirq.ParamResolver({'a': sympy.Symbol('c'), 'c': vals['a'], 'b': vals['b']})
        r2 = cirq.resolve_parameters(sc, chain)
        u1 = resolved.unitary(qubit_order=qs)
        u2 = r2.unitary(qubit_order=qs)
        if cirq.is_parameterized(resolved) or not np.allclose(u1, u2, atol=1e-8):
            ctx.report_witness('circuit:chain', 'resolving through a resolver chain differs from resolving with the composed values', {'lines': [{'circuit': repr(sc), 'values': vals}],
                               'impl_out': ['...'], 'spec_out': ['...'], 'theorem_or_correspondence': 'resolver_compose'})
        # (2) resolve-then-matrix = matrix of each op with the substituted exponent
        ok2 = True

        def flat_ops(c):
            for op in c.all_operations():
                if isinstance(op.untagged, cirq.CircuitOperation):
                    yield from flat_ops(op.untagged.mapped_circuit())
                else:
                    yield op

        for op_s, op_r in zip(flat_ops(sc), flat_ops(resolved)):
            g = op_s.gate
            if isinstance(g, cirq.EigenGate) and cirq.is_parameterized(g):
                e = float(sympy.sympify(g.exponent).subs({sympy.Symbol(k): v for k, v in vals.items()}))
                want = cirq.unitary(g._with_exponent(e))
                if not np.allclose(cirq.unitary(op_r), want, atol=1e-8):
                    ok2 = False
        if not ok2:
            ctx.report_witness('circuit:resolve-matrix', 'resolving then taking the matrix differs from substituting the numbers into the exponent', {'lines': [{'circuit': repr(sc), 'values': vals}],
                               'impl_out': ['...'], 'spec_out': ['...'], 'theorem_or_correspondence': 'resolve_commutes_matrix'})
        # (3) unrelated symbols are left alone
        partial = cirq.resolve_parameters(sc, cirq.ParamResolver({'a': vals['a']}))
        if 'a' in cirq.parameter_names(partial) or not cirq.parameter_names(partial) <= (cirq.parameter_names(sc) - {'a'}):
            ctx.report_witness('circuit:partial', 'partial resolution touched an unrelated symbol or left a resolved one', {'lines': [{'circuit': repr(sc)}], 'impl_out': [sorted(cirq.parameter_names(partial))],
                               'spec_out': ['b only'], 'theorem_or_correspondence': 'value_of_subst'})
        # (4) simulate_sweep = per-assignment simulation
        sweep = cirq.Product(cirq.Points('a', [vals['a'], 0.1]), cirq.Linspace('b', vals['b'], 1.0, 2))
        results = cirq.Simulator(dtype=np.complex128).simulate_sweep(sc, sweep, qubit_order=qs)
        for res, rr in zip(results, sweep):
            want = cirq.resolve_parameters(sc, rr).final_state_vector(qubit_order=qs, dtype=np.complex128)
            if not np.allclose(res.final_state_vector, want, atol=1e-7):
                ctx.report_witness('circuit:sweep', 'simulate_sweep differs from simulating each assignment separately', {'lines': [{'circuit': repr(sc), 'assignment': repr(rr)}],
                                   'impl_out': ['...'], 'spec_out': ['...'], 'theorem_or_correspondence': 'simulate_sweep_eq'})
                break
        # (5) flatten preserves the value of every gate for every assignment
        flat, emap = cirq.flatten(sc)
        leftover = cirq.parameter_names(flat) & {'a', 'b'}
        has_sub = any(isinstance(op.untagged, cirq.CircuitOperation) for op in sc.all_operations())
        if leftover and has_sub:
            # known finding: expressions inside a CircuitOperation are not flattened, yet transform_params drops the original symbols
            rflat = emap.transform_params({'a': 0.3, 'b': 0.7})
            if cirq.is_parameterized(cirq.resolve_parameters(flat, rflat)):
                ctx.report_witness('circuit:flatten:subcircuit', 'cirq.flatten leaves the expressions inside a CircuitOperation symbolic while transform_params drops the original symbols',
                                   {'lines': [{'circuit': repr(sc)}], 'impl_out': [sorted(cirq.parameter_names(flat))], 'spec_out': ['only fresh symbols'], 'theorem_or_correspondence': 'flatten_preserves'})
            continue
        # flatten_with_sweep / flatten_with_params: the flattened circuit under the transformed assignments is the circuit under the original ones
        try:
            flat_s, new_sweep = cirq.flatten_with_sweep(sc, sweep)
            pairs = list(zip(cirq.to_resolvers(sweep), cirq.to_resolvers(new_sweep)))
            vv0 = {'a': rng.uniform(-1, 1), 'b': rng.uniform(-1, 1)}
            flat_p, new_params = cirq.flatten_with_params(sc, vv0)
            pairs_p = [(cirq.ParamResolver(vv0), cirq.ParamResolver(new_params))]
        except (TypeError, ValueError) as e:
            ctx.count('flatten_error', f'{type(e).__name__}:{str(e)[:40]}')
            pairs, pairs_p, flat_s, flat_p = [], [], None, None
        ctx.count('check', 'flatten_with_sweep')
        for fname, fc, prs in (('flatten_with_sweep', flat_s, pairs), ('flatten_with_params', flat_p, pairs_p)):
            for r_old, r_new in prs:
                try:
                    u_a = cirq.resolve_parameters(sc, r_old).unitary(qubit_order=qs)
                    u_b = cirq.resolve_parameters(fc, r_new).unitary(qubit_order=qs)
                    okf = np.allclose(u_a, u_b, atol=1e-8)
                except (TypeError, ValueError):
                    okf = False  # still parameterized: the transformed assignment does not bind every symbol of the flattened circuit
                if not okf:
                    ctx.report_witness(f'circuit:{fname}', f'{fname}: the flattened circuit under the transformed assignment differs from the circuit under the original assignment (or stays symbolic)',
                                       {'lines': [{'circuit': repr(sc), 'assignment': repr(r_old)}], 'impl_out': [repr(fc)[:800], repr(r_new)[:300]], 'spec_out': ['same unitary'], 'theorem_or_correspondence': 'flatten_preserves'})
                    break
        for trial in range(2):
            vv = {'a': rng.uniform(-1, 1), 'b': rng.uniform(-1, 1)}
            rflat = emap.transform_params(vv)
            u_a = cirq.resolve_parameters(sc, vv).unitary(qubit_order=qs)
            u_b = cirq.resolve_parameters(flat, rflat).unitary(qubit_order=qs)
            if not np.allclose(u_a, u_b, atol=1e-8):
                ctx.report_witness('circuit:flatten', 'flattening changed the value of a gate for some assignment', {'lines': [{'circuit': repr(sc), 'values': vv}],
                                   'impl_out': ['...'], 'spec_out': ['...'], 'theorem_or_correspondence': 'flatten_preserves'})
                break


def check_compose(ctx, cirq, sympy, n):
    """resolve_parameters(r1, r2) on resolvers is the resolver of 'first r1, then r2' (C10_compose_resolvers)"""
    rng = ctx.substream('compose')
    names = ['a', 'b', 'c', 'd']

    def rand_resolver():
        rd, lr = {}, []
        for nm in rng.sample(names, rng.randint(1, 3)):
            if rng.random() < 0.5:
                v = rng.choice([0.5, 0.25, 2.0, -3.0, 0.9])
                rd[nm] = v
                lr.append([nm, {'k': 'num', 'v': rat(v)}])
            else:
                e, le = rand_expr(rng, sympy, names, rng.choice([0, 0, 1]))
                rd[nm] = e
                lr.append([nm, le])
        return rd, lr

    reqs, meta = [], []
    for _ in range(n):
        d1, l1 = rand_resolver()
        d2, l2 = rand_resolver()
        reqs.append({'p': 'C10', 'op': 'compose', 'r1': l1, 'r2': l2})
        meta.append((d1, d2))
    for (d1, d2), out in zip(meta, ctx.driver.ask(reqs)):
        r1, r2 = cirq.ParamResolver(d1), cirq.ParamResolver(d2)
        comp = cirq.resolve_parameters(r1, r2, recursive=False)
        shared = bool(set(d1) & set(d2))
        ctx.case(['compose', repr(d1), repr(d2)], shared)
        ctx.count('check', 'compose:shared-key' if shared else 'compose')
        got = {str(k): v for k, v in comp.param_dict.items()}
        rep = {'lines': [{'r1': {k: str(v) for k, v in d1.items()}, 'r2': {k: str(v) for k, v in d2.items()}}], 'theorem_or_correspondence': 'Model.C10.compose (C10_compose_resolvers)'}
        want = {k: e for k, e in out}
        ok = set(got) == set(want)
        if ok:
            for trial in range(2):
                env = {nm: rng.choice([0.3, -1.7, 2.2, 1.1]) + trial for nm in names}
                for k in want:
                    gv = got[k]
                    gv = complex(gv.subs({sympy.Symbol(s_): v for s_, v in env.items()})) if hasattr(gv, 'subs') else complex(gv)
                    if abs(gv - lean_eval(want[k], env)) > 1e-8 * max(1, abs(gv)):
                        ok = False
        if not ok:
            ctx.report_witness('resolve:compose', 'resolve_parameters(r1, r2) is not the resolver that applies r1 and then r2', dict(rep, impl_out=[{k: str(v) for k, v in got.items()}], spec_out=[want]))
            continue
        # and it acts like resolving twice on an expression
        e, _ = rand_expr(rng, sympy, names, 2)
        try:
            twice = r2.value_of(r1.value_of(e, recursive=False), recursive=False)
            once = comp.value_of(e, recursive=False)
            pw = cirq.ParamResolver({'a': sympy.Symbol('b')}).value_of(sympy.Float(2.0) ** sympy.Symbol('a'), recursive=False)
        except TypeError as ex:
            ctx.report_witness('resolve:partial-power', f'partial resolution raises TypeError: {str(ex)[:80]}', dict(rep, impl_out=[str(ex)[:200], sympy.srepr(e)], spec_out=['the partially resolved expression']))
            continue
        env = {sympy.Symbol(nm): 0.7 + i for i, nm in enumerate(names)}
        v1 = complex(twice.subs(env)) if hasattr(twice, 'subs') else complex(twice)
        v2 = complex(once.subs(env)) if hasattr(once, 'subs') else complex(once)
        if abs(v1 - v2) > 1e-8 * max(1, abs(v1)):
            ctx.report_witness('resolve:compose:expr', 'resolving with the composed resolver differs from resolving with r1 and then r2', dict(rep, impl_out=[str(once)], spec_out=[str(twice)]))


def check_gate_families(ctx, cirq, sympy, rounds):
    """resolving a parameterised gate of every library family = building the gate from the resolved numbers
    (every constructor argument that accepts a symbol, global shifts and the other fixed arguments kept)"""
    rng = ctx.substream('families')
    S = sympy.Symbol
    fams = {
        'XPowGate': lambda v, c: cirq.XPowGate(exponent=v('a'), global_shift=c['s']),
        'YPowGate': lambda v, c: cirq.YPowGate(exponent=v('a'), global_shift=c['s']),
        'ZPowGate': lambda v, c: cirq.ZPowGate(exponent=v('a'), global_shift=c['s']),
        'HPowGate': lambda v, c: cirq.HPowGate(exponent=v('a'), global_shift=c['s']),
        'CZPowGate': lambda v, c: cirq.CZPowGate(exponent=v('a'), global_shift=c['s']),
        'CXPowGate': lambda v, c: cirq.CXPowGate(exponent=v('a'), global_shift=c['s']),
        'SwapPowGate': lambda v, c: cirq.SwapPowGate(exponent=v('a'), global_shift=c['s']),
        'ISwapPowGate': lambda v, c: cirq.ISwapPowGate(exponent=v('a'), global_shift=c['s']),
        'XXPowGate': lambda v, c: cirq.XXPowGate(exponent=v('a'), global_shift=c['s']),
        'YYPowGate': lambda v, c: cirq.YYPowGate(exponent=v('a'), global_shift=c['s']),
        'ZZPowGate': lambda v, c: cirq.ZZPowGate(exponent=v('a'), global_shift=c['s']),
        'CCZPowGate': lambda v, c: cirq.CCZPowGate(exponent=v('a'), global_shift=c['s']),
        'CCXPowGate': lambda v, c: cirq.CCXPowGate(exponent=v('a'), global_shift=c['s']),
        'PhasedXPowGate': lambda v, c: cirq.PhasedXPowGate(phase_exponent=v('b'), exponent=v('a'), global_shift=c['s']),
        'PhasedXZGate': lambda v, c: cirq.PhasedXZGate(x_exponent=v('a'), z_exponent=v('b'), axis_phase_exponent=v('c')),
        'PhasedISwapPowGate': lambda v, c: cirq.PhasedISwapPowGate(phase_exponent=v('b'), exponent=v('a'), global_shift=c['s']),
        'FSimGate': lambda v, c: cirq.FSimGate(theta=v('a'), phi=v('b')),
        'PhasedFSimGate': lambda v, c: cirq.PhasedFSimGate(theta=v('a'), zeta=v('b'), chi=v('c'), gamma=c['x'], phi=v('a')),
        'Rx': lambda v, c: cirq.Rx(rads=v('a')), 'Ry': lambda v, c: cirq.Ry(rads=v('a')), 'Rz': lambda v, c: cirq.Rz(rads=v('a')),
        'MSGate': lambda v, c: cirq.ms(v('a')),
        'GlobalPhaseGate': lambda v, c: cirq.GlobalPhaseGate(sympy.exp(sympy.I * v('a')) if not isinstance(v('a'), float) else complex(np.exp(1j * v('a')))),
        'DiagonalGate': lambda v, c: cirq.DiagonalGate([v('a'), v('b'), c['x'], v('c')]),
        'TwoQubitDiagonalGate': lambda v, c: cirq.TwoQubitDiagonalGate([v('a'), c['x'], v('b'), v('c')]),
        'ThreeQubitDiagonalGate': lambda v, c: cirq.ThreeQubitDiagonalGate([v('a'), c['x'], v('b'), v('c'), 0, v('a'), 1, c['x']]),
        'PhaseGradientGate': lambda v, c: cirq.PhaseGradientGate(num_qubits=2, exponent=v('a')),
        'ControlledGate': lambda v, c: cirq.ControlledGate(cirq.ZPowGate(exponent=v('a'), global_shift=c['s'])),
        'ParallelGate': lambda v, c: cirq.ParallelGate(cirq.XPowGate(exponent=v('a'), global_shift=c['s']), 2),
        'PauliStringPhasorGate': lambda v, c: cirq.PauliStringPhasorGate(cirq.DensePauliString('XZ'), exponent_neg=v('a'), exponent_pos=v('b')),
        'GivensRotation': lambda v, c: cirq.givens(v('a')),
        # operations: wrappers must keep everything but the resolved parameters
        'ControlledOperation[0]': lambda v, c: (cirq.X ** v('a')).on(cirq.LineQubit(1)).controlled_by(cirq.LineQubit(0), control_values=[0]),
        'ControlledOperation[0,1]': lambda v, c: (cirq.Z ** v('a')).on(cirq.LineQubit(2)).controlled_by(cirq.LineQubit(0), cirq.LineQubit(1), control_values=[0, 1]),
        'ControlledOperation[sop]': lambda v, c: cirq.ControlledOperation([cirq.LineQubit(0), cirq.LineQubit(1)], (cirq.X ** v('a')).on(cirq.LineQubit(2)), cirq.SumOfProducts([[0, 1], [1, 0]])),
        'ControlledGate[0]': lambda v, c: cirq.ControlledGate(cirq.YPowGate(exponent=v('a'), global_shift=c['s']), control_values=[0]),
        'TaggedOperation': lambda v, c: (cirq.X ** v('a')).on(cirq.LineQubit(0)).with_tags('t'),
        'CircuitOperation': lambda v, c: cirq.CircuitOperation(cirq.FrozenCircuit((cirq.X ** v('a')).on(cirq.LineQubit(0)), cirq.CZ(cirq.LineQubit(0), cirq.LineQubit(1)) ** v('b')), repetitions=2),
        'ParallelOperation': lambda v, c: cirq.ParallelGate(cirq.ZPowGate(exponent=v('a')), 2).on(cirq.LineQubit(0), cirq.LineQubit(1)),
        'Moment': lambda v, c: cirq.Circuit(cirq.Moment((cirq.X ** v('a')).on(cirq.LineQubit(0)), (cirq.Y ** v('b')).on(cirq.LineQubit(1)))),
        'CPhase': lambda v, c: cirq.cphase(v('a')),
    }
    for name, mk in fams.items():
        for _ in range(rounds):
            vals = {'a': rng.choice([0.5, -0.25, 1.0, 0.37, 2.2]), 'b': rng.choice([0.25, -1.0, 0.11]), 'c': rng.choice([0.75, -0.6])}
            consts = {'s': rng.choice([0, 0.5, -0.5, 0.25]), 'x': rng.choice([0.3, -1.2])}
            try:
                sym = mk(lambda k: S(k), consts)
                num = mk(lambda k: float(vals[k]), consts)
            except (TypeError, ValueError) as e:
                ctx.count('family_skip', f'{name}:{type(e).__name__}')
                break
            ctx.count('check', 'family:' + name)
            ctx.case(['family', name, vals, consts], True)
            for rname, resolver in (('dict', vals), ('chain', {'a': S('z'), 'z': vals['a'], 'b': vals['b'], 'c': vals['c']})):
                res = cirq.resolve_parameters(sym, resolver)
                rep = {'lines': [{'family': name, 'symbolic': repr(sym), 'values': vals, 'resolver': rname}], 'theorem_or_correspondence': 'resolve_commutes_matrix'}
                if cirq.is_parameterized(res):
                    ctx.report_witness(f'family:resolve:{name}', 'a fully resolved gate is still parameterised', dict(rep, impl_out=[repr(res)], spec_out=[repr(num)]))
                    break
                try:
                    u1, u2 = cirq.unitary(res), cirq.unitary(num)
                except TypeError as e:
                    ctx.report_witness(f'family:resolve:{name}', f'a fully resolved gate has no matrix: {str(e)[:80]}', dict(rep, impl_out=[repr(res)], spec_out=[repr(num)]))
                    break
                if u1.shape != u2.shape or not np.allclose(u1, u2, atol=1e-8):
                    ctx.report_witness(f'family:resolve:{name}', 'resolving the parameters of a gate gives a different matrix than building the gate from the resolved numbers',
                                       dict(rep, impl_out=[repr(res)], spec_out=[repr(num)]))
                    break


def check_derived_circuits(ctx, cirq, sympy):
    """a circuit built from another circuit whose summaries (is_parameterized, parameter_names, ...) have already been asked for —
    copy, +, op-tree + circuit, *, slices, freeze / unfreeze — reports its own parameters and resolves like a freshly built one"""
    rng = ctx.substream('derived-circuits')
    q0, q1 = cirq.LineQubit.range(2)
    a, b = sympy.Symbol('a'), sympy.Symbol('b')
    bases = [('plain', lambda: cirq.Circuit(cirq.H(q0), cirq.CNOT(q0, q1))), ('symbolic', lambda: cirq.Circuit(cirq.X(q0) ** a, cirq.CNOT(q0, q1))),
             ('empty', lambda: cirq.Circuit())]
    extras = [('symbolic-op', cirq.Z(q1) ** b), ('plain-op', cirq.Y(q1))]
    for (bname, mk), (ename, extra) in itertools.product(bases, extras):
        for warm in (True, False):
            base = mk()
            if warm:
                cirq.is_parameterized(base), cirq.parameter_names(base), base.all_qubits(), cirq.is_measurement(base)
                try:
                    cirq.Simulator().simulate(base, param_resolver={'a': 0.25, 'b': 0.5})
                except Exception:  # noqa: BLE001
                    pass
            derived = {
                'optree + circuit': lambda: [extra] + base, 'circuit + optree': lambda: base + [extra], 'copy then append': lambda: _appended(base.copy(), extra),
                'circuit + circuit': lambda: base + cirq.Circuit(extra), 'frozen: optree + circuit': lambda: ([extra] + base.freeze()).unfreeze(),
                'unfreeze(copy) then append': lambda: _appended(base.freeze().unfreeze(), extra), 'slice then append': lambda: _appended(base[:], extra),
                '* 2 then insert': lambda: _inserted(base * 2, extra), 'moment-wise radd': lambda: cirq.Moment(extra) + base if hasattr(cirq.Moment, '__radd__') else [extra] + base,
            }
            for dname, f in derived.items():
                try:
                    c = f()
                except TypeError:
                    continue
                fresh = cirq.Circuit(list(c.moments))
                res = {'a': 0.25, 'b': 0.5}
                ctx.count('check', 'derived-circuit')
                ctx.case(['derived', bname, ename, warm, dname], True)
                got = (cirq.is_parameterized(c), sorted(cirq.parameter_names(c)), cirq.resolve_parameters(c, res) == cirq.resolve_parameters(fresh, res),
                       cirq.is_parameterized(cirq.resolve_parameters(c, res)))
                want = (cirq.is_parameterized(fresh), sorted(cirq.parameter_names(fresh)), True, False)
                if got != want:
                    ctx.report_witness('circuit:derived:stale-parameters', f'a circuit obtained as `{dname}` from a circuit whose summaries were already computed reports stale parameters / does not resolve',
                                       {'lines': [{'base': bname, 'extra': ename, 'summaries_asked_before': warm, 'construction': dname, 'circuit': repr(c)}], 'impl_out': [list(map(repr, got))],
                                        'spec_out': [list(map(repr, want))], 'theorem_or_correspondence': 'C10_subst_commutes (resolution of every derived circuit)'})


def _appended(c, op):
    c.append(op)
    return c


def _inserted(c, op):
    c.insert(0, op)
    return c


def check_sweep_measurements(ctx, cirq, sympy):
    """simulate_sweep / run_sweep of a circuit with deterministic measurements: every result carries the measurement values of ITS
    assignment (X**a with a in {0, 1}; m0 = a, m1 = a xor b), in the order of the sweep, for every simulator"""
    rng = ctx.substream('sweep-measurements')
    q = cirq.LineQubit(0)
    a, b = sympy.Symbol('a'), sympy.Symbol('b')
    circuit = cirq.Circuit(cirq.X(q) ** a, cirq.measure(q, key='m0'), cirq.X(q) ** b, cirq.measure(q, key='m1'))
    sweeps = [cirq.Product(cirq.Points('a', [0, 1, 1]), cirq.Points('b', [1, 0])), cirq.Zip(cirq.Points('a', [1, 0, 1, 0]), cirq.Points('b', [1, 1, 0, 0])),
              cirq.ListSweep([cirq.ParamResolver({'a': 1, 'b': 0}), cirq.ParamResolver({'a': 0, 'b': 0}), cirq.ParamResolver({'a': 0, 'b': 1})])]
    sims = {'Simulator': cirq.Simulator, 'DensityMatrixSimulator': cirq.DensityMatrixSimulator, 'CliffordSimulator': cirq.CliffordSimulator}
    for sweep in sweeps:
        want = [(int(r.value_of('a')) % 2, (int(r.value_of('a')) + int(r.value_of('b'))) % 2) for r in sweep]
        for name, mk in sims.items():
            ctx.count('check', 'sweep-measurements')
            ctx.case(['sweep-measurements', name, repr(sweep)], True)
            try:
                res = mk().simulate_sweep(circuit, sweep)
                got = [(int(r.measurements['m0'][0]), int(r.measurements['m1'][0])) for r in res]
                params_ok = [dict(r.params.param_dict) for r in res] == [dict(r.param_dict) for r in sweep]
                run = mk().run_sweep(circuit, sweep, repetitions=2)
                got_run = [(int(r.records['m0'][0, 0, 0]), int(r.records['m1'][1, 0, 0])) for r in run]
            except Exception as e:  # noqa: BLE001
                got, params_ok, got_run = f'{type(e).__name__}: {e}'[:120], False, None
            if got != want or not params_ok or got_run != want:
                ctx.report_witness(f'sweep:measurements:{name}', f'{name}.simulate_sweep / run_sweep: a result does not carry the measurement values of its own assignment',
                                   {'lines': [{'sweep': repr(sweep), 'circuit': repr(circuit)}], 'impl_out': [got, got_run], 'spec_out': [want], 'theorem_or_correspondence': 'simulate_sweep_eq'})


def check_single_pass_wrappers(ctx, cirq, sympy):
    """single-pass resolution (recursive=False, resolve_parameters_once) goes through every wrapper the way it goes through the bare
    operation: with the chain {a: b, b: v} the result mentions `b`, never `v` or `a`, and is the wrapper of the bare result; recursive
    resolution of the same object reaches `v`.  Sub-circuit parameter resolvers are applied in one pass too."""
    rng = ctx.substream('single-pass')
    a, b, c = sympy.symbols('a b c')
    q = cirq.LineQubit.range(3)
    for it in range(12 if ctx.tier == 'quick' else 120):
        v = round(rng.uniform(-1, 1), 3)
        base = rng.choice([cirq.X, cirq.Z, cirq.Y])(q[0]) ** a
        chain = rng.choice([{a: b, b: v}, {a: b + 1, b: v}, {a: b, b: c, c: v}])
        wrappers = {
            'bare': lambda o: o,
            'tagged': lambda o: o.with_tags('t'),
            'tagged-twice': lambda o: o.with_tags('t').with_tags('u'),
            'controlled': lambda o: o.controlled_by(q[1]),
            'tagged-controlled': lambda o: o.with_tags('t').controlled_by(q[1]),
            'classically-controlled': lambda o: o.with_classical_controls('m'),
            'circuit-op': lambda o: cirq.CircuitOperation(cirq.FrozenCircuit(o)),
            'circuit-op(tagged inside)': lambda o: cirq.CircuitOperation(cirq.FrozenCircuit(o.with_tags('t'))),
            'moment': lambda o: cirq.Moment(o.with_tags('t'), cirq.H(q[2])),
            'circuit': lambda o: cirq.Circuit(o.with_tags('t'), cirq.H(q[2])),
            'frozen-circuit': lambda o: cirq.FrozenCircuit(o.with_tags('t')),
        }
        bare_once = cirq.resolve_parameters(base, chain, recursive=False)
        for wname, w in wrappers.items():
            obj = w(base)
            ctx.count('check', 'single-pass:' + wname)
            ctx.case(['single-pass', wname, repr(base), repr(chain)], True)
            rep = {'lines': [{'wrapper': wname, 'object': repr(obj)[:300], 'resolver': {str(k): str(x) for k, x in chain.items()}}], 'theorem_or_correspondence': 'C10 single-pass substitution'}
            for form, f in (('recursive=False', lambda: cirq.resolve_parameters(obj, chain, recursive=False)), ('resolve_parameters_once', lambda: cirq.resolve_parameters_once(obj, chain))):
                try:
                    got = f()
                except RecursionError:
                    ctx.report_witness(f'resolve:single-pass:{wname.split("(")[0]}', f'{form} on a wrapped operation recurses', dict(rep, impl_out=['RecursionError'], spec_out=[repr(w(bare_once))[:300]]))
                    break
                want = w(bare_once)

                def unitary_at(x, env):
                    y = cirq.resolve_parameters(x, env)
                    y = y.without_classical_controls() if isinstance(y, cirq.Operation) else y
                    return cirq.unitary(cirq.Circuit(y)) if isinstance(y, cirq.Moment) else cirq.unitary(y)

                env = {nm: round(rng.uniform(-1, 1), 3) for nm in sorted(cirq.parameter_names(want))}
                # (a sub-circuit operation may keep the substitution as its own resolver instead of rewriting its body: compare meanings)
                if cirq.parameter_names(got) != cirq.parameter_names(want) or (got != want and not np.allclose(unitary_at(got, env), unitary_at(want, env), atol=1e-8)):
                    ctx.report_witness(f'resolve:single-pass:{wname.split("(")[0]}', f'{form} through a wrapper is not the wrapper of the single-pass result of the operation',
                                       dict(rep, impl_out=[repr(got)[:400]], spec_out=[repr(want)[:400]]))
                    break
            full = cirq.resolve_parameters(obj, chain)
            if cirq.is_parameterized(full):
                ctx.report_witness(f'resolve:recursive:{wname.split("(")[0]}', 'recursive resolution through a wrapper leaves symbols of a closed chain', dict(rep, impl_out=[repr(full)[:400]], spec_out=['no symbols']))
        # a sub-circuit that binds its own parameters: the binding is one substitution step, outer parameters stay visible
        sub = cirq.CircuitOperation(cirq.FrozenCircuit((cirq.X(q[0]) ** a).with_tags('t'), cirq.Z(q[0]) ** b), param_resolver={a: b, b: v})
        ctx.count('check', 'single-pass:sub-circuit-binding')
        if cirq.parameter_names(sub) != {'b'}:
            ctx.report_witness('resolve:single-pass:circuit-op-binding', 'a sub-circuit binding {a: b, b: v} (one substitution step) must leave the outer parameter b on the operations that were written with a',
                               {'lines': [{'object': repr(sub)[:400]}], 'impl_out': [sorted(cirq.parameter_names(sub))], 'spec_out': [['b']], 'theorem_or_correspondence': 'C10 single-pass substitution'})
        else:
            w_outer = round(rng.uniform(-1, 1), 3)
            got_u = cirq.unitary(cirq.resolve_parameters(sub, {b: w_outer}))
            want_u = cirq.unitary(cirq.Z ** v) @ cirq.unitary(cirq.X ** w_outer)
            if not np.allclose(got_u, want_u, atol=1e-8):
                ctx.report_witness('resolve:single-pass:circuit-op-binding', 'the unitary of a sub-circuit with a chained binding is not the one-step substitution', {'lines': [{'object': repr(sub)[:400], 'outer': w_outer}],
                                   'impl_out': [repr(np.round(got_u, 6).tolist())], 'spec_out': [repr(np.round(want_u, 6).tolist())], 'theorem_or_correspondence': 'C10 single-pass substitution'})


def check_symbolic_repetitions(ctx, cirq, sympy):
    """a sub-circuit with a symbolic repetition count, resolved at every point of a sweep: the count is the integer the value denotes (grids
    built with Linspace carry floating-point error of a few ulp), for positive and negative counts; a value that is not an integer is refused"""
    rng = ctx.substream('repetitions')
    n = sympy.Symbol('n')
    q = cirq.LineQubit(0)
    body = cirq.FrozenCircuit(cirq.X(q) ** 0.25)
    op = cirq.CircuitOperation(body, repetitions=n)
    grids = [(1, 6, 6), (1, 7, 7), (1, 10, 10), (2, 9, 8), (-6, -1, 6), (0, 12, 13)]
    values = []
    for lo, hi, k in grids:
        values += [(float(x), None) for x in (r.value_of('n') for r in cirq.Linspace('n', lo, hi, k))]
    for _ in range(20):
        m = rng.randint(-9, 12)
        values.append((m * (1 + rng.choice([-1, 1]) * 2.0 ** -52) if m else 0.0, m))
        values.append((100 * (m / 100.0), m))
    for val, intended in values:
        want_n = intended if intended is not None else int(round(val))
        ctx.count('check', 'symbolic-repetitions')
        ctx.case(['repetitions', val], True)
        try:
            res = cirq.resolve_parameters(op, {n: val})
            got_n = res.repetitions
            u = cirq.unitary(res)
        except (ValueError, TypeError) as e:
            ctx.report_witness('resolve:repetitions:raises', 'a repetition count that is an integer up to rounding error is refused', {'lines': [{'value': repr(val)}], 'impl_out': [f'{type(e).__name__}: {e}'[:200]], 'spec_out': [want_n],
                               'theorem_or_correspondence': 'C10 resolution commutes with repetition'})
            continue
        want_u = cirq.unitary(cirq.X ** (0.25 * want_n))
        if got_n != want_n or not np.allclose(u, want_u, atol=1e-8):
            ctx.report_witness('resolve:repetitions', 'a symbolic repetition count resolves to a different number of repetitions than the value denotes', {'lines': [{'value': repr(val)}], 'impl_out': [repr(got_n)], 'spec_out': [want_n],
                               'theorem_or_correspondence': 'C10 resolution commutes with repetition'})
    # sweep entry point
    sim = cirq.Simulator(dtype=np.complex128)
    for lo, hi, k in grids[:4]:
        results = sim.simulate_sweep(cirq.Circuit(op), cirq.Linspace('n', lo, hi, k))
        for j, r in enumerate(results):
            want_v = cirq.unitary(cirq.X ** (0.25 * (lo + j)))[:, 0]
            ctx.count('check', 'symbolic-repetitions:sweep')
            if not np.allclose(r.final_state_vector, want_v, atol=1e-7):
                ctx.report_witness('resolve:repetitions:sweep', 'simulate_sweep over a Linspace of repetition counts runs a different number of repetitions at one point', {'lines': [{'linspace': [lo, hi, k], 'point': j}],
                                   'impl_out': [repr(np.round(r.final_state_vector, 6).tolist())], 'spec_out': [repr(np.round(want_v, 6).tolist())], 'theorem_or_correspondence': 'C10 resolution commutes with repetition'})
                break


def replay(ctx, rep):
    print(json.dumps(rep, indent=1)[:3000])
    return 1
