"""C18 — All views of measurement results tell the same story.

Lean: CirqVerif.Props.C18 (digit/bit round trips, any radix, any width), CirqVerif.Props.C18Views
(record views, bit packing).  Tie: T2 — the real `cirq.value.digits`, `cirq.study.result` and
`cirq.work.Sampler` are run in-process on generated inputs, the same inputs go to the Lean driver.
"""
from __future__ import annotations

import collections
import json

import numpy as np

from harness import common

MODULES = ['CirqVerif.Props.C18', 'CirqVerif.Props.C18Views', 'CirqVerif.Props.C10', 'CirqVerif.Props.C12Terminal', 'CirqVerif.Props.C12Shapes']


def _exc(fn):
    try:
        return {'ok': fn()}
    except ValueError:
        return {'err': 'ValueError'}
    except ZeroDivisionError:
        return {'err': 'ZeroDivisionError'}
    except IndexError:
        return {'err': 'IndexError'}


def gen_digit_cases(rng, n):
    """requests for the digit/bit conversion functions; mostly valid, a separate malformed stream."""
    import cirq

    cases = []
    for i in range(n):
        kind = rng.choice(['bits_to_int', 'int_to_bits', 'digits_to_int', 'int_to_digits', 'uniform', 'uniform2', 'malformed'])
        width = rng.choice([0, 1, 2, 3, 5, 8, 9, 16, 31, 32, 33, 63, 64, 65, 70, 100, 130])
        if kind == 'bits_to_int':
            bits = [rng.randint(0, 1) for _ in range(width)]
            req = {'p': 'C18', 'op': 'bits_to_int', 'bits': bits}
            impl = lambda bits=bits: cirq.big_endian_bits_to_int(bits)
        elif kind == 'int_to_bits':
            val = rng.getrandbits(rng.choice([1, 8, 64, 65, 140]))
            req = {'p': 'C18', 'op': 'int_to_bits', 'val': val, 'n': width}
            impl = lambda val=val, width=width: cirq.big_endian_int_to_bits(val, bit_count=width)
        elif kind == 'digits_to_int':
            k = min(width, 40)
            bases = [rng.choice([1, 2, 2, 3, 4, 7, 10, 1000]) for _ in range(k)]
            digits = [rng.randrange(b) for b in bases]
            req = {'p': 'C18', 'op': 'digits_to_int', 'digits': digits, 'bases': bases}
            impl = lambda digits=digits, bases=bases: cirq.big_endian_digits_to_int(digits, base=bases)
        elif kind == 'int_to_digits':
            k = min(width, 40)
            bases = [rng.choice([1, 2, 2, 3, 4, 7, 10, 1000]) for _ in range(k)]
            prod = 1
            for b in bases:
                prod *= b
            val = rng.randrange(prod) if rng.random() < 0.8 else prod + rng.randrange(3)
            req = {'p': 'C18', 'op': 'int_to_digits', 'val': val, 'bases': bases}
            impl = lambda val=val, bases=bases: cirq.big_endian_int_to_digits(val, base=bases)
        elif kind in ('uniform', 'uniform2'):
            base = 2 if kind == 'uniform2' else rng.choice([2, 3, 5, 10, 1])
            top = base**width
            r = rng.random()
            val = rng.randrange(top) if r < 0.7 else (top - 1 if r < 0.8 else top + rng.randrange(3))
            val = max(val, 0)
            req = {'p': 'C18', 'op': 'int_to_digits_uniform', 'val': val, 'n': width, 'base': base}
            impl = lambda val=val, width=width, base=base: cirq.big_endian_int_to_digits(val, digit_count=width, base=base)
        else:
            k = rng.randint(1, 6)
            bases = [rng.choice([0, 1, 2, 3, -2]) for _ in range(k)]
            digits = [rng.randint(-1, 3) for _ in range(k + rng.choice([0, 0, 1, -1]))]
            req = {'p': 'C18', 'op': 'digits_to_int', 'digits': digits, 'bases': bases}
            impl = lambda digits=digits, bases=bases: cirq.big_endian_digits_to_int(digits, base=bases)
            kind = 'malformed_digits_to_int'
        cases.append((kind, req, impl))
    return cases


def gen_records(rng, allow_repeat=True, max_q=70, binary=None):
    """a records dict: key -> reps x instances x qubits digits"""
    reps = rng.choice([0, 1, 2, 3, 5, 9, 17])
    nkeys = rng.randint(1, 4)
    recs = {}
    shapes = {}
    for k in range(nkeys):
        inst = rng.choice([1, 1, 1, 2, 3]) if allow_repeat else 1
        nq = rng.choice([0, 1, 2, 3, 4, 7, 8, 9, 15, 16, 17, 31, 62, 63, 64, 65, max_q])
        nq = min(nq, max_q)
        is_bin = rng.random() < 0.75 if binary is None else binary
        top = 1 if is_bin else rng.choice([2, 3])
        arr = [[[rng.randint(0, top) for _ in range(nq)] for _ in range(inst)] for _ in range(reps)]
        # asymmetric data: make qubit 0 and last differ systematically sometimes
        key = rng.choice(['a', 'b', 'm', 'z_1', 'q(0)', 'k0']) + str(k)
        recs[key] = arr
        shapes[key] = (reps, inst, nq, top)
    return recs, shapes


def np_records(recs, shapes, dtype=np.uint8):
    return {k: np.array(v, dtype=dtype).reshape(shapes[k][:3]) for k, v in recs.items()}


def run(ctx: common.Run):
    import cirq
    from cirq.study import result as result_mod

    ctx.rule = (
        'digit/bit conversions: random widths 0..130 bits, mixed radices, values at/over the range boundary, a malformed '
        'stream; result views: random record tables (0..17 repetitions, 1..3 instances, 0..70 qubits, qudit digits); '
        'non-trivial = width >= 2 and not all-zero data; distinct by canonical request hash'
    )
    ctx.trusted += [
        'harness/props/c18.py + lean/Driver/C18.lean: differential correspondence (T2) on generated inputs only',
        'numpy/pandas container semantics (reshape, packbits, DataFrame) as documented',
    ]
    ctx.assumptions += ['digits/values are non-negative Python ints (documented domain); negative inputs only on the malformed stream']
    ok, failing = ctx.lean(MODULES)
    if not ok:
        ctx.report_unproved('lean-build', f'Lean modules no longer build: {failing}', {'theorem_or_correspondence': failing})
        return
    nd = 1500 if ctx.tier == 'quick' else 20000
    nr = 150 if ctx.tier == 'quick' else 1500
    # ---------------------------------------------------------------- digits
    cases = gen_digit_cases(ctx.substream('digits'), nd)
    outs = ctx.driver.ask([c[1] for c in cases])
    for (kind, req, impl), mo in zip(cases, outs):
        io = _exc(impl)
        if 'ok' in io and isinstance(io['ok'], (list, tuple)):
            io['ok'] = [int(x) for x in io['ok']]
        ctx.count('digit_op', kind)
        ctx.count('digit_outcome', 'ok' if 'ok' in io else io['err'])
        nontriv = any(isinstance(v, list) and len(v) >= 2 and any(v) for v in req.values()) or req.get('n', 0) >= 2
        ctx.case(req, nontriv, sample=req if len(ctx.samples) < 2 else None)
        if io != mo:
            ctx.report_witness(
                f'digits:{req["op"]}',
                f'{req["op"]} differs from its mixed-radix specification',
                {'lines': [req], 'impl_out': [io], 'model_out': [mo], 'theorem_or_correspondence': 'T2 digits vs CirqVerif.Digits'},
            )
    # ---------------------------------------------------------------- result views
    rng = ctx.substream('views')
    for i in range(nr):
        recs, shapes = gen_records(rng)
        check_views(ctx, cirq, result_mod, recs, shapes, rng)
    # corpus-like fixed cases: 64/65-qubit all-ones rows (int64 overflow boundary)
    for nq in (62, 63, 64, 65, 70):
        recs = {'w': [[[1] * nq], [[1] + [0] * (nq - 1)] if nq else [[]]]}
        shapes = {'w': (2, 1, nq, 1)}
        check_views(ctx, cirq, result_mod, recs, shapes, rng)
    check_sampler(ctx, cirq)
    check_sampler_shapes(ctx, cirq)
    check_sampler_shapes_composite(ctx, cirq)
    check_shapes_against_unrolling(ctx, cirq)
    check_simulated_records(ctx, cirq)
    check_processor_sampler(ctx, cirq)
    check_classical_store_ints(ctx, cirq)
    check_state_histogram(ctx, cirq)
    check_async_batch_order(ctx, cirq)


def check_views(ctx, cirq, result_mod, recs, shapes, rng):
    nprecs = np_records(recs, shapes)
    res = cirq.ResultDict(params=cirq.ParamResolver({}), records=nprecs)
    reqs, impls, sigs = [], [], []

    def add(sig, req, impl):
        reqs.append(req)
        impls.append(impl)
        sigs.append(sig)

    single = [k for k in recs if shapes[k][1] == 1]
    nontrivial = any(shapes[k][0] >= 1 and shapes[k][2] >= 2 and np.any(nprecs[k]) for k in recs)
    for k in recs:
        reps, inst, nq, top = shapes[k]
        r1 = cirq.ResultDict(params=cirq.ParamResolver({}), records={k: nprecs[k]})
        add('measurements', {'p': 'C18', 'op': 'measurements', 'records': recs[k], 'instances': inst},
            lambda r1=r1, k=k: r1.measurements[k].tolist())
        if inst == 1:
            rows = [r[0] for r in recs[k]]
            if top == 1:  # Result.data is documented for bits; qudit digits are not base-2 integers
                add('dataframe', {'p': 'C18', 'op': 'dataframe', 'rows': rows},
                    lambda k=k: [int(x) for x in res_single(cirq, nprecs, k).data[k].tolist()])
            m2 = cirq.ResultDict(params=cirq.ParamResolver({}), measurements={k: nprecs[k].reshape(reps, nq)})
            add('records_of_measurements', {'p': 'C18', 'op': 'records_of_measurements', 'rows': rows},
                lambda m2=m2, k=k: m2.records[k].tolist())
            if top == 1:
                add('histogram', {'p': 'C18', 'op': 'histogram', 'rows': rows, 'bases': None},
                    lambda r1=r1, k=k: sorted([int(a), int(b)] for a, b in r1.histogram(key=k).items()))
            base = top + 1 + rng.choice([0, 0, 1])
            if rng.random() < 0.5:
                bases = [base] * nq
                fb = base
            else:
                bases = [base + rng.choice([0, 1, 3]) for _ in range(nq)]
                fb = list(bases)
            add('histogram_base', {'p': 'C18', 'op': 'histogram', 'rows': rows, 'bases': bases},
                lambda r1=r1, k=k, fb=fb: sorted([int(a), int(b)] for a, b in r1.histogram(key=k, fold_base=fb).items()))
            for v in ([rows[0]] if rows else []):
                add('bitstring', {'p': 'C18', 'op': 'bitstring', 'vals': [r[0] if r else 0 for r in rows] if nq else []},
                    lambda rows=rows, nq=nq: result_mod._bitstring([r[0] for r in rows] if nq else []))
        # packing
        flat = [d for rep in recs[k] for ins in rep for d in ins]
        if top == 1:
            add('pack_bits', {'p': 'C18', 'op': 'pack_bits', 'bits': flat},
                lambda k=k: result_mod._pack_digits(nprecs[k])[0])
            packed = result_mod._pack_bits(nprecs[k].astype(bool))
            by = list(bytes.fromhex(packed))
            add('unpack_bits', {'p': 'C18', 'op': 'unpack_bits', 'bytes': by, 'count': len(flat)},
                lambda packed=packed, k=k: [int(x) for x in result_mod._unpack_bits(packed, 'uint8', nprecs[k].shape).reshape(-1)])
    if len(single) >= 1 and all(shapes[k][3] == 1 for k in single):
        keys = [k for k in single if rng.random() < 0.7] or single[:1]
        if rng.random() < 0.1:
            keys = []
        reps = shapes[next(iter(recs))][0]
        cols = [[r[0] for r in recs[k]] for k in keys]
        rs = cirq.ResultDict(params=cirq.ParamResolver({}), records={k: nprecs[k] for k in single})
        add('multi_histogram', {'p': 'C18', 'op': 'multi_histogram', 'cols': cols, 'reps': reps},
            lambda rs=rs, keys=keys: sorted([[int(x) for x in a], int(b)] for a, b in rs.multi_measurement_histogram(keys=keys).items()))
    # addition: same keys, possibly different repetitions / deliberately mismatched shape
    k0 = next(iter(recs))
    reps, inst, nq, top = shapes[k0]
    other_reps = rng.choice([0, 1, 2])
    mismatch = rng.random() < 0.2
    onq = nq + 1 if mismatch else nq
    other = [[[rng.randint(0, top) for _ in range(onq)] for _ in range(inst)] for _ in range(other_reps)]
    ra = cirq.ResultDict(params=cirq.ParamResolver({}), records={k0: nprecs[k0]})
    rb = cirq.ResultDict(params=cirq.ParamResolver({}), records={k0: np.array(other, dtype=np.uint8).reshape(other_reps, inst, onq)})
    add('add', {'p': 'C18', 'op': 'add', 'a': recs[k0], 'b': other, 'shape_a': [inst, nq], 'shape_b': [inst, onq]},
        lambda ra=ra, rb=rb, k0=k0: (ra + rb).records[k0].tolist())
    outs = ctx.driver.ask(reqs)
    for sig, req, impl, mo in zip(sigs, reqs, impls, outs):
        io = _exc(impl)
        if 'ok' in mo and sig in ('histogram', 'histogram_base', 'multi_histogram'):
            mo = {'ok': sorted(mo['ok'])}
        ctx.count('view', sig)
        ctx.case(req, nontrivial, sample={'view': sig, 'request': req} if len(ctx.samples) < 5 and nontrivial else None)
        if io != mo:
            ctx.report_witness(
                f'view:{sig}',
                f'Result view {sig} differs from the specification of the record table',
                {'lines': [req], 'impl_out': [io], 'model_out': [mo], 'theorem_or_correspondence': f'T2 result view {sig} vs CirqVerif.C18'},
            )
    # JSON / packed storage round trip (property-level: reading back gives equal records)
    txt = cirq.to_json(res)
    back = cirq.read_json(json_text=txt)
    ctx.count('view', 'json_roundtrip')
    same = back.records.keys() == res.records.keys() and all(
        back.records[k].shape == res.records[k].shape and np.array_equal(back.records[k], res.records[k]) for k in res.records
    )
    if not same:
        ctx.report_witness('view:json_roundtrip', 'ResultDict JSON (bit-packed) round trip changed the records',
                           {'lines': [{'records': recs}], 'impl_out': [{k: v.tolist() for k, v in back.records.items()}], 'model_out': [recs],
                            'theorem_or_correspondence': 'C18_unpack_pack'})


def res_single(cirq, nprecs, k):
    return cirq.ResultDict(params=cirq.ParamResolver({}), records={k: nprecs[k]})


def check_sampler(ctx, cirq):
    """a sampler's convenience entry points return the results of the same underlying runs in the documented order and shapes.
    The order of parameter assignments is taken from the Lean sweep model (C10_len_eq_tuples / product order)."""
    import duet
    import pandas as pd
    import sympy

    from harness.props.c10 import SweepGen, unrat

    rng = ctx.substream('sampler')
    qs = cirq.LineQubit.range(3)

    class CountingSampler(cirq.Sampler):
        """records every primitive call; results are a deterministic function of (circuit tag, assignment, repetition)"""

        def __init__(self):
            self.calls = []

        def run_sweep(self, program, params, repetitions=1):
            resolvers = list(cirq.to_resolvers(params))
            self.calls.append((program.tags[0] if program.tags else None, [sorted((str(k), float(v)) for k, v in r.param_dict.items()) for r in resolvers], repetitions))
            out = []
            for r in resolvers:
                seed = hash((program.tags[0] if program.tags else 0, tuple(sorted((str(k), float(v)) for k, v in r.param_dict.items())))) % (2**31)
                rs = np.random.RandomState(seed)
                recs = {'m': rs.randint(0, 2, size=(repetitions, 1, 2)).astype(np.uint8), 'z': rs.randint(0, 2, size=(repetitions, 1, 3)).astype(np.uint8)}
                out.append(cirq.ResultDict(params=r, records=recs))
            return out

    def expected(sampler_cls, program, resolver_dicts, reps):
        s = sampler_cls()
        return s.run_sweep(program, [cirq.ParamResolver(d) for d in resolver_dicts], reps)

    n = 25 if ctx.tier == 'quick' else 200
    reqs, meta = [], []
    for i in range(n):
        g = SweepGen(cirq, rng)
        # sweeps over 1..3 keys whose textual order is not alphabetical on purpose
        names = rng.sample(['t', 's', 'a', 'zz', 'b'], rng.randint(1, 3))
        parts, leans = [], []
        for nm in names:
            vals = [float(rng.randrange(4)) for _ in range(rng.randint(1, 3))]
            parts.append(cirq.Points(nm, vals))
            leans.append({'k': 'points', 'key': nm, 'vals': [[int(v), 1] for v in vals]})
        kind = rng.choice(['product', 'zip'])
        sweep = (cirq.Product if kind == 'product' else cirq.Zip)(*parts)
        lean = leans[0]
        for l in leans[1:]:
            lean = {'k': kind, 'a': lean, 'b': l}
        reqs.append({'p': 'C10', 'op': 'sweep', 'sweep': lean, 'indices': [], 'slices': []})
        meta.append((sweep, names, rng.choice([1, 2, 3])))
    outs = ctx.driver.ask(reqs)
    for (sweep, names, reps), out in zip(meta, outs):
        circuit = cirq.Circuit(cirq.X(qs[0]) ** sympy.Symbol(names[0]), cirq.measure(qs[0], qs[1], key='m'), cirq.measure(*qs, key='z'), tags=['c1'])
        assignments = [{k: unrat(v) for k, v in tup} for tup in out['tuples']]
        ref = expected(CountingSampler, circuit, assignments, reps)
        ctx.count('view', 'sampler')
        ctx.case(['sampler', repr(sweep), reps], len(assignments) >= 2 and len(names) >= 2)

        def same_results(a, b):
            return len(a) == len(b) and all(x == y for x, y in zip(a, b))

        problems = []
        s1 = CountingSampler()
        if not same_results(s1.run_sweep(circuit, sweep, reps), ref):
            problems.append('run_sweep')
        s2 = CountingSampler()
        r0 = s2.run(circuit, cirq.ParamResolver(assignments[0]) if assignments else None, reps) if assignments else None
        if assignments and r0 != ref[0]:
            problems.append('run')
        s3 = CountingSampler()
        if not same_results(duet.run(s3.run_sweep_async, circuit, sweep, reps), ref):
            problems.append('run_sweep_async')
        if assignments:
            s4 = CountingSampler()
            if duet.run(s4.run_async, circuit, cirq.ParamResolver(assignments[0]), reps) != ref[0]:
                problems.append('run_async')
        # sample(): one block of `reps` rows per assignment, in sweep order; parameter columns hold that assignment's values
        s5 = CountingSampler()
        df = s5.sample(circuit, repetitions=reps, params=sweep)
        keys = sorted(names)
        rows = []
        for asg, res in zip(assignments, ref):
            for rep in range(reps):
                row = {k: asg[k] for k in keys}
                row['m'] = int(cirq.big_endian_bits_to_int(res.records['m'][rep, 0]))
                row['z'] = int(cirq.big_endian_bits_to_int(res.records['z'][rep, 0]))
                rows.append((rep, row))
        got_rows = [(int(idx), {c: (float(v) if c in keys else int(v)) for c, v in r.items()}) for idx, r in zip(df.index, df.to_dict('records'))] if len(df) else []
        if got_rows != [(i, {c: (float(v) if c in keys else int(v)) for c, v in r.items()}) for i, r in rows] or (len(df) and list(df.columns) != keys + ['m', 'z']):
            problems.append('sample')
        # run_batch: results per program in order, per sweep in order
        circuit2 = cirq.Circuit(cirq.measure(qs[0], qs[1], key='m'), cirq.measure(*qs, key='z'), tags=['c2'])
        s6 = CountingSampler()
        reps_list = [reps, reps + 1]
        batch = s6.run_batch([circuit, circuit2], params_list=[sweep, None], repetitions=reps_list)
        ref2 = expected(CountingSampler, circuit2, [{}], reps + 1)
        if len(batch) != 2 or not same_results(batch[0], ref) or not same_results(batch[1], ref2):
            problems.append('run_batch')
        s7 = CountingSampler()
        batch_a = duet.run(s7.run_batch_async, [circuit, circuit2], [sweep, None], reps_list)
        if len(batch_a) != 2 or not same_results(batch_a[0], ref) or not same_results(batch_a[1], ref2):
            problems.append('run_batch_async')
        for pname in problems:
            ctx.report_witness(f'sampler:{pname}', f'Sampler.{pname} does not return the results of the underlying run_sweep calls in the documented order / shape / columns',
                               {'lines': [{'sweep': repr(sweep), 'repetitions': reps}], 'impl_out': [pname], 'spec_out': ['run_sweep results in sweep order'],
                                'theorem_or_correspondence': 'sampler entry points (T2) + C10 sweep order'})




def check_state_histogram(ctx, cirq):
    """cirq.get_state_histogram(result): bin h counts the repetitions whose bits, concatenated over the keys in the order of the
    result, read as a big-endian integer (Lean bits model) give h — for every storage type of the records and up to 13 qubits"""
    rng = ctx.substream('state-histogram')
    cases = []
    for it in range(25 if ctx.tier == 'quick' else 250):
        nkeys = rng.randint(1, 3)
        widths = [rng.randint(1, 6) for _ in range(nkeys)]
        if it % 3 == 0:
            widths = rng.choice([[9], [6, 5], [8, 1, 2], [10], [4, 4, 4], [13]])
        reps = rng.randint(1, 12)
        dtype = rng.choice([np.uint8, np.int8, np.bool_, np.int64, np.uint8])
        bits = {f'k{j}': [[rng.randint(0, 1) if rng.random() < 0.7 else 1 for _ in range(w)] for _ in range(reps)] for j, w in enumerate(widths)}
        cases.append((widths, reps, dtype, bits))
    reqs = []
    for widths, reps, dtype, bits in cases:
        for r in range(reps):
            reqs.append({'p': 'C18', 'op': 'bits_to_int', 'bits': [b for k in bits for b in bits[k][r]]})
    outs = iter(ctx.driver.ask(reqs))
    for widths, reps, dtype, bits in cases:
        total = sum(widths)
        want = [0] * (2 ** total)
        for r in range(reps):
            want[next(outs)['ok']] += 1
        forms = {'measurements': cirq.ResultDict(params=cirq.ParamResolver({}), measurements={k: np.array(v, dtype=dtype) for k, v in bits.items()}),
                 'records': cirq.ResultDict(params=cirq.ParamResolver({}), records={k: np.array(v, dtype=dtype).reshape(reps, 1, -1) for k, v in bits.items()})}
        for fname, res in forms.items():
            ctx.count('view', 'state-histogram')
            ctx.case(['state-histogram', widths, reps, np.dtype(dtype).name, fname], total >= 2)
            got = [int(x) for x in cirq.get_state_histogram(res)]
            if got != want:
                ctx.report_witness('view:state_histogram', 'cirq.get_state_histogram does not count the repetitions by the big-endian integer of their bits',
                                   {'lines': [{'widths': widths, 'repetitions': reps, 'dtype': np.dtype(dtype).name, 'form': fname, 'bits': bits}], 'impl_out': [[(i, c) for i, c in enumerate(got) if c]],
                                    'spec_out': [[(i, c) for i, c in enumerate(want) if c]], 'theorem_or_correspondence': 'T2 bits vs CirqVerif.Digits'})
                break


def check_classical_store_ints(ctx, cirq):
    """the integer view of a record in the classical data store is the mixed-radix (big-endian) value of its digits, for every mixture
    of qubits and qudits under one key (the Lean digits model is the reference), for measurement and channel records; conditions that
    compare that integer fire accordingly"""
    import sympy

    rng = ctx.substream('store-ints')
    reqs, meta = [], []
    for it in range(60 if ctx.tier == 'quick' else 600):
        k = rng.randint(1, 5)
        dims = [rng.choice([2, 2, 3, 4, 5]) for _ in range(k)]
        if it % 3 == 0:
            dims[rng.randrange(k)] = 2   # at least one qubit among qudits
        digits = [rng.randrange(d) for d in dims]
        reqs.append({'p': 'C18', 'op': 'digits_to_int', 'digits': digits, 'bases': dims})
        meta.append((dims, digits))
    outs = ctx.driver.ask(reqs)
    for (dims, digits), out in zip(meta, outs):
        want = out.get('ok')
        qids = [cirq.LineQid(j, d) for j, d in enumerate(dims)]
        store = cirq.ClassicalDataDictionaryStore()
        key = cirq.MeasurementKey('m')
        store.record_measurement(key, digits, qids)
        ctx.count('view', 'store.get_int')
        ctx.case(['store-int', dims, digits], len(dims) >= 2 and any(digits))
        try:
            got = store.get_int(key)
        except ValueError as e:
            got = f'ValueError: {e}'[:120]
        got_digits = list(store.get_digits(key))
        if got != want or got_digits != digits:
            ctx.report_witness('store:get_int', 'ClassicalDataDictionaryStore.get_int is not the mixed-radix value of the recorded digits',
                               {'lines': [{'dims': dims, 'digits': digits}], 'impl_out': [got, got_digits], 'spec_out': [want, digits], 'theorem_or_correspondence': 'T2 digits vs CirqVerif.Digits'})
            continue
        # a condition comparing the integer: fires exactly when the value matches
        for target in {want, (want + 1) % max(2, int(np.prod(dims)))}:
            cond = cirq.SympyCondition(sympy.Eq(sympy.Symbol('m'), target))
            ctx.count('view', 'store.condition')
            if bool(cond.resolve(store)) != (target == want):
                ctx.report_witness('store:condition', 'a condition on the integer value of a record does not fire according to the mixed-radix value of its digits',
                                   {'lines': [{'dims': dims, 'digits': digits, 'target': target}], 'impl_out': [bool(cond.resolve(store))], 'spec_out': [target == want], 'theorem_or_correspondence': 'T2 digits vs CirqVerif.Digits'})


def check_async_batch_order(ctx, cirq):
    """run_batch / run_batch_async over a sampler whose sweeps really run concurrently and finish in any order: the i-th list of results
    belongs to the i-th circuit"""
    import duet

    rng = ctx.substream('async-batch')
    q = cirq.LineQubit(0)

    class SlowSampler(cirq.Sampler):
        def __init__(self, delays):
            self.delays = delays
            self.finished = []

        async def run_sweep_async(self, program, params, repetitions=1):
            tag = program.tags[0]
            await duet.sleep(self.delays[tag])
            self.finished.append(tag)
            out = []
            for j, r in enumerate(cirq.to_resolvers(params)):
                out.append(cirq.ResultDict(params=r, records={'m': np.full((repetitions, 1, 1), (tag + j) % 2, dtype=np.uint8), f'k{tag}': np.zeros((repetitions, 1, 1), dtype=np.uint8)}))
            return out

        def run_sweep(self, program, params, repetitions=1):
            return duet.run(self.run_sweep_async, program, params, repetitions)

    for it in range(4 if ctx.tier == 'quick' else 30):
        n = rng.randint(2, 5)
        order = list(range(n))
        rng.shuffle(order)
        delays = {tag: 0.01 * (order.index(tag) + 1) for tag in range(n)}
        circuits_ = [cirq.Circuit(cirq.measure(q, key='m'), tags=[tag]) for tag in range(n)]
        sweeps = [cirq.Points('t', [0.0, 1.0][: 1 + tag % 2]) for tag in range(n)]
        reps = [2 + tag for tag in range(n)]
        for name in ('run_batch', 'run_batch_async'):
            s_ = SlowSampler(delays)
            got = s_.run_batch(circuits_, params_list=sweeps, repetitions=reps) if name == 'run_batch' else duet.run(s_.run_batch_async, circuits_, sweeps, reps)
            ctx.count('view', 'async-' + name)
            ctx.case(['async-batch', name, order], s_.finished != sorted(s_.finished))
            owners = [[sorted(k for k in r.records if k != 'm') for r in rs] for rs in got]
            want = [[[f'k{tag}']] * len(list(cirq.to_resolvers(sweeps[tag]))) for tag in range(n)]
            shapes = [[r.records['m'].shape[0] for r in rs] for rs in got]
            if owners != want or shapes != [[reps[tag]] * len(want[tag]) for tag in range(n)]:
                ctx.report_witness(f'sampler:{name}:order', f'{name} over a sampler whose sweeps finish out of order: results are not listed per circuit in the order of the circuits',
                                   {'lines': [{'finish_order': s_.finished, 'circuits': n}], 'impl_out': [owners, shapes], 'spec_out': [want], 'theorem_or_correspondence': 'sampler entry points (T2)'})


def check_sampler_shapes(ctx, cirq):
    """the samplers of the library report, for any number of repetitions (0 included), every key with shape
    (repetitions, instances, qubits); sample() has one row per repetition"""
    rng = ctx.substream('sampler-shapes')
    qs = cirq.LineQubit.range(3)
    samplers = {'Simulator': cirq.Simulator, 'DensityMatrixSimulator': cirq.DensityMatrixSimulator, 'CliffordSimulator': cirq.CliffordSimulator,
                'ClassicalStateSimulator': cirq.ClassicalStateSimulator, 'ZerosSampler': cirq.ZerosSampler}
    for _ in range(6 if ctx.tier == 'quick' else 60):
        ops, shape = [], {}
        for j in range(rng.randint(1, 4)):
            key = rng.choice(['m', 'n', 'k'])
            width = shape[key][1] if key in shape else rng.randint(1, 3)
            ops.append(cirq.X(rng.choice(qs)))
            ops.append(cirq.measure(*rng.sample(qs, width), key=key))
            shape[key] = (shape.get(key, (0, width))[0] + 1, width)
        circuit = cirq.Circuit(ops)
        for name, mk in samplers.items():
            for reps in (0, 1, 3):
                ctx.count('view', 'sampler-shapes')
                ctx.case(['sampler-shapes', name, reps, repr(circuit)], True)
                try:
                    res = mk().run(circuit, repetitions=reps)
                except (ValueError, TypeError, NotImplementedError) as e:
                    ctx.count('sampler_shape_error', f'{name}:{type(e).__name__}')
                    continue
                got = {k: tuple(v.shape) for k, v in res.records.items()}
                want = {k: (reps, inst, w) for k, (inst, w) in shape.items()}
                if got != want or res.repetitions != reps:
                    ctx.report_witness(f'sampler:shapes:{name}', f'{name}.run(repetitions={reps}) does not report every key with shape (repetitions, instances, qubits)',
                                       {'lines': [{'circuit': repr(circuit), 'repetitions': reps}], 'impl_out': [got, res.repetitions], 'spec_out': [want, reps], 'theorem_or_correspondence': 'record shapes'})
                    break


def check_sampler_shapes_composite(ctx, cirq):
    """the same for keys recorded by sub-circuits (repeated with and without repetition ids, renamed keys, several keys in one body,
    nested) and by measurements of Pauli products (one bit per measurement): the shapes follow from the flat program"""
    rng = ctx.substream('sampler-shapes-composite')
    q = cirq.LineQubit.range(3)
    samplers = {'Simulator': cirq.Simulator, 'DensityMatrixSimulator': cirq.DensityMatrixSimulator, 'ZerosSampler': cirq.ZerosSampler}
    body1 = cirq.FrozenCircuit(cirq.X(q[0]), cirq.measure(q[0], key='m'))
    body2 = cirq.FrozenCircuit(cirq.measure(q[0], q[1], key='m'), cirq.measure(q[2], key='n'))
    cases = [
        (cirq.Circuit(cirq.CircuitOperation(body1, repetitions=3, use_repetition_ids=False)), {'m': (3, 1)}),
        (cirq.Circuit(cirq.CircuitOperation(body1, repetitions=2, use_repetition_ids=True)), {'0:m': (1, 1), '1:m': (1, 1)}),
        (cirq.Circuit(cirq.CircuitOperation(body2, repetitions=2, use_repetition_ids=False)), {'m': (2, 2), 'n': (2, 1)}),
        (cirq.Circuit(cirq.CircuitOperation(body2, measurement_key_map={'m': 'x'})), {'x': (1, 2), 'n': (1, 1)}),
        # (tags on a sub-circuit operation change nothing)
        (cirq.Circuit(cirq.CircuitOperation(body1, repetitions=2, use_repetition_ids=False).with_tags('t')), {'m': (2, 1)}),
        (cirq.Circuit(cirq.CircuitOperation(cirq.FrozenCircuit(cirq.X(q[2]), cirq.measure(q[0], q[1], key='m')), repetitions=2, use_repetition_ids=False).with_tags('t', 7)), {'m': (2, 2)}),
        (cirq.Circuit(cirq.CircuitOperation(cirq.FrozenCircuit(cirq.CircuitOperation(body2, repetitions=2, use_repetition_ids=False).with_tags('inner'))).with_tags('outer')), {'m': (2, 2), 'n': (2, 1)}),
        (cirq.Circuit(cirq.measure(q[0], key='m'), cirq.CircuitOperation(body1, repetitions=2, use_repetition_ids=False)), {'m': (3, 1)}),
        (cirq.Circuit(cirq.CircuitOperation(cirq.FrozenCircuit(cirq.CircuitOperation(body1, repetitions=2, use_repetition_ids=False)), repetitions=2, use_repetition_ids=False)), {'m': (4, 1)}),
        (cirq.Circuit(cirq.measure_single_paulistring(cirq.X(q[0]) * cirq.Z(q[1]), key='p')), {'p': (1, 1)}),
        (cirq.Circuit(cirq.measure_single_paulistring(cirq.X(q[0]) * cirq.Z(q[1]) * cirq.Y(q[2]), key='p'), cirq.measure(q[0], q[1], key='m')), {'p': (1, 1), 'm': (1, 2)}),
        (cirq.Circuit(cirq.CircuitOperation(cirq.FrozenCircuit(cirq.measure_single_paulistring(cirq.Z(q[0]) * cirq.Z(q[1]), key='p')), repetitions=2, use_repetition_ids=False)), {'p': (2, 1)}),
    ]
    for circuit, shape in cases:
        for name, mk in samplers.items():
            for reps in (0, 2):
                ctx.count('view', 'sampler-shapes-composite')
                ctx.case(['sampler-shapes-composite', name, reps, repr(circuit)], True)
                try:
                    res = mk().run(circuit, repetitions=reps)
                    got = {k: tuple(v.shape) for k, v in res.records.items()}
                except (ValueError, TypeError, NotImplementedError) as e:
                    got = f'{type(e).__name__}: {e}'[:120]
                want = {k: (reps, inst, w) for k, (inst, w) in shape.items()}
                if got != want:
                    ctx.report_witness(f'sampler:shapes:composite:{name}', f'{name}.run(repetitions={reps}) of a circuit with sub-circuits / Pauli-product measurements does not report every key with shape (repetitions, instances, digits)',
                                       {'lines': [{'circuit': repr(circuit), 'repetitions': reps}], 'impl_out': [got], 'spec_out': [want], 'theorem_or_correspondence': 'record shapes'})
                    break


def check_shapes_against_unrolling(ctx, cirq):
    """for generated nestings of sub-circuit operations (repetitions, repetition ids, key maps, parent paths, qubit maps) the samplers
    report every key with the number of instances and the width read off the Lean unrolling specification (Model.C12.recordShapes),
    for zero and for two repetitions"""
    from harness.props import c12

    rng = ctx.substream('shapes-unrolling')
    cases = []
    for it in range(40 if ctx.tier == 'quick' else 400):
        g = c12.Gen(rng)
        moments, _ = g.body(rng.choice([1, 2, 2, 3]), set())

        def strip(nodes):   # no classical control: what is recorded must not depend on outcomes
            out = []
            for n in nodes:
                if 'op' in n:
                    out.append({'op': dict(n['op'], conds=[])})
                else:
                    sub = dict(n['sub'], conds=[], body=[strip(m) for m in n['sub']['body']])
                    if sub['reps'] < 0:
                        sub['reps'] = -sub['reps']
                        if sub['rep_ids'] is not None:
                            sub['rep_ids'] = sub['rep_ids'][: sub['reps']]
                    out.append({'sub': sub})
            return out
        cases.append((g, [strip(m) for m in moments]))
    outs = ctx.driver.ask([{'p': 'C12', 'op': 'shapes', 'moments': m} for _, m in cases])
    flats = ctx.driver.ask([{'p': 'C12', 'op': 'unroll', 'moments': m} for _, m in cases])
    for (g, moments), out, flat in zip(cases, outs, flats):
        widths = {}
        for f in flat:
            if f['mkey']:
                widths.setdefault((tuple(f['mkey']['path']), f['mkey']['name']), set()).add(len(f['q']))
        if any(len(w) > 1 for w in widths.values()):
            ctx.count('shapes_unrolling', 'skipped: one key measured with two widths')
            continue
        b = c12.Builder(cirq, g.gates)
        try:
            wrapped = cirq.Circuit([cirq.Moment([b.node(x) for x in m]) for m in moments])
        except ValueError as e:
            ctx.count('shapes_unrolling', 'rejected: ' + str(e)[:40])
            continue
        want_base = {':'.join(r['key']['path'] + [r['key']['name']]): (r['instances'], r['width']) for r in out}
        if not want_base:
            continue
        ctx.case(['shapes-unrolling', repr(moments)], any(v[0] > 1 for v in want_base.values()))
        for name, mk, reps in (('ZerosSampler', cirq.ZerosSampler, 2), ('ZerosSampler', cirq.ZerosSampler, 0), ('Simulator', cirq.Simulator, 0), ('Simulator', cirq.Simulator, 2)):
            ctx.count('view', 'shapes-unrolling')
            try:
                res = mk().run(wrapped, repetitions=reps)
                got = {k: tuple(v.shape) for k, v in res.records.items()}
            except (ValueError, TypeError, NotImplementedError) as e:
                got = f'{type(e).__name__}: {e}'[:120]
            want = {k: (reps, inst, w) for k, (inst, w) in want_base.items()}
            if got != want:
                ctx.report_witness(f'sampler:shapes:unrolling:{name}', f'{name}.run(repetitions={reps}) does not report the keys of a circuit with sub-circuit operations with the shapes of its unrolled form',
                                   {'lines': [{'circuit': repr(wrapped)[:3000], 'structure': moments, 'repetitions': reps}], 'impl_out': [got], 'spec_out': [want],
                                    'theorem_or_correspondence': 'Model.C12.recordShapes (C12_instances_repeated)'})
                break


def check_simulated_records(ctx, cirq):
    """records of deterministic circuits (X gates and measurements, keys measured once or several times, terminal or not) from every simulator
    and repetition count: records[key][repetition][instance][qubit] is the bit that instance of the key read - computed here on bits -, and
    the result survives its JSON round trip whatever memory layout the simulator left the arrays in"""
    rng = ctx.substream('simulated-records')
    sims = {'Simulator': lambda: cirq.Simulator(seed=1), 'DensityMatrixSimulator': lambda: cirq.DensityMatrixSimulator(seed=1), 'CliffordSimulator': lambda: cirq.CliffordSimulator(seed=1),
            'ClassicalStateSimulator': lambda: cirq.ClassicalStateSimulator()}
    for it in range(20 if ctx.tier == 'quick' else 300):
        qs = cirq.LineQubit.range(rng.choice([2, 3]))
        bits = {q: 0 for q in qs}
        ops, want = [], {}
        terminal = rng.random() < 0.6
        pre = [q for q in qs if rng.random() < 0.5]
        for q in pre:
            ops.append(cirq.X(q))
            bits[q] ^= 1
        for _ in range(rng.randint(2, 5)):
            key = rng.choice(['a', 'a', 'b'])
            width = want[key][0].__len__() if key in want else rng.choice([1, 1, 2])
            t = rng.sample(list(qs), min(width, len(qs)))
            if key in want and len(t) != len(want[key][0]):
                continue
            if not terminal and rng.random() < 0.5:
                q = rng.choice(qs)
                ops.append(cirq.X(q))
                bits[q] ^= 1
            ops.append(cirq.measure(*t, key=key))
            want.setdefault(key, []).append([bits[q] for q in t])
        if it == 0:
            ops, want = [cirq.X(qs[0]), cirq.measure(qs[0], key='a'), cirq.measure(qs[1], key='a')], {'a': [[1], [0]]}
        circuit = cirq.Circuit(ops)
        if not want:
            continue
        reps = rng.choice([1, 2, 3, 5])
        for sname, mk in sims.items():
            ctx.count('check', 'simulated-records:' + sname)
            ctx.case(['simulated-records', sname, repr(circuit), reps], any(len(v) > 1 for v in want.values()))
            rep = {'lines': [{'simulator': sname, 'circuit': repr(circuit), 'repetitions': reps}], 'theorem_or_correspondence': 'records[key][repetition][instance][qubit] (C18 layout)'}
            try:
                res = mk().run(circuit, repetitions=reps)
            except (ValueError, TypeError, NotImplementedError) as e:
                ctx.count('sim_error', f'{sname}:{type(e).__name__}')
                continue
            got = {k: np.asarray(v).astype(int).tolist() for k, v in res.records.items()}
            exp = {k: [v] * reps for k, v in want.items()}
            if got != exp:
                ctx.report_witness('records:simulated', 'the records of a deterministic circuit are not [repetition][instance][qubit] of what each instance read', dict(rep, impl_out=[got], spec_out=[exp]))
                continue
            back = cirq.read_json(json_text=cirq.to_json(res))
            got_b = {k: np.asarray(v).astype(int).tolist() for k, v in back.records.items()}
            if got_b != exp:
                ctx.report_witness('records:json', 'a simulated result does not survive its JSON round trip', dict(rep, impl_out=[got_b, {k: dict(c=bool(np.asarray(v).flags['C_CONTIGUOUS'])) for k, v in res.records.items()}], spec_out=[exp]))
    # a copy of a classical data store is independent of the original (simulators copy the store for non-collapsing sampling and for
    # every repetition): recording on the copy leaves the original's records, of the same and of other keys, as they were
    qa, qb = cirq.LineQubit.range(2)
    for it in range(6):
        st = cirq.ClassicalDataDictionaryStore()
        ka, kc = cirq.MeasurementKey('a'), cirq.MeasurementKey('c')
        st.record_measurement(ka, (1,), (qa,))
        st.record_channel_measurement(kc, 2)
        before = (repr(st.records), repr(st.channel_records), repr(st.measured_qubits))
        cp = st.copy()
        if it % 2 == 0:
            cp.record_measurement(ka, (0,), (qa,))
        else:
            cp.record_channel_measurement(kc, 1)
        cp.record_measurement(cirq.MeasurementKey('b'), (1, 0), (qa, qb))
        ctx.count('check', 'store-copy')
        after = (repr(st.records), repr(st.channel_records), repr(st.measured_qubits))
        if after != before:
            ctx.report_witness('records:store-copy', 'recording on a copy of a classical data store changes the original', {'lines': [{'call': 'record_measurement' if it % 2 == 0 else 'record_channel_measurement'}], 'impl_out': [after],
                               'spec_out': [before], 'theorem_or_correspondence': 'C02_record_append_get (records are values)'})
            break
    # a result with a repeated key has no 2-D view: asking twice gives the same answer (an error), never a partial mapping
    rr = cirq.ResultDict(params=cirq.ParamResolver({}), records={'a': np.array([[[1]]], dtype=np.uint8), 'b': np.array([[[0], [1]]], dtype=np.uint8), 'c': np.array([[[1]]], dtype=np.uint8)})
    answers = []
    for _ in range(2):
        try:
            answers.append(sorted(rr.measurements))
        except ValueError:
            answers.append('ValueError')
    ctx.count('check', 'measurements-view:repeated-key')
    if answers[0] != answers[1] or answers[0] not in ('ValueError', ['a', 'b', 'c']):
        ctx.report_witness('views:measurements:partial', 'the 2-D view of a result with a repeated key answers differently the second time (a partial mapping was cached)', {'lines': [{'records': 'a: 1 instance, b: 2 instances, c: 1 instance'}],
                           'impl_out': [answers], 'spec_out': [['ValueError', 'ValueError']], 'theorem_or_correspondence': 'views of one result'})
    # keys recorded by channels (the index of the operator that was applied): [repetition][instance][1], like any other key
    qk = cirq.LineQubit(0)
    for inst in (1, 2, 3):
        ch = cirq.KrausChannel([np.eye(2) * np.sqrt(0.5), np.eye(2) * np.sqrt(0.5)], key='k')
        mu = cirq.MixedUnitaryChannel([(0.5, np.eye(2)), (0.5, cirq.unitary(cirq.X))], key='u')
        for nm, cc in (('KrausChannel', ch), ('MixedUnitaryChannel', mu)):
            for reps in (1, 3):
                try:
                    res = cirq.Simulator(seed=1).run(cirq.Circuit([cirq.Moment(cc.on(qk)) for _ in range(inst)] + [cirq.measure(qk, key='m')]), repetitions=reps)
                except (ValueError, TypeError) as e:
                    ctx.count('sim_error', f'channel-key:{type(e).__name__}')
                    continue
                ctx.count('check', 'channel-key-records')
                key = 'k' if nm == 'KrausChannel' else 'u'
                shape = tuple(np.asarray(res.records[key]).shape)
                if shape != (reps, inst, 1):
                    ctx.report_witness('records:channel-key-shape', 'the records of a key written by a channel are not [repetition][instance][1]', {'lines': [{'channel': nm, 'instances': inst, 'repetitions': reps}], 'impl_out': [list(shape)],
                                       'spec_out': [[reps, inst, 1]], 'theorem_or_correspondence': 'records[key][repetition][instance][qubit] (C18 layout)'})
    # user-built records in every memory layout
    for it in range(20 if ctx.tier == 'quick' else 200):
        r, i, w = rng.randint(1, 5), rng.randint(1, 3), rng.randint(1, 4)
        base = np.array([[[rng.randint(0, 1) for _ in range(w)] for _ in range(i)] for _ in range(r)], dtype=np.uint8)
        layouts = {'C': base.copy(), 'F': np.asfortranarray(base), 'swapaxes-view': np.ascontiguousarray(base.swapaxes(0, 1)).swapaxes(0, 1), 'strided': np.repeat(base, 2, axis=2)[:, :, ::2],
                   'bool': base.astype(bool), 'int64': base.astype(np.int64)}
        for lname, arr in layouts.items():
            ctx.count('check', 'records-layout:' + lname)
            res = cirq.ResultDict(params=cirq.ParamResolver({}), records={'k': arr})
            back = cirq.read_json(json_text=cirq.to_json(res))
            if np.asarray(back.records['k']).astype(int).tolist() != base.astype(int).tolist():
                ctx.report_witness('records:json', 'records in a non-default memory layout change in the JSON round trip', {'lines': [{'layout': lname, 'records': base.tolist()}], 'impl_out': [np.asarray(back.records['k']).astype(int).tolist()],
                                   'spec_out': [base.tolist()], 'theorem_or_correspondence': 'C18_pack_unpack (bits in index order)'})


def check_processor_sampler(ctx, cirq):
    """cirq_google.ProcessorSampler on a scripted processor: run / run_sweep / run_batch (for every batch size, with full and
    partial batches, changing sweeps and repetition counts) return, per program and in sweep order, the results of the
    underlying runs"""
    import cirq_google
    import duet
    import sympy

    rng = ctx.substream('processor-sampler')
    qs = cirq.LineQubit.range(2)

    def result_for(tag, resolver, reps):
        key = tuple(sorted((str(k), float(v)) for k, v in resolver.param_dict.items()))
        rs = np.random.RandomState(hash((tag, key)) % (2**31))
        return cirq.ResultDict(params=resolver, records={'m': rs.randint(0, 2, size=(reps, 1, 2)).astype(np.uint8)})

    class FakeJob:
        def __init__(self, results):
            self._results = results

        async def results_async(self):
            return self._results

    class FakeProcessor:
        def __init__(self):
            self.calls = []

        async def run_sweep_async(self, program, params, repetitions=1, **kwargs):
            programs = list(program.values()) if isinstance(program, dict) else (list(program) if isinstance(program, (list, tuple)) else [program])
            self.calls.append(len(programs))
            out = []
            for prog in programs:  # grouped by program, then by sweep point
                for r in cirq.to_resolvers(params):
                    out.append(result_for(prog.tags[0], r, repetitions))
            return FakeJob(out)

    n = 20 if ctx.tier == 'quick' else 200
    for _ in range(n):
        nprog = rng.randint(1, 6)
        jobs_per_batch = rng.choice([1, 2, 3, 4])
        programs = [cirq.Circuit(cirq.X(qs[0]) ** sympy.Symbol('t'), cirq.measure(*qs, key='m'), tags=[f'p{j}']) for j in range(nprog)]
        sweeps = [cirq.Points('t', [0.0, 1.0, 0.5][: rng.choice([1, 2, 3])])]
        sweeps.append(cirq.Linspace('t', 0, 1, 2))
        shape = rng.choice(['same', 'same', 'mixed-sweeps', 'mixed-reps'])
        params_list = [sweeps[0] if shape != 'mixed-sweeps' else rng.choice(sweeps) for _ in programs]
        reps = [3 if shape != 'mixed-reps' else rng.choice([2, 3]) for _ in programs]
        fake = FakeProcessor()
        sampler = cirq_google.ProcessorSampler(processor=fake, jobs_per_batch=jobs_per_batch)
        ctx.count('view', 'processor-sampler')
        ctx.case(['processor-sampler', nprog, jobs_per_batch, shape, [repr(p) for p in params_list], reps], nprog >= 2)
        rep = {'lines': [{'programs': nprog, 'jobs_per_batch': jobs_per_batch, 'params': [repr(p) for p in params_list], 'repetitions': reps}],
               'theorem_or_correspondence': 'sampler entry points (T2)'}
        want = [[result_for(prog.tags[0], r, rp) for r in cirq.to_resolvers(pl)] for prog, pl, rp in zip(programs, params_list, reps)]
        try:
            got = sampler.run_batch(programs, params_list=params_list, repetitions=reps)
            got_async = duet.run(sampler.run_batch_async, programs, params_list, reps)
        except ValueError as e:
            ctx.report_witness('sampler:processor:run_batch', f'ProcessorSampler.run_batch raises on a valid batch: {str(e)[:100]}', dict(rep, impl_out=[str(e)[:200]], spec_out=['results per program']))
            continue
        for name, g in (('run_batch', got), ('run_batch_async', got_async)):
            if [list(x) for x in g] != want:
                ctx.report_witness(f'sampler:processor:{name}', f'ProcessorSampler.{name} does not return, per program and in sweep order, the results of the underlying runs',
                                   dict(rep, impl_out=[[len(x) for x in g]], spec_out=[[len(x) for x in want]]))
                break
        if jobs_per_batch > 1 and max(fake.calls) > jobs_per_batch:
            ctx.report_witness('sampler:processor:batch-size', 'ProcessorSampler sends more programs in one call than jobs_per_batch', dict(rep, impl_out=[fake.calls], spec_out=[jobs_per_batch]))
        one = sampler.run_sweep(programs[0], params_list[0], reps[0])
        if list(one) != want[0] or sampler.run(programs[0], cirq.ParamResolver({'t': 0.0}), reps[0]) != result_for('p0', cirq.ParamResolver({'t': 0.0}), reps[0]):
            ctx.report_witness('sampler:processor:run_sweep', 'ProcessorSampler.run / run_sweep do not return the results of the underlying run', dict(rep, impl_out=[len(one)], spec_out=[len(want[0])]))


def replay(ctx: common.Run, rep: dict) -> int:
    import cirq  # noqa

    outs = ctx.driver.ask(rep.get('lines', []))
    print(json.dumps({'model_out_now': outs, 'recorded_impl_out': rep.get('impl_out')}, indent=1)[:4000])
    return 0 if outs == rep.get('impl_out') else 1
