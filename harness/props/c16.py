"""C16 — Google wire formats round-trip programs, sweeps, results and devices.

Lean (Model/C16, Props/C16): bit packing round-trips for every length (C16_unpack_pack), the per-qubit packed result
layout round-trips for every rectangular record table (C16_decode_encode), the shared constants table resolves every
position handed out to the constant it was handed out for, whatever was interned before (C16_internAll_resolves).
Tie (T2): pack_bits / unpack_bits / results_to_proto bytes are compared with the Lean model on generated inputs; the
constants table of every serialized program is checked against the model's interning discipline (every index in range,
no constant stored twice); circuits, sweeps, run contexts, results and device specifications are round-tripped through
the real protos and compared with the original by an oracle that does not use the serializer (float32 rounding of real
arguments allowed; sweeps are compared through the C10 Lean model of the assignments they denote).
"""
from __future__ import annotations

import itertools
import json
import math

import numpy as np

from harness import common, gen

MODULES = ['CirqVerif.Props.C16', 'CirqVerif.Props.C10']

F32 = lambda x: float(np.float32(x))


# ------------------------------------------------------------------------------ bits and results
def check_bits(ctx, cirq, cg, n):
    from cirq_google.api.v2 import results as v2r

    rng = ctx.substream('bits')
    cases = []
    for i in range(n):
        ln = rng.choice([0, 1, 7, 8, 9, 15, 16, 17, 63, 64, 65, rng.randint(0, 200)])
        bits = [rng.random() < 0.5 for _ in range(ln)]
        cases.append(bits)
    outs = ctx.driver.ask([{'p': 'C16', 'op': 'pack', 'bits': b} for b in cases])
    reqs2, meta2 = [], []
    for bits, want in zip(cases, outs):
        got = list(v2r.pack_bits(np.array(bits, dtype=bool)))
        ctx.case(['pack', bits], len(bits) % 8 != 0)
        ctx.count('check', 'pack_bits')
        if got != want:
            ctx.report_witness('bits:pack', 'pack_bits differs from the little-endian byte packing', {'lines': [{'bits': bits}], 'impl_out': [got], 'spec_out': [want], 'theorem_or_correspondence': 'Model.C16.pack'})
            continue
        for count in {len(bits), max(0, len(bits) - 3), len(bits) + 5}:
            reqs2.append({'p': 'C16', 'op': 'unpack', 'bytes': got, 'count': count})
            meta2.append((bytes(got), count))
    for (data, count), want in zip(meta2, ctx.driver.ask(reqs2)):
        got = [bool(x) for x in v2r.unpack_bits(data, count)]
        ctx.count('check', 'unpack_bits')
        if got != want:
            ctx.report_witness('bits:unpack', 'unpack_bits differs from the model', {'lines': [{'bytes': list(data), 'count': count}], 'impl_out': [got], 'spec_out': [want], 'theorem_or_correspondence': 'Model.C16.unpack'})


def check_results(ctx, cirq, cg, n):
    from cirq_google.api.v2 import results as v2r

    rng = ctx.substream('results')
    reqs, meta = [], []
    for i in range(n):
        reps = rng.choice([1, 2, 7, 8, 9, 17, rng.randint(1, 40)])
        nkeys = rng.randint(1, 3)
        grid = [cirq.GridQubit(r, c) for r in range(3) for c in range(3)]
        measurements, records = [], {}
        for k in range(nkeys):
            nq = rng.randint(1, 4)
            inst = rng.choice([1, 1, 2, 3])
            qs = rng.sample(grid, nq)
            measurements.append(v2r.MeasureInfo(key=f'k{k}', qubits=qs, instances=inst, invert_mask=[False] * nq, tags=[]))
            records[f'k{k}'] = np.array([[[rng.random() < 0.5 for _ in range(nq)] for _ in range(inst)] for _ in range(reps)], dtype=bool)
        params = cirq.ParamResolver({'a': rng.choice([0.5, 1, -2.25])} if rng.random() < 0.5 else {})
        res = cirq.ResultDict(params=params, records=records)
        proto = v2r.results_to_proto([[res]], measurements)
        # (1) packed bytes per key and qubit = model
        for m, mr in zip(measurements, proto.sweep_results[0].parameterized_results[0].measurement_results):
            rows = records[m.key].reshape(reps * m.instances, len(m.qubits)).tolist()
            reqs.append({'p': 'C16', 'op': 'encode_key', 'rows': rows, 'nq': len(m.qubits)})
            meta.append((m.key, rows, [list(q.results) for q in mr.qubit_measurement_results], [q.qubit.id for q in mr.qubit_measurement_results], [f'{q.row}_{q.col}' for q in m.qubits]))
        # (2) round trip, with the measurement info given in a different qubit order
        back = v2r.results_from_proto(proto, measurements)[0][0]
        ctx.case(['results', reps, [(m.key, m.instances, len(m.qubits)) for m in measurements]], reps > 1)
        ctx.count('check', 'results-roundtrip')
        ok = set(back.records) == set(records) and all(np.array_equal(back.records[k], records[k]) for k in records) and dict(back.params.param_dict) == dict(params.param_dict)
        if not ok:
            ctx.report_witness('results:roundtrip', 'results_from_proto(results_to_proto(r)) differs from r', {'lines': [{'reps': reps, 'records': {k: v.astype(int).tolist() for k, v in records.items()}}],
                               'impl_out': [{k: v.astype(int).tolist() for k, v in back.records.items()}], 'spec_out': ['identity'], 'theorem_or_correspondence': 'C16_decode_encode'})
        perm = [v2r.MeasureInfo(key=m.key, qubits=list(reversed(m.qubits)), instances=m.instances, invert_mask=m.invert_mask, tags=[]) for m in measurements]
        back2 = v2r.results_from_proto(proto, perm)[0][0]
        ctx.count('check', 'results-reordered')
        if not all(np.array_equal(back2.records[k], records[k][:, :, ::-1]) for k in records):
            ctx.report_witness('results:qubit-order', 'results_from_proto with a reordered measurement description does not reorder the columns accordingly',
                               {'lines': [{'reps': reps}], 'impl_out': ['...'], 'spec_out': ['columns reversed'], 'theorem_or_correspondence': 'fromCols'})
        # without measurement info the stored order is used
        back3 = v2r.results_from_proto(proto)[0][0]
        if not all(np.array_equal(back3.records[k], records[k]) for k in records):
            ctx.report_witness('results:roundtrip:no-info', 'results_from_proto without measurement info differs from the stored order', {'lines': [{'reps': reps}], 'impl_out': ['...'], 'spec_out': ['identity'],
                                                                                                                                  'theorem_or_correspondence': 'C16_decode_encode'})
    for (key, rows, got, ids, want_ids), want in zip(meta, ctx.driver.ask(reqs)):
        ctx.count('check', 'results-bytes')
        if got != want or ids != want_ids:
            ctx.report_witness('results:bytes', 'the packed per-qubit result columns differ from the model', {'lines': [{'key': key, 'rows': rows}], 'impl_out': [got, ids], 'spec_out': [want, want_ids],
                                                                                                          'theorem_or_correspondence': 'Model.C16.encodeKey'})


# ------------------------------------------------------------------------------ programs
def rand_arg(rng, sympy, symbolic_ok=True):
    r = rng.random()
    if symbolic_ok and r < 0.2:
        a_, b_ = sympy.Symbol('a'), sympy.Symbol('b')
        return rng.choice([a_, b_, 2 * a_, a_ + 0.5, a_ * b_, a_**2, a_**b_, 1 / a_, a_ / b_, sympy.sqrt(a_), (a_ + 1) ** 2, 2**a_, b_**a_, a_ - b_, -a_])
    return gen.rand_exponent(rng)


def rand_program(cirq, cg, sympy, rng, depth=0):
    grid = [cirq.GridQubit(r, c) for r in range(2) for c in range(3)]
    ops = []
    nops = rng.randint(1, 8)
    keys = []
    for _ in range(nops):
        k = rng.randrange(24 if depth < 2 else 20)
        q = rng.sample(grid, 2)
        e = rand_arg(rng, sympy)
        if k == 0:
            op = cirq.XPowGate(exponent=e).on(q[0])
        elif k == 1:
            op = cirq.YPowGate(exponent=e).on(q[0])
        elif k == 2:
            op = cirq.ZPowGate(exponent=e).on(q[0])
            if rng.random() < 0.4:
                op = op.with_tags(cg.PhysicalZTag())
        elif k == 3:
            op = cirq.PhasedXPowGate(phase_exponent=rand_arg(rng, sympy), exponent=e).on(q[0])
        elif k == 4:
            op = cirq.PhasedXZGate(x_exponent=e, z_exponent=rand_arg(rng, sympy), axis_phase_exponent=rand_arg(rng, sympy)).on(q[0])
        elif k == 5:
            op = cirq.CZPowGate(exponent=e).on(*q)
        elif k == 6:
            op = cirq.ISwapPowGate(exponent=e).on(*q)
        elif k == 7:
            op = cirq.FSimGate(theta=rand_arg(rng, sympy), phi=rand_arg(rng, sympy)).on(*q)
        elif k == 8:
            op = cg.SYC(*q)
        elif k == 9:
            op = cirq.HPowGate(exponent=e).on(q[0])
        elif k == 10:
            op = cirq.I(q[0]) if rng.random() < 0.5 else cirq.depolarize(rng.choice([0.0, 0.1, 0.25, 1.0 / 3])).on(q[0])
        elif k == 11:
            nm = min(rng.randint(1, 3), len(grid))
            t = rng.sample(grid, nm)
            key = f'm{len(keys)}'
            keys.append(key)
            op = cirq.measure(*t, key=key, invert_mask=tuple(rng.random() < 0.3 for _ in t))
        elif k == 12:
            op = cirq.wait(q[0], nanos=rng.choice([1, 25, 1000, 7]))
        elif k == 13:
            op = cirq.X(q[0]).with_tags(cg.CalibrationTag(rng.choice(['x', 'tok'])))
        elif k == 14:
            op = cirq.SingleQubitCliffordGate.all_single_qubit_cliffords[rng.randrange(24)].on(q[0])
        elif k == 15:
            op = cirq.reset(q[0])
        elif k == 16:
            op = cirq.CZ(*q).with_tags(cg.InternalTag(name='t', package='p', v=rng.choice([1, 2.5, 'z'])))
        elif k == 17:
            op = cg.InternalGate(gate_name='G', gate_module='mod', num_qubits=1, x=rng.choice([1, 0.5, 'q', True])).on(q[0])
        elif k == 18 and keys:
            if rng.random() < 0.5:
                op = cirq.X(q[0]).with_classical_controls(rng.choice(keys))
            else:
                op = cirq.X(q[0]).with_classical_controls(cirq.BitMaskKeyCondition(rng.choice(keys), index=-1, target_value=rng.choice([1, 2, 3, 2**24 + 1]), equal_target=rng.random() < 0.5,
                                                                                  bitmask=rng.choice([None, 1, 3, 2**24 + 1])))
        elif k == 19:
            # the same operation object several times: shares constants
            op = cirq.Moment([cirq.X(g) ** 0.125 for g in rng.sample(grid, 3)])
        elif k >= 20:
            sub, _ = rand_program(cirq, cg, sympy, rng, depth + 1)
            sub = cirq.Circuit(o for o in sub.all_operations() if not cirq.is_measurement(o) and not isinstance(o.untagged, cirq.ClassicallyControlledOperation))
            if not len(sub):
                continue
            reps = rng.choice([1, 1, 2, 3, 0])
            op = cirq.CircuitOperation(sub.freeze(), repetitions=reps)
            if cirq.has_unitary(sub) and rng.random() < 0.3:
                nreps = rng.choice([-1, -2])
                op = cirq.CircuitOperation(sub.freeze(), repetitions=nreps, repetition_ids=[f'r{j}' for j in range(abs(nreps))] if rng.random() < 0.5 else None)
            elif rng.random() < 0.35:
                # explicit repetition ids, used as key scopes or not
                op = cirq.CircuitOperation(sub.freeze(), repetitions=reps, repetition_ids=[f'i{j}' for j in range(reps)], use_repetition_ids=rng.choice([True, False])) if reps else op
            if rng.random() < 0.3:
                op = op.with_tags(cg.CalibrationTag('c'))
        else:
            continue
        ops.append(op)
    style = rng.random()
    if style < 0.5:
        c = cirq.Circuit(ops)
    else:
        c = cirq.Circuit()
        for op in ops:
            c.append(op, strategy=rng.choice([cirq.InsertStrategy.NEW, cirq.InsertStrategy.EARLIEST, cirq.InsertStrategy.INLINE]))
    if rng.random() < 0.3 and len(c) >= 2:
        # two moments with the same operations and different tags / a tagged moment
        base = c[0]
        if not any(cirq.is_measurement(o) for o in base):
            c = cirq.Circuit([base.with_tags('first'), base.with_tags('second')] + list(c[1:]))
        else:
            c = cirq.Circuit([base.with_tags('only')] + list(c[1:]))
    return c, keys


DROPPED_SUBCIRCUIT_TAGS: list = []
NEGATIVE_REPS_WITH_IDS: list = []
INTERNAL_TUPLE_ARGS: list = []


def f32_close(a, b):
    if isinstance(a, (int, float, np.floating, np.integer)) and isinstance(b, (int, float, np.floating, np.integer)):
        return abs(float(a) - float(b)) <= 1e-6 * max(1.0, abs(float(a)))
    return None


def ops_equivalent(cirq, sympy, a, b, path=''):
    """structural comparison of two operations allowing float32 rounding of real arguments and a normalised global phase;
    returns None or a description of the first difference"""
    if a == b:
        return None  # (includes gates with interchangeable qubits listed in another order, which share one constant)
    if tuple(a.qubits) != tuple(b.qubits):
        if sorted(a.qubits) == sorted(b.qubits) and a.untagged.with_qubits(*b.qubits) == a.untagged:
            b = b.untagged.with_qubits(*a.qubits).with_tags(*b.tags)
        else:
            return f'{path}: qubits {a.qubits} vs {b.qubits}'
    if [repr(t) for t in a.tags] != [repr(t) for t in b.tags] and not all(ta == tb or tags_close(ta, tb) for ta, tb in itertools.zip_longest(a.tags, b.tags)):
        if isinstance(a.untagged, cirq.CircuitOperation) and isinstance(b.untagged, cirq.CircuitOperation) and not b.tags:
            DROPPED_SUBCIRCUIT_TAGS.append(repr(a.tags))  # reported separately (the message has no field for them); keep comparing
        else:
            return f'{path}: tags {a.tags} vs {b.tags}'
    ua, ub = a.untagged, b.untagged
    if isinstance(ua, cirq.ClassicallyControlledOperation) or isinstance(ub, cirq.ClassicallyControlledOperation):
        if type(ua) != type(ub) or list(ua.classical_controls) != list(ub.classical_controls):
            return f'{path}: classical controls {ua!r} vs {ub!r}'
        return ops_equivalent(cirq, sympy, ua.without_classical_controls(), ub.without_classical_controls(), path + '/cc')
    if isinstance(ua, cirq.CircuitOperation) or isinstance(ub, cirq.CircuitOperation):
        if type(ua) != type(ub):
            return f'{path}: {type(ua).__name__} vs {type(ub).__name__}'
        if ua.repetitions != ub.repetitions and ua.repetitions == -ub.repetitions and ua.repetitions < 0 and ua.repetition_ids == ub.repetition_ids and ua.use_repetition_ids:
            NEGATIVE_REPS_WITH_IDS.append(repr(ua)[:300])  # reported separately (the message holds a count or ids, not both); keep comparing
        elif ua.repetitions != ub.repetitions or ua.repetition_ids != ub.repetition_ids or dict(ua.qubit_map) != dict(ub.qubit_map) or dict(ua.measurement_key_map) != dict(ub.measurement_key_map) \
                or ua.use_repetition_ids != ub.use_repetition_ids or cirq.measurement_key_objs(ua) != cirq.measurement_key_objs(ub) or tuple(ua.parent_path) != tuple(ub.parent_path):
            return f'{path}: circuit-operation attributes differ: {ua!r} vs {ub!r}'
        return circuits_equivalent(cirq, sympy, ua.circuit, ub.circuit, path + '/sub')
    ga, gb = ua.gate, ub.gate
    if type(ga).__name__ == 'InternalGate' and type(gb).__name__ == 'InternalGate':
        # numerical tuples are written as repeated values and come back as lists (reported separately); everything else must agree
        norm = lambda d: {k: (list(v) if isinstance(v, tuple) and v and all(isinstance(x, (int, float)) for x in v) else v) for k, v in d.items()}
        if (ga.gate_name, ga.gate_module, cirq.num_qubits(ga)) == (gb.gate_name, gb.gate_module, cirq.num_qubits(gb)) and ga.gate_args != gb.gate_args and norm(ga.gate_args) == norm(gb.gate_args):
            INTERNAL_TUPLE_ARGS.append(repr(ga)[:300])
            return None
    if cirq.is_measurement(ua) or cirq.is_measurement(ub):
        if not (isinstance(ga, cirq.MeasurementGate) and isinstance(gb, cirq.MeasurementGate) and ga.key == gb.key and ga.full_invert_mask() == gb.full_invert_mask()):
            return f'{path}: measurement {ua!r} vs {ub!r}'
        return None
    if ga == gb:
        return None
    # parameters: resolve the symbols with generic values on both sides and compare matrices / attributes
    res = {'a': 0.37, 'b': 1.21}
    ra, rb = cirq.resolve_parameters(ua, res), cirq.resolve_parameters(ub, res)
    if cirq.parameter_names(ua) != cirq.parameter_names(ub):
        return f'{path}: symbols {sorted(cirq.parameter_names(ua))} vs {sorted(cirq.parameter_names(ub))}'
    if cirq.has_unitary(ra) and cirq.has_unitary(rb):
        m1, m2 = cirq.unitary(ra), cirq.unitary(rb)
        if m1.shape == m2.shape and cirq.equal_up_to_global_phase(m1, m2, atol=2e-5):
            return None
        return f'{path}: matrices differ: {ua!r} vs {ub!r}'
    if type(ga) == type(gb) and cirq.approx_eq(ra, rb, atol=1e-5):
        return None
    return f'{path}: {ua!r} vs {ub!r}'


def tags_close(ta, tb):
    return type(ta) == type(tb) and repr(ta) == repr(tb)


def circuits_equivalent(cirq, sympy, a, b, path=''):
    if len(a) != len(b):
        return f'{path}: {len(a)} moments vs {len(b)}'
    for i, (ma, mb) in enumerate(zip(a, b)):
        if tuple(getattr(ma, 'tags', ())) != tuple(getattr(mb, 'tags', ())):
            return f'{path}/moment{i}: moment tags {getattr(ma, "tags", ())} vs {getattr(mb, "tags", ())}'
        oa = sorted(ma.operations, key=lambda o: repr(sorted(o.qubits)))
        ob = sorted(mb.operations, key=lambda o: repr(sorted(o.qubits)))
        if len(oa) != len(ob):
            return f'{path}/moment{i}: {len(oa)} operations vs {len(ob)}'
        for x, y in zip(oa, ob):
            d = ops_equivalent(cirq, sympy, x, y, f'{path}/moment{i}')
            if d:
                return d
    return None


def check_array_arguments(ctx, cirq, cg):
    """arrays among the arguments written by arg_to_proto / internal_gate_arg_to_proto come back with their values at their places,
    whatever their memory layout (C / Fortran order, transposed views, slices), dtype and shape"""
    from cirq_google.serialization import arg_func_langs as afl

    rng = ctx.substream('array-args')
    systematic = [(sh, dt, lay) for sh in ((2, 3), (3, 2, 2), (4, 1, 3)) for dt in (np.float64, np.float32, np.int64, np.bool_) for lay in ('F', 'transposed', 'C', 'sliced')]
    for it in range(len(systematic) + (30 if ctx.tier == 'quick' else 300)):
        shape = tuple(rng.randint(1, 4) for _ in range(rng.choice([1, 2, 2, 3])))
        dtype = rng.choice([np.float64, np.float64, np.float32, np.int64, np.int32, np.bool_])
        layout = rng.choice(['C', 'F', 'transposed', 'sliced'])
        if it < len(systematic):
            shape, dtype, layout = systematic[it]
        base = np.array([rng.choice([0, 1, 2.5, -3, 7]) for _ in range(int(np.prod(shape)))]).reshape(shape).astype(dtype)
        arr = {'C': lambda: np.ascontiguousarray(base), 'F': lambda: np.asfortranarray(base), 'transposed': lambda: np.ascontiguousarray(base.T).T,
               'sliced': lambda: np.concatenate([base, base], axis=0)[: shape[0]]}[layout]()
        ctx.count('check', 'array-args')
        ctx.case(['array-arg', shape, np.dtype(dtype).name, layout], len(shape) >= 2)
        for fname, to_p, from_p in (('arg', afl.arg_to_proto, afl.arg_from_proto), ('internal_gate_arg', getattr(afl, 'internal_gate_arg_to_proto', None), getattr(afl, 'internal_gate_arg_from_proto', None))):
            if to_p is None or from_p is None:
                continue
            try:
                back = from_p(to_p(arr))
            except (ValueError, TypeError, NotImplementedError) as e:
                ctx.count('array_args', f'{fname}:{np.dtype(dtype).name}:{type(e).__name__}')
                continue
            back = np.asarray(back)
            if back.shape != arr.shape or not np.array_equal(back, arr):
                ctx.report_witness('arg:array', f'{fname}_to_proto / _from_proto do not return an array argument with its values at their places',
                                   {'lines': [{'shape': list(shape), 'dtype': np.dtype(dtype).name, 'layout': layout, 'array': arr.tolist()}], 'impl_out': [back.tolist()], 'spec_out': [arr.tolist()],
                                    'theorem_or_correspondence': 'argument round trip'})
                break


def check_programs(ctx, cirq, cg, sympy, n):
    rng = ctx.substream('programs')
    ser = cg.CIRCUIT_SERIALIZER
    reqs, meta = [], []
    gq = cirq.GridQubit(0, 0)
    corpus = [  # witnesses of the known findings and of repaired defects always run
        cirq.Circuit(cirq.CircuitOperation(cirq.FrozenCircuit(cirq.X(gq))).with_tags(cg.CalibrationTag('c'))),
        cirq.Circuit(cirq.CircuitOperation(cirq.FrozenCircuit(cirq.X(gq) ** 0.5), repetitions=-2, repetition_ids=['a', 'b'])),
        cirq.Circuit(cirq.Moment(cirq.X(gq)).with_tags('first'), cirq.Moment(cirq.X(gq)).with_tags('second')),
        cirq.Circuit(cirq.CircuitOperation(cirq.FrozenCircuit(cirq.X(gq), cirq.measure(gq, key='m')), repetitions=2, repetition_ids=['a', 'b'], use_repetition_ids=False)),
        cirq.Circuit(cirq.CircuitOperation(cirq.FrozenCircuit(cirq.X(gq), cirq.measure(gq, key='m')), repetitions=2, repetition_ids=['a', 'b'], use_repetition_ids=True)),
        cirq.Circuit(cirq.CircuitOperation(cirq.FrozenCircuit(cirq.X(gq), cirq.measure(gq, key='m')), repetitions=2, use_repetition_ids=False)),
        cirq.Circuit(cirq.depolarize(0.0).on(gq)),
        # conditions and sub-circuit resolvers in every form the serializer accepts
        cirq.Circuit(cirq.measure(gq, key='a'), cirq.X(gq).with_classical_controls(sympy.Symbol('a'))),
        cirq.Circuit(cirq.measure(gq, key='a'), cirq.measure(cirq.GridQubit(0, 1), key='b'), cirq.X(gq).with_classical_controls(sympy.Symbol('a') > sympy.Symbol('b'))),
        cirq.Circuit(cirq.CircuitOperation(cirq.FrozenCircuit(cirq.X(gq) ** sympy.Symbol('a')), param_resolver={sympy.Symbol('a'): 2 * sympy.Symbol('b')})),
        cirq.Circuit(cirq.CircuitOperation(cirq.FrozenCircuit(cirq.X(gq) ** sympy.Symbol('a')), param_resolver={sympy.Symbol('a'): sympy.Symbol('b') + 0.5})),
        cirq.Circuit(cirq.CircuitOperation(cirq.FrozenCircuit(cirq.X(gq) ** sympy.Symbol('a')), param_resolver={'a': 0.25})),
        cirq.Circuit(cirq.X(gq), cirq.CircuitOperation(cirq.FrozenCircuit(cirq.X(gq) ** 0.5, cirq.Y(gq)), repetitions=0)),
        cirq.Circuit(cg.InternalGate(gate_name='g', gate_module='m', num_qubits=1, t=(1, 2, 3), u=(0.5, 1.5), names=('a', 'b'), mixed=(1, 'a')).on(gq)),
        cirq.Circuit(cirq.measure(gq, cirq.GridQubit(0, 1), key='m'), cirq.X(gq).with_classical_controls(cirq.BitMaskKeyCondition('m', index=-1, target_value=2**24 + 1, equal_target=True, bitmask=2**24 + 1))),
        cirq.Circuit(cirq.Z(gq).with_tags('a', cg.PhysicalZTag()), (cirq.Z(gq) ** 0.5).with_tags(cg.PhysicalZTag(), 'b'), cirq.X(gq).with_tags('x', cg.CalibrationTag('t'), 'y')),
        cirq.Circuit(cirq.X(cirq.NamedQubit('3')), cirq.CZ(cirq.NamedQubit('1_2'), cirq.NamedQubit('plain'))),
        # line and grid qubits with negative coordinates, also as the targets of a sub-circuit's qubit map
        cirq.Circuit(cirq.X(cirq.LineQubit(-1)) ** 0.5, cirq.CZ(cirq.LineQubit(-3), cirq.LineQubit(2)), cirq.Y(cirq.LineQubit(0)) ** 0.25,
                     cirq.CircuitOperation(cirq.FrozenCircuit(cirq.X(cirq.LineQubit(0)) ** 0.5, cirq.CZ(cirq.LineQubit(0), cirq.LineQubit(1))), qubit_map={cirq.LineQubit(0): cirq.LineQubit(-2), cirq.LineQubit(1): cirq.LineQubit(7)})),
        cirq.Circuit(cirq.X(cirq.GridQubit(-1, 2)) ** 0.5, cirq.CZ(cirq.GridQubit(-1, 2), cirq.GridQubit(-1, -3)), cirq.measure(cirq.GridQubit(0, -4), key='m')),
    ]
    # qubit ids by themselves
    for qq in [cirq.LineQubit(x) for x in (-12, -3, -1, 0, 1, 10, 123456)] + [cirq.GridQubit(r, c) for r, c in ((-1, 2), (3, -4), (-5, -6), (0, 0), (12, 345))] + [cirq.NamedQubit(x) for x in ('a', 'q_1', 'x-1', '-', 'c_1_2')]:
        ctx.count('check', 'qubit-id-roundtrip')
        pid = cg.api.v2.qubit_to_proto_id(qq)
        back_q = cg.api.v2.qubit_from_proto_id(pid)
        if back_q != qq and not (isinstance(qq, cirq.NamedQubit) and not isinstance(back_q, cirq.NamedQubit)):
            ctx.report_witness('program:roundtrip:qubit-id', 'a qubit does not come back from its proto id', {'lines': [{'qubit': repr(qq), 'id': pid}], 'impl_out': [repr(back_q)], 'spec_out': [repr(qq)], 'theorem_or_correspondence': 'qubit ids'})
    for i in range(n + len(corpus)):
        if i < len(corpus):
            circuit, keys = corpus[i], []
        else:
            circuit, keys = rand_program(cirq, cg, sympy, rng)
        try:
            proto = ser.serialize(circuit)
        except (ValueError, NotImplementedError) as e:
            ctx.count('serialize_rejected', str(e)[:50])
            continue
        try:
            back = ser.deserialize(proto)
        except (ValueError, TypeError, KeyError) as e:
            kind = 'depolarize' if 'Depolarizing' in str(e) else type(e).__name__
            ctx.report_witness(f'program:unreadable:{kind}', f'deserialize cannot read what serialize wrote: {str(e)[:120]}', {'lines': [{'circuit': repr(circuit)}], 'impl_out': [str(e)[:300]], 'spec_out': ['the circuit'],
                                                                                                                      'theorem_or_correspondence': 'program round trip'})
            continue
        nontrivial = len(proto.constants) >= 2
        ctx.case(['program', repr(circuit)], nontrivial, sample={'circuit': str(circuit)[:400], 'constants': len(proto.constants)} if nontrivial and len(ctx.samples) < 2 else None)
        ctx.count('check', 'program-roundtrip')
        for op in circuit.all_operations():
            ctx.count('gate', type(op.untagged.gate).__name__ if op.untagged.gate is not None else type(op.untagged).__name__)
        DROPPED_SUBCIRCUIT_TAGS.clear()
        NEGATIVE_REPS_WITH_IDS.clear()
        INTERNAL_TUPLE_ARGS.clear()
        diff = circuits_equivalent(cirq, sympy, circuit, back)
        if INTERNAL_TUPLE_ARGS:
            ctx.report_witness('program:roundtrip:internal-gate-tuple', 'a numerical tuple among the arguments of an InternalGate comes back as a list (the gate is then unequal to the original and unhashable)',
                               {'lines': [{'circuit': repr(circuit)}], 'impl_out': ['list'], 'spec_out': INTERNAL_TUPLE_ARGS[:2], 'theorem_or_correspondence': 'program round trip'})
        if NEGATIVE_REPS_WITH_IDS:
            ctx.report_witness('program:roundtrip:negative-repetitions-with-ids', 'a CircuitOperation with negative repetitions and explicit repetition ids comes back with positive repetitions',
                               {'lines': [{'circuit': repr(circuit)}], 'impl_out': ['repetitions > 0'], 'spec_out': NEGATIVE_REPS_WITH_IDS[:2], 'theorem_or_correspondence': 'program round trip'})
        if DROPPED_SUBCIRCUIT_TAGS:
            ctx.report_witness('program:roundtrip:circuit-op-tags', 'tags on a CircuitOperation are dropped by serialize / deserialize',
                               {'lines': [{'circuit': repr(circuit)}], 'impl_out': ['()'], 'spec_out': DROPPED_SUBCIRCUIT_TAGS[:3], 'theorem_or_correspondence': 'program round trip'})
        if diff and any(isinstance(q, cirq.NamedQubit) and not isinstance(cg.api.v2.qubit_from_proto_id(q.name), cirq.NamedQubit) for q in circuit.all_qubits()):
            ctx.report_witness('program:roundtrip:named-qubit-id', 'a NamedQubit whose name is the proto id of a line / grid qubit comes back as that qubit',
                               {'lines': [{'circuit': repr(circuit)}], 'impl_out': [sorted(map(repr, back.all_qubits()))], 'spec_out': [sorted(map(repr, circuit.all_qubits()))], 'theorem_or_correspondence': 'program round trip'})
        elif diff:
            ctx.report_witness('program:roundtrip', f'deserialize(serialize(c)) differs from c beyond single-precision rounding: {diff[:200]}',
                               {'lines': [{'circuit': repr(circuit)}], 'impl_out': [repr(back)[:3000]], 'spec_out': [repr(circuit)[:3000]], 'theorem_or_correspondence': 'program round trip'})
        # the constants table follows the interning discipline: no constant stored twice, serialization is deterministic
        consts = [c.SerializeToString(deterministic=True).hex() for c in proto.constants]
        ctx.count('check', 'constants-table')
        if len(set(consts)) != len(consts):
            ctx.report_witness('program:constants:duplicate', 'the constants table stores a constant twice', {'lines': [{'circuit': repr(circuit)}], 'impl_out': [consts], 'spec_out': ['no duplicates'],
                                                                                                      'theorem_or_correspondence': 'C16_intern_nodup'})
        reqs.append({'p': 'C16', 'op': 'intern_all', 'table': [], 'constants': consts + consts[:3]})
        meta.append(consts)
        # serializing twice gives the same message
        if ser.serialize(circuit).SerializeToString(deterministic=True) != proto.SerializeToString(deterministic=True):
            ctx.report_witness('program:deterministic', 'serializing the same circuit twice gives different messages', {'lines': [{'circuit': repr(circuit)}], 'impl_out': ['...'], 'spec_out': ['...'],
                                                                                                                   'theorem_or_correspondence': 'serialize function'})
        # multi-program form
        if i % 5 == 0 and i >= len(corpus):   # (the corpus holds the witnesses of recorded findings: they are reported once, by the single-program form)
            c2, _ = rand_program(cirq, cg, sympy, rng)
            try:
                mp = ser.serialize_multi_program([circuit, c2])
                backs = ser.deserialize_multi_program(mp)
                ctx.count('check', 'multi-program')
                for orig, (_key, _args, bk) in zip([circuit, c2], backs):
                    d2 = circuits_equivalent(cirq, sympy, orig, bk)
                    if d2:
                        ctx.report_witness('program:multi', f'deserialize_multi_program differs from the input: {d2[:200]}', {'lines': [{'circuits': [repr(circuit), repr(c2)]}], 'impl_out': [repr(bk)[:2000]],
                                                                                                                        'spec_out': [repr(orig)[:2000]], 'theorem_or_correspondence': 'program round trip'})
            except (ValueError, NotImplementedError) as e:
                ctx.count('serialize_rejected', 'multi:' + str(e)[:40])
    for consts, out in zip(meta, ctx.driver.ask(reqs)):
        # model: interning the table's own constants in order reproduces the table and the identity indexing
        if out['table'] != consts or out['indices'] != list(range(len(consts))) + list(range(min(3, len(consts)))):
            ctx.report_witness('program:constants:model', 'the constants table is not what interning its entries in order produces', {'lines': [{'constants': consts}], 'impl_out': [consts], 'spec_out': [out],
                                                                                                                                'theorem_or_correspondence': 'Model.C16.internAll'})


# ------------------------------------------------------------------------------ sweeps
def rand_sweep(cirq, rng, depth):
    r = rng.random()
    if depth <= 0 or r < 0.45:
        key = rng.choice(['a', 'b', 'c', 'd'])
        k = rng.random()
        if k < 0.4:
            md = None
            if rng.random() < 0.3:
                import cirq_google as cg_

                md = cg_.study.DeviceParameter(path=['q', rng.choice(['x', 'y'])], idx=rng.choice([None, 0, 1, 3]), units=rng.choice([None, 'GHz']))
            return cirq.Points(key, [rng.choice([0.0, 0.5, -1.25, 3.0, 0.1, 1e-3]) for _ in range(rng.choice([0, 1, 2, 3, 5]))], metadata=md)
        if k < 0.8:
            return cirq.Linspace(key, rng.choice([0.0, -1.0, 0.25]), rng.choice([1.0, 2.5, 0.0]), rng.choice([1, 2, 3, 7]))
        if k < 0.84:
            return cirq.UnitSweep
        if k < 0.88:
            # random samples from a finite distribution written in any order of its values
            import cirq_google as cg_

            vals = rng.sample([0.0, 1.0, -1.0, 0.5, 2.0, 3.0], rng.choice([2, 3, 4]))
            return cg_.study.FiniteRandomVariable(key, distribution={v: float(rng.choice([1, 2, 3])) for v in vals}, seed=rng.randrange(100), length=rng.choice([1, 3, 6]))
        if k < 0.95:
            # explicit lists of assignments, with the same parameters in every point or not
            names = rng.sample(['a', 'b', 'c'], rng.choice([1, 2]))
            pts = []
            for _ in range(rng.choice([1, 2, 3])):
                use = names if rng.random() < 0.75 else rng.sample(['a', 'b', 'c'], rng.choice([1, 2]))
                pts.append(cirq.ParamResolver({nm: rng.choice([0.0, 0.5, -1.25, 3.0]) for nm in use}))
            return cirq.ListSweep(pts)
        return cirq.Points(key, [rng.choice([1, 2, 7])])
    kids = [rand_sweep(cirq, rng, depth - 1) for _ in range(rng.choice([1, 2, 2, 3]))]
    op = rng.choice(['product', 'zip', 'ziplongest', 'concat'])
    try:
        if op == 'product':
            return cirq.Product(*kids)
        if op == 'zip':
            return cirq.Zip(*kids)
        if op == 'ziplongest':
            return cirq.ZipLongest(*kids)
        return cirq.Concat(*kids)
    except ValueError:
        return kids[0]


def tuples_of(sweep):
    return [sorted((str(k), float(v)) for k, v in r.param_dict.items()) for r in sweep]


def check_sweeps(ctx, cirq, cg, n):
    from cirq_google.api import v2

    rng = ctx.substream('sweeps')
    for i in range(n):
        s = rand_sweep(cirq, rng, rng.choice([0, 1, 2, 3]))
        for f64 in (False, True):
            try:
                proto = v2.sweep_to_proto(s, use_float64=f64)
            except ValueError as e:
                ctx.count('sweep_rejected', str(e)[:40])
                continue
            except (IndexError, TypeError, KeyError) as e:
                ctx.report_witness('sweep:unreadable', f'sweep_to_proto crashes on a valid sweep: {type(e).__name__}: {str(e)[:80]}',
                                   {'lines': [{'sweep': repr(s), 'use_float64': f64}], 'impl_out': [type(e).__name__], 'spec_out': ['a message'], 'theorem_or_correspondence': 'sweep round trip (assignments)'})
                continue
            rep = {'lines': [{'sweep': repr(s), 'use_float64': f64}], 'theorem_or_correspondence': 'sweep round trip (assignments)'}
            try:
                back = v2.sweep_from_proto(proto)
            except ValueError as e:
                ctx.report_witness('sweep:unreadable', f'sweep_from_proto cannot read what sweep_to_proto wrote: {str(e)[:100]}', dict(rep, impl_out=[str(e)[:200]], spec_out=[repr(s)]))
                continue
            ctx.case(['sweep', repr(s), f64], len(s) >= 2)
            ctx.count('check', 'sweep-roundtrip')
            want, got = tuples_of(s), tuples_of(back)
            tol = 1e-12 if f64 else 1e-6
            same = len(want) == len(got) and all(len(a) == len(b) and all(ka == kb and abs(va - vb) <= tol * max(1, abs(va)) for (ka, va), (kb, vb) in zip(a, b)) for a, b in zip(want, got))
            def metas(sw):
                if hasattr(sw, 'metadata'):
                    return [repr(getattr(sw, 'metadata', None))]
                kids = getattr(sw, 'sweeps', None) or getattr(sw, 'factors', None) or []
                return [m for k_ in kids for m in metas(k_)]

            # (a ListSweep comes back as a zip of points: only the metadata that exist are compared)
            if [m for m in metas(back) if m != 'None'] != [m for m in metas(s) if m != 'None']:
                ctx.report_witness('sweep:metadata', 'sweep metadata (device parameters) is not preserved by the sweep round trip', dict(rep, impl_out=[metas(back)], spec_out=[metas(s)]))
            if not same or len(back) != len(s) or back.keys != s.keys:
                ctx.report_witness('sweep:roundtrip', 'sweep_from_proto(sweep_to_proto(s)) does not denote the assignments of s', dict(rep, impl_out=[repr(back), got[:6]], spec_out=[repr(s), want[:6]]))
        # run context
        if i % 4 == 0:
            try:
                rc = v2.run_context_to_proto(s, repetitions=rng.choice([1, 100]))
                back = v2.sweep_from_proto(rc.parameter_sweeps[0].sweep)
                ctx.count('check', 'run-context')
                if tuples_of(back) != [[(k, F32(v) if not float(v).is_integer() else v) for k, v in t] for t in tuples_of(s)] and len(back) != len(s):
                    ctx.report_witness('sweep:run-context', 'run context sweep differs', {'lines': [{'sweep': repr(s)}], 'impl_out': [repr(back)], 'spec_out': [repr(s)], 'theorem_or_correspondence': 'run context'})
            except ValueError as e:
                ctx.count('sweep_rejected', 'rc:' + str(e)[:40])


def check_unit_sweeps(ctx, cirq, cg, n):
    """sweeps whose values carry units (tunits): the round trip denotes the same physical values, also when the end points of
    a Linspace or the points of a Points sweep are given in different (compatible) units"""
    try:
        import tunits
    except ImportError:
        ctx.count('unit_sweeps', 'tunits-missing')
        return
    from cirq_google.api import v2

    rng = ctx.substream('unit-sweeps')
    fams = {'time': [tunits.units.ns, tunits.units.us, tunits.units.ms], 'freq': [tunits.units.MHz, tunits.units.GHz]}
    for _ in range(n):
        fam = rng.choice(list(fams))
        units, base = fams[fam], fams[fam][0]
        u = lambda: rng.choice(units)
        if rng.random() < 0.5:
            s = cirq.Linspace('t', rng.choice([0, 1, 2.5]) * u(), rng.choice([1, 3, 10]) * u(), rng.choice([1, 2, 3, 5]))
        else:
            s = cirq.Points('t', [rng.choice([0.5, 1, 2, 3]) * u() for _ in range(rng.randint(1, 4))])
        if rng.random() < 0.3:
            s = cirq.Zip(s, cirq.Points('b', list(range(len(s)))))
        for f64 in (False, True):
            rep = {'lines': [{'sweep': repr(s), 'use_float64': f64}], 'theorem_or_correspondence': 'sweep round trip (assignments)'}
            try:
                back = v2.sweep_from_proto(v2.sweep_to_proto(s, use_float64=f64))
            except (ValueError, TypeError) as e:
                ctx.count('sweep_rejected', 'units:' + str(e)[:40])
                continue
            ctx.count('check', 'sweep-roundtrip:units')
            ctx.case(['unit-sweep', repr(s), f64], len(s) >= 2)
            val = lambda v: float(v[base]) if hasattr(v, '__getitem__') else float(v)
            want = [sorted((str(k), val(v)) for k, v in r.param_dict.items()) for r in s]
            try:
                got = [sorted((str(k), val(v)) for k, v in r.param_dict.items()) for r in back]
            except Exception as e:
                got = f'{type(e).__name__}: {e}'[:100]
            tol = 1e-9 if f64 else 2e-6
            same = isinstance(got, list) and len(got) == len(want) and all(len(a) == len(b) and all(ka == kb and abs(va - vb) <= tol * max(1, abs(va)) for (ka, va), (kb, vb) in zip(a, b)) for a, b in zip(want, got))
            if not same:
                ctx.report_witness('sweep:roundtrip:units', 'a sweep over values with units does not round-trip to the same physical values', dict(rep, impl_out=[repr(got)[:500]], spec_out=[repr(want)[:500]]))


# ------------------------------------------------------------------------------ devices
def check_devices(ctx, cirq, cg, n):
    rng = ctx.substream('devices')
    for i in range(n):
        rows, cols = rng.randint(1, 3), rng.randint(2, 3)
        grid = [cirq.GridQubit(r, c) for r in range(rows) for c in range(cols)]
        pairs = [(a, b) for a in grid for b in grid if a < b and a.is_adjacent(b) and rng.random() < 0.8]
        if not pairs:
            continue
        fams = rng.sample([cirq.GateFamily(cirq.CZ), cirq.GateFamily(cg.SYC), cirq.GateFamily(cirq.SQRT_ISWAP), cirq.GateFamily(cirq.PhasedXZGate), cirq.GateFamily(cirq.ZPowGate, tags_to_ignore=[cg.PhysicalZTag()]),
                           cirq.GateFamily(cirq.ZPowGate, tags_to_accept=[cg.PhysicalZTag()]), cirq.GateFamily(cirq.MeasurementGate), cirq.GateFamily(cirq.WaitGate), cg.FSimGateFamily(gates_to_accept=[cirq.CZ])],
                          rng.randint(2, 6))
        gateset = cirq.Gateset(*fams)
        try:
            dev = cg.GridDevice._from_device_information(qubit_pairs=pairs, gateset=gateset)
            spec = dev.to_proto()
            dev2 = cg.GridDevice.from_proto(spec)
        except (ValueError, KeyError) as e:
            ctx.count('device_rejected', str(e)[:50])
            continue
        ctx.case(['device', sorted(map(str, pairs)), sorted(map(str, fams))], True)
        ctx.count('check', 'device-roundtrip')
        rep = {'lines': [{'pairs': [repr(p) for p in pairs], 'gateset': repr(gateset)}], 'theorem_or_correspondence': 'device spec round trip'}
        if dev2.metadata.qubit_set != dev.metadata.qubit_set or dev2.metadata.qubit_pairs != dev.metadata.qubit_pairs:
            ctx.report_witness('device:roundtrip:qubits', 'GridDevice.from_proto(d.to_proto()) has different qubits or pairs', dict(rep, impl_out=[repr(dev2.metadata.qubit_pairs)[:500]], spec_out=[repr(dev.metadata.qubit_pairs)[:500]]))
        # a specification may list further target sets that are not couplings (e.g. readout groups of two qubits): they add no pair
        from cirq_google.api import v2 as _v2
        loose = [(a, b) for a in sorted({q for p in pairs for q in p}) for b in sorted({q for p in pairs for q in p}) if a < b and frozenset((a, b)) not in {frozenset(p) for p in pairs}]
        if loose:
            a_, b_ = rng.choice(loose)
            spec2 = _v2.device_pb2.DeviceSpecification()
            spec2.CopyFrom(spec)
            ts = spec2.valid_targets.add()
            ts.name = 'readout_groups'
            ts.target_ordering = _v2.device_pb2.TargetSet.SUBSET_PERMUTATION
            ts.targets.add().ids.extend([_v2.qubit_to_proto_id(a_), _v2.qubit_to_proto_id(b_)])
            try:
                dev3 = cg.GridDevice.from_proto(spec2)
                ctx.count('check', 'device-extra-target-set')
                bogus = dev3.metadata.qubit_pairs - dev.metadata.qubit_pairs
                try:
                    dev3.validate_operation(cirq.CZ(a_, b_))
                    accepted = cirq.CZ(a_, b_) in dev3.metadata.gateset
                except ValueError:
                    accepted = False
                if bogus or accepted:
                    ctx.report_witness('device:spec:non-coupling-target', 'a two-qubit target of a non-symmetric target set of the specification (e.g. a readout group) is treated as a coupled pair',
                                       dict(rep, impl_out=[repr(sorted(map(sorted, bogus)))[:300], accepted], spec_out=['no additional pair', False]))
            except (ValueError, KeyError) as e:
                ctx.count('device_rejected', 'extra-target:' + str(e)[:40])
        # validate decisions agree between the device and its round-tripped copy, and with the specification read directly
        valid_q = {q for p in pairs for q in p}
        valid_pairs = {frozenset(p) for p in pairs}
        cand = []
        for _ in range(12):
            g = rng.choice([cirq.CZ, cg.SYC, cirq.SQRT_ISWAP, cirq.PhasedXZGate(x_exponent=0.2, z_exponent=0.1, axis_phase_exponent=0), cirq.Z**0.3, cirq.X, cirq.H, cirq.ISWAP, cirq.wait_gate if hasattr(cirq, 'wait_gate') else cirq.WaitGate(cirq.Duration(nanos=4)),
                            cirq.MeasurementGate(1, key='m')])
            k = cirq.num_qubits(g)
            qs = rng.sample(grid + [cirq.GridQubit(7, 7)], k)
            op = g.on(*qs)
            if isinstance(g, cirq.ZPowGate) and rng.random() < 0.5:
                op = op.with_tags(cg.PhysicalZTag())
            cand.append(op)
        # sub-circuit operations whose qubit map decides where the body acts: the verdict is that of the mapped body, operation by operation
        subs = []
        if len(grid) >= 3:
            for _ in range(6):
                body_qs = cirq.LineQubit.range(3)
                body = cirq.FrozenCircuit(cirq.CZ(body_qs[0], body_qs[1]), cirq.X(body_qs[2]))
                targets = rng.sample(grid + [cirq.GridQubit(7, 7)], 3)
                subs.append((cirq.CircuitOperation(body, qubit_map=dict(zip(body_qs, targets))), [cirq.CZ(targets[0], targets[1]), cirq.X(targets[2])]))
                inner = cirq.FrozenCircuit(cirq.CZ(*rng.sample(grid, 2)), cirq.X(rng.choice(grid)))
                if len(inner.all_qubits()) == 3:
                    perm = sorted(inner.all_qubits())
                    shuffled = rng.sample(perm, 3)
                    subs.append((cirq.CircuitOperation(inner, qubit_map=dict(zip(perm, shuffled))), list(cirq.CircuitOperation(inner, qubit_map=dict(zip(perm, shuffled))).mapped_circuit().all_operations())))
        for sub, flat in subs:
            def ok_flat(o):
                return o in dev.metadata.gateset and all(q in valid_q for q in o.qubits) and (len(o.qubits) < 2 or frozenset(o.qubits) in valid_pairs)
            want = all(ok_flat(o) for o in flat)
            verdicts = {}
            for name, f in (('validate_operation', lambda: dev.validate_operation(sub)), ('validate_circuit', lambda: dev.validate_circuit(cirq.Circuit(sub))), ('validate_moment', lambda: dev.validate_moment(cirq.Moment(sub)))):
                try:
                    f()
                    verdicts[name] = True
                except ValueError:
                    verdicts[name] = False
            ctx.count('check', f'device-validate-subcircuit:{want}')
            if any(v != want for v in verdicts.values()):
                ctx.report_witness('device:validate:subcircuit', 'a sub-circuit operation with a qubit map is not validated as its mapped body (operation by operation)', dict(rep, impl_out=[repr(sub)[:600], verdicts], spec_out=[want]))
        for op in cand:
            def accepts(d):
                try:
                    d.validate_operation(op)
                    return True
                except ValueError:
                    return False
            a1, a2 = accepts(dev), accepts(dev2)
            # (the device widens the families it was given to the gate kinds of the specification, e.g. X/Y powers under PhasedXZ: its own gateset is the reference)
            want = op in dev.metadata.gateset and all(q in valid_q for q in op.qubits) and (len(op.qubits) < 2 or frozenset(op.qubits) in valid_pairs)
            ctx.count('check', f'device-validate:{a1}')
            if a1 != a2:
                ctx.report_witness('device:roundtrip:validate', 'the device read back from its specification validates an operation differently', dict(rep, impl_out=[repr(op), a2], spec_out=[a1]))
            if a1 != want:
                ctx.report_witness('device:validate', 'validate_operation does not accept exactly the operations in the gateset on the device qubits and pairs', dict(rep, impl_out=[repr(op), a1], spec_out=[want]))


def run(ctx: common.Run):
    import cirq
    import cirq_google as cg
    import sympy

    ctx.rule = (
        'bits: arrays of 0..200 bits; results: 1..3 keys x 1..4 grid qubits x 1..3 instances x 1..40 repetitions, reordered measurement info; '
        'programs: circuits of 1..8 operations over the serializable vocabulary (X/Y/Z/H/PhasedX/PhasedXZ/CZ/ISWAP/FSim/SYC/Clifford/identity/wait/reset/'
        'measure/internal gates, numeric and symbolic arguments, PhysicalZ / calibration / internal tags, classical controls, nested circuit operations with '
        'repetitions, repeated identical operations), single and multi-program forms; sweeps: nestings (depth <= 3) of Product/Zip/ZipLongest/Concat over '
        'Points/Linspace/UnitSweep, float32 and float64 encodings, run contexts; devices: random grids, pair subsets and gate families; non-trivial = '
        '>= 2 constants / >= 2 assignments / non-multiple-of-8 lengths; distinct by repr'
    )
    ctx.trusted += [
        'harness/props/c16.py + lean/Driver/C16.lean (T2 on generated inputs only)',
        'protobuf library (message equality, deterministic serialization, oneof presence)',
        'the round-trip oracle compares operations structurally, allowing 1e-6 relative error on real arguments and a global phase; '
        'sweeps are compared through the assignments they denote',
        'v1 formats, calibration/metrics messages, engine_result wrappers and the stim/tunits extensions are outside the model',
    ]
    ok, failing = ctx.lean(MODULES)
    if not ok:
        ctx.report_unproved('lean-build', f'{failing}', {'theorem_or_correspondence': failing})
        return
    n = 60 if ctx.tier == 'quick' else 1200
    check_bits(ctx, cirq, cg, n)
    check_results(ctx, cirq, cg, n)
    check_programs(ctx, cirq, cg, sympy, n * 2)
    check_array_arguments(ctx, cirq, cg)
    check_sweeps(ctx, cirq, cg, n * 2)
    check_unit_sweeps(ctx, cirq, cg, max(20, n // 2))
    check_devices(ctx, cirq, cg, max(10, n // 3))


def replay(ctx, rep):
    print(json.dumps(rep, indent=1)[:3000])
    return 1
