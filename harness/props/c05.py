"""C05 — Circuits stay well-formed and order-preserving under any edit history.

Lean: CirqVerif.Model.C05 mirrors Circuit.insert & friends; CirqVerif.Props.C05 proves well-formedness,
conservation and placement facts for all histories.  Tie (T2): random / exhaustive-small histories of
public calls are run on the real `cirq.Circuit` and on the model; after every call the moment structure,
return value and error kind are compared, the property-level specification (Lean `specInsert`) is
evaluated on the implementation's own before/after circuits, and every cached summary is compared
with a freshly rebuilt equal circuit.
"""
from __future__ import annotations

import functools
import itertools
import json

from harness import common

MODULES = ['CirqVerif.Props.C05', 'CirqVerif.Props.C05Concat', 'CirqVerif.Props.C05Lookup']
STRATS = ['earliest', 'new', 'inline', 'new_then_inline', 'latest']
NQ = 4
KEYS = 2


# ------------------------------------------------------------------------------ building cirq objects
class World:
    def __init__(self, cirq):
        self.cirq = cirq
        self.qs = cirq.LineQubit.range(NQ)
        self.S = {
            'earliest': cirq.InsertStrategy.EARLIEST,
            'new': cirq.InsertStrategy.NEW,
            'inline': cirq.InsertStrategy.INLINE,
            'new_then_inline': cirq.InsertStrategy.NEW_THEN_INLINE,
            'latest': cirq.InsertStrategy.LATEST,
        }

    def op(self, d):
        cirq = self.cirq
        qs = [self.qs[i] for i in d['q']]
        if d['m'] and d['c']:
            # both a measurement key and a control key: a sub-circuit operation
            inner = cirq.FrozenCircuit(
                cirq.measure(*qs, key=f'k{d["m"][0]}'), cirq.X(qs[0]).with_classical_controls(*[f'k{k}' for k in d['c']])
            )
            return cirq.CircuitOperation(inner).with_tags(('id', d['id']))
        if d['m']:
            base = cirq.measure(*qs, key=f'k{d["m"][0]}')
        elif not qs:
            base = cirq.global_phase_operation(1j)
        elif len(qs) == 1:
            base = cirq.X(qs[0])
        elif len(qs) == 2:
            base = cirq.CZ(*qs)
        else:
            base = cirq.CCZ(*qs) if len(qs) == 3 else cirq.IdentityGate(len(qs)).on(*qs)
        if d['c']:
            base = base.with_classical_controls(*[f'k{k}' for k in d['c']])
        return base.with_tags(('id', d['id']))

    def mop(self, m):
        if 'op' in m:
            return self.op(m['op'])
        return self.cirq.Moment([self.op(o) for o in m['mom']])

    def desc(self, op):
        """cirq op -> description (read back from the live object, not from our bookkeeping)"""
        cirq = self.cirq
        ident = [t[1] for t in op.tags if isinstance(t, tuple) and t and t[0] == 'id']
        return {
            'id': ident[0] if ident else 10**6,
            'q': [q.x for q in op.qubits],
            'm': sorted(int(str(k)[1:]) for k in cirq.measurement_key_names(op)),
            'c': sorted(int(str(k)[1:]) for k in cirq.control_keys(op)),
        }

    def circuit_desc(self, c):
        return [[self.desc(o) for o in m.operations] for m in c.moments]

    def ids(self, c):
        return [sorted(self.desc(o)['id'] for o in m.operations) for m in c.moments]


# ------------------------------------------------------------------------------ generators
class Gen:
    def __init__(self, rng):
        self.rng = rng
        self.next_id = 1

    def op(self, kind=None):
        r = self.rng
        kind = kind or r.choices(['u1', 'u2', 'u3', 'meas', 'cc', 'gp', 'mcc'], [30, 22, 5, 18, 15, 5, 5])[0]
        d = {'id': self.next_id, 'q': [], 'm': [], 'c': []}
        self.next_id += 1
        if kind == 'u1':
            d['q'] = [r.randrange(NQ)]
        elif kind == 'u2':
            d['q'] = r.sample(range(NQ), 2)
        elif kind == 'u3':
            d['q'] = r.sample(range(NQ), 3)
        elif kind == 'meas':
            d['q'] = r.sample(range(NQ), r.choice([1, 1, 2]))
            d['m'] = [r.randrange(KEYS)]
        elif kind == 'cc':
            d['q'] = [r.randrange(NQ)]
            d['c'] = sorted(r.sample(range(KEYS), r.choice([1, 1, 2])))
        elif kind == 'gp':
            if r.random() < 0.5:
                d['c'] = [r.randrange(KEYS)]
        elif kind == 'mcc':
            d['q'] = [r.randrange(NQ)]
            d['m'] = [r.randrange(KEYS)]
            d['c'] = [(d['m'][0] + 1) % KEYS]  # an operation cannot be controlled by the key it measures
        return d

    def moment(self):
        r = self.rng
        ops, used = [], set()
        for _ in range(r.choice([0, 1, 1, 2, 3])):
            o = self.op()
            if used & set(o['q']):
                continue
            used |= set(o['q'])
            ops.append(o)
        return ops

    def mops(self, lo=0, hi=4, moments=True):
        r = self.rng
        out = []
        for _ in range(r.randint(lo, hi)):
            if moments and r.random() < 0.15:
                out.append({'mom': self.moment()})
            else:
                out.append({'op': self.op()})
        return out

    def history(self, length, state_len_hint=3):
        r = self.rng
        calls = [{'call': 'new', 'strategy': r.choice(STRATS + ['earliest'] * 3), 'mops': self.mops(0, 5)}]
        for _ in range(length):
            kind = r.choices(
                ['append', 'insert', 'insert_into_range', 'batch_remove', 'batch_replace', 'batch_insert_into', 'batch_insert',
                 'clear', 'setitem', 'delitem', 'imul', 'q_all_qubits', 'q_mkeys', 'q_next', 'q_prev', 'q_earliest', 'rebuild'],
                [22, 30, 5, 4, 4, 4, 6, 3, 3, 3, 1, 3, 2, 3, 3, 4, 5],
            )[0]
            c = {'call': kind}
            if kind == 'append':
                c.update(strategy=r.choice(STRATS + ['earliest'] * 2), mops=self.mops(0, 4))
            elif kind == 'insert':
                c.update(strategy=r.choice(STRATS), mops=self.mops(0, 4), index=r.choice([-7, -2, -1, 0, 0, 1, 1, 2, 2, 3, 4, 9]))
            elif kind == 'insert_into_range':
                a = r.choice([0, 0, 1, 2, 5, -1])
                c.update(ops=[m['op'] for m in self.mops(1, 3, moments=False)], start=a, end=a + r.choice([0, 1, 2, 3]))
            elif kind in ('batch_remove', 'batch_replace'):
                c['pick'] = [[r.randrange(6), r.random() < 0.15] for _ in range(r.choice([1, 1, 2]))]  # resolved at run time
                if kind == 'batch_replace':
                    c['new'] = [self.op() for _ in c['pick']]
            elif kind == 'batch_insert_into':
                c['items'] = [[r.choice([-1, 0, 1, 2, 3, 7]), [m['op'] for m in self.mops(1, 2, moments=False)]] for _ in range(r.choice([1, 2]))]
            elif kind == 'batch_insert':
                c['items'] = [[r.choice([0, 1, 1, 2, 3, 5]), self.mops(1, 2)] for _ in range(r.choice([1, 2, 3]))]
            elif kind == 'clear':
                c.update(qubits=r.sample(range(NQ), r.choice([1, 2])), indices=[r.choice([-1, 0, 1, 2, 3, 8]) for _ in range(r.choice([1, 2]))])
            elif kind == 'setitem':
                c.update(index=r.choice([-1, 0, 1, 2, 6]), moment=self.moment())
            elif kind == 'delitem':
                c.update(index=r.choice([-1, 0, 1, 2, 6]))
            elif kind == 'imul':
                c.update(n=r.choice([0, 1, 2]))
            elif kind == 'q_next':
                c.update(qubits=r.sample(range(NQ), r.choice([1, 2])), start=r.choice([0, 1, 2, 5]))
                if r.random() < 0.5:
                    c.update(max_distance=r.choice([0, 1, 2, 3, 9]))
            elif kind == 'q_prev':
                c.update(qubits=r.sample(range(NQ), r.choice([1, 2])), end=r.choice([None, 0, 1, 2, 3, 9, 13]))
                if r.random() < 0.5:
                    c.update(max_distance=r.choice([0, 1, 2, 3, 5, 9, 12]))
            elif kind == 'rebuild':
                c.update(how=r.choice(REBUILDS))
            elif kind == 'q_earliest':
                o = self.op()
                c.update(op=o, end=r.choice([None, None, 0, 1, 2, 9]))
            calls.append(c)
        return calls


# ------------------------------------------------------------------------------ running the implementation
# public ways of obtaining an equal circuit: the model treats each as the identity on the moments (Model.C05.imul 1)
REBUILDS = ['copy', 'with_tags', 'untagged', 'freeze_unfreeze', 'unfreeze_copy', 'slice', 'transform_qubits', 'add_empty', 'from_moments']  # (map_operations(identity) drops empty moments: 'same basic structure' only)


def rebuild(cirq, w, circ, how):
    if how == 'copy':
        return circ.copy()
    if how == 'with_tags':
        return circ.with_tags('t%d' % len(circ.tags))
    if how == 'untagged':
        return circ.untagged
    if how == 'freeze_unfreeze':
        return circ.freeze().unfreeze()
    if how == 'unfreeze_copy':
        return circ.unfreeze(copy=True)
    if how == 'slice':
        return circ[:]
    if how == 'transform_qubits':
        return circ.transform_qubits(lambda q: q)
    if how == 'add_empty':
        return circ + cirq.Circuit()
    if how == 'from_moments':
        return cirq.Circuit.from_moments(*circ.moments, tags=circ.tags)
    raise common.InfraError(f'unknown rebuild {how}')


def to_model(call):
    if call['call'] != 'rebuild':
        return call
    return {'call': 'q_all_qubits'} if call.get('noop') else {'call': 'imul', 'n': 1}


def resolve_picks(w, circ, call):
    """batch_remove / batch_replace refer to operations present in the live circuit (or a bogus one)"""
    flat = [(i, o) for i, m in enumerate(circ.moments) for o in m.operations]
    items = []
    for n, (pick, bogus) in enumerate(call['pick']):
        if not flat:
            i, d = 0, {'id': 999000 + n, 'q': [0], 'm': [], 'c': []}
        else:
            i, o = flat[pick % len(flat)]
            d = w.desc(o)
            if bogus:
                i = (i + 1) % max(len(circ.moments), 1)
        item = [i, d]
        if call['call'] == 'batch_replace':
            item.append(call['new'][n])
        items.append(item)
    out = dict(call)
    out['items'] = items
    out.pop('pick')
    out.pop('new', None)
    return out


def run_impl(w: World, calls):
    """returns (resolved calls, outputs, per-call (before, after) descriptions for spec checks, stale findings)"""
    cirq = w.cirq
    circ = None
    outs, resolved, specs, stale = [], [], [], []
    for call in calls:
        kind = call['call']
        if kind in ('batch_remove', 'batch_replace') and 'pick' in call:
            call = resolve_picks(w, circ, call)
        if kind == 'rebuild' and call['how'] == 'untagged' and circ is not None and not circ.tags:
            call = dict(call, noop=True)  # `untagged` of a circuit without tags is the circuit itself (placement cache included)
        resolved.append(call)
        before = w.circuit_desc(circ) if circ is not None else []
        try:
            ret = None
            if kind == 'new':
                circ = cirq.Circuit(*[w.mop(m) for m in call['mops']], strategy=w.S[call['strategy']])
            elif kind == 'append':
                circ.append([w.mop(m) for m in call['mops']], strategy=w.S[call['strategy']])
            elif kind == 'insert':
                ret = circ.insert(call['index'], [w.mop(m) for m in call['mops']], strategy=w.S[call['strategy']])
            elif kind == 'insert_into_range':
                ret = circ.insert_into_range([w.op(o) for o in call['ops']], call['start'], call['end'])
            elif kind == 'batch_remove':
                circ.batch_remove([(i, w.op(o)) for i, o in call['items']])
            elif kind == 'batch_replace':
                circ.batch_replace([(i, w.op(o), w.op(n)) for i, o, n in call['items']])
            elif kind == 'batch_insert_into':
                circ.batch_insert_into([(i, [w.op(o) for o in os]) for i, os in call['items']])
            elif kind == 'batch_insert':
                circ.batch_insert([(i, [w.mop(m) for m in ms]) for i, ms in call['items']])
            elif kind == 'clear':
                circ.clear_operations_touching([w.qs[q] for q in call['qubits']], call['indices'])
            elif kind == 'setitem':
                circ[call['index']] = cirq.Moment([w.op(o) for o in call['moment']])
            elif kind == 'delitem':
                del circ[call['index']]
            elif kind == 'imul':
                circ *= call['n']
            elif kind == 'rebuild':
                if call.get('noop'):
                    ret = sorted(q.x for q in circ.all_qubits())
                tags_before = circ.tags
                circ = rebuild(cirq, w, circ, call['how'])
                want_tags = {'with_tags': tags_before + ('t%d' % len(tags_before),), 'untagged': ()}.get(call['how'], tags_before)
                if tuple(circ.tags) != tuple(want_tags):
                    stale.append((len(outs), 'tags', repr(circ.tags), repr(want_tags)))
            elif kind == 'q_all_qubits':
                ret = sorted(q.x for q in circ.all_qubits())
            elif kind == 'q_mkeys':
                ret = sorted(int(k[1:]) for k in circ.all_measurement_key_names())
            elif kind == 'q_next':
                ret = circ.next_moment_operating_on([w.qs[q] for q in call['qubits']], call['start'], **({'max_distance': call['max_distance']} if 'max_distance' in call else {}))
            elif kind == 'q_prev':
                ret = circ.prev_moment_operating_on([w.qs[q] for q in call['qubits']], call['end'], **({'max_distance': call['max_distance']} if 'max_distance' in call else {}))
            elif kind == 'q_earliest':
                ret = circ.earliest_available_moment(w.op(call['op']), end_moment_index=call['end'])
            else:
                raise common.InfraError(f'unknown call {kind}')
            outs.append({'ret': ret, 'moments': w.ids(circ)})
        except ValueError:
            outs.append({'err': 'ValueError'})
            break
        except IndexError:
            outs.append({'err': 'IndexError'})
            break
        except TypeError:
            outs.append({'err': 'TypeError'})
            break
        after = w.circuit_desc(circ)
        specs.append((call, before, after))
        # every cached summary must answer as a freshly rebuilt equal circuit would; calling them here
        # also (re)populates the caches, so a missing invalidation shows at the next mutation
        fresh = cirq.Circuit(list(circ.moments), tags=circ.tags)
        checks = {
            'all_qubits': (circ.all_qubits(), fresh.all_qubits()),
            'is_measurement': (cirq.is_measurement(circ), cirq.is_measurement(fresh)),
            'is_parameterized': (cirq.is_parameterized(circ), cirq.is_parameterized(fresh)),
            'parameter_names': (cirq.parameter_names(circ), cirq.parameter_names(fresh)),
            'freeze': (circ.freeze(), fresh.freeze()),
            'eq': (circ, fresh),
            'mkeys': (circ.all_measurement_key_names(), fresh.all_measurement_key_names()),
            'frozen_moments': (w.ids(circ.freeze()), w.ids(circ)),
        }
        # a circuit thawed from the frozen view belongs to the caller: editing it changes nothing anybody else sees
        fz = circ.freeze()
        thaw = fz.unfreeze(copy=False)
        thaw.append(cirq.X(cirq.LineQubit(99)))
        checks['thawed_copy_is_private:unfreeze'] = (fz.unfreeze(), fresh)
        checks['thawed_copy_is_private:unfreeze(copy=False)'] = (fz.unfreeze(copy=False), fresh)
        checks['thawed_copy_is_private:frozen*2'] = ((fz * 2).unfreeze(), fresh * 2)
        checks['thawed_copy_is_private:frozen'] = (fz, fresh.freeze())
        for name, (a, b) in checks.items():
            if a != b:
                stale.append((len(outs) - 1, name, repr(a)[:200], repr(b)[:200]))
    return resolved, outs, specs, stale


def spec_requests(specs):
    """Lean spec requests for the insert-like calls of a history"""
    reqs, meta = [], []
    for call, before, after in specs:
        kind = call['call']
        if kind in ('batch_insert', 'insert_into_range'):
            blen = len(before)
            items = []
            if kind == 'batch_insert':
                # ascending index (stable); trees given for one index are inserted in reverse; each index group is one EARLIEST insert
                order = sorted(range(len(call['items'])), key=lambda i: call['items'][i][0])
                by_index = {}
                for i in order:
                    by_index.setdefault(call['items'][i][0], []).append(call['items'][i][1])
                for idx in sorted(by_index):
                    k = max(min(idx, blen), 0)
                    trees = by_index[idx][::-1]
                    n_ops = sum(1 if 'op' in m else len(m['mom']) for t in trees for m in t)
                    for t in trees:
                        for m in t:
                            items.append({'lo': k, 'hi': k, 'share': k < blen and n_ops > 1, 'mop': m})
            else:
                n_ops = len(call['ops'])
                for o in call['ops']:
                    items.append({'lo': call['start'], 'hi': call['end'], 'share': call['end'] < blen and n_ops > 1, 'mop': {'op': o}})
            ids = [o['id'] for m in before for o in m] + [o['id'] for it in items for o in ([it['mop']['op']] if 'op' in it['mop'] else it['mop']['mom'])]
            reqs.append({'p': 'C05', 'op': 'spec_place', 'before': before, 'after': after, 'inserted': items, 'check_order': len(ids) == len(set(ids))})
            meta.append((dict(call, strategy='earliest'), 0, blen, len(items)))
            continue
        if kind not in ('append', 'insert', 'new'):
            continue
        mops = call['mops']
        n_ops = sum(1 if 'op' in m else len(m['mom']) for m in mops)
        blen = len(before)
        if kind == 'insert':
            idx = call['index']
            k = max(min(idx if idx >= 0 else blen + idx, blen), 0)
        else:
            k = blen
        allow = call['strategy'] == 'earliest' and k < blen and n_ops > 1
        ids = [o['id'] for m in before for o in m] + [o['id'] for m in mops for o in ([m['op']] if 'op' in m else m['mom'])]
        unique = len(ids) == len(set(ids))  # equal operations present twice (circuit *= n): order of copies is not observable
        reqs.append({'p': 'C05', 'op': 'spec_insert', 'before': before, 'after': after, 'inserted': mops, 'k': k,
                     'allow_share_at_k': allow, 'check_order': unique})
        meta.append((call, k, blen, n_ops))
    return reqs, meta


# ------------------------------------------------------------------------------ check
def check_history(ctx, w, calls, record=True):
    return check_histories(ctx, w, [calls], record)[0]


def check_histories(ctx, w, histories, record=True):
    """returns per history a list of problems: ('witness'|'corr', signature, what, replay)"""
    impl = [run_impl(w, calls) for calls in histories]
    model_outs = ctx.driver.ask([{'p': 'C05', 'op': 'history', 'calls': [to_model(c) for c in r[0]]} for r in impl])
    spec_reqs, spec_meta, spans = [], [], []
    for r in impl:
        sreqs, smeta = spec_requests(r[2])
        spans.append((len(spec_reqs), len(spec_reqs) + len(sreqs)))
        spec_reqs += sreqs
        spec_meta += smeta
    spec_outs = ctx.driver.ask(spec_reqs)
    result = []
    for (resolved, impl_out, specs, stale), model_out, (lo, hi) in zip(impl, model_outs, spans):
        problems = []
        for (call, k, blen, n_ops), req, so in zip(spec_meta[lo:hi], spec_reqs[lo:hi], spec_outs[lo:hi]):
            for name, okv in so.items():
                if not okv:
                    problems.append(('witness', f'spec:{name}:{call["call"]}:{call["strategy"]}',
                                     f'{call["call"]}({call["strategy"]}) violates {name}',
                                     {'lines': resolved, 'failing_call': call, 'impl_out': impl_out, 'spec_out': so, 'spec_request': req,
                                      'theorem_or_correspondence': f'specInsert.{name}'}))
        for (pos, name, a, b) in stale:
            problems.append(('witness', f'stale:{name}:{resolved[pos]["call"]}', f'query {name} differs from a freshly rebuilt equal circuit after {resolved[pos]["call"]}',
                             {'lines': resolved[: pos + 1], 'impl_out': [a], 'spec_out': [b], 'theorem_or_correspondence': 'summary_coherent'}))
        if impl_out != model_out:
            n = next((i for i, (a, b) in enumerate(itertools.zip_longest(impl_out, model_out)) if a != b), 0)
            qkind = resolved[min(n, len(resolved) - 1)]['call']
            if qkind.startswith('q_') and n < len(impl_out) and n < len(model_out) and 'moments' in impl_out[n] and impl_out[n].get('moments') == model_out[n].get('moments'):
                # the circuits agree and only the answer of a query differs: the model's query functions are the plain definitions
                # (first / last moment touching the qubits, set of qubits / keys), i.e. what a freshly rebuilt circuit must answer
                problems.append(('witness', f'query:{qkind}', f'{qkind} does not answer what the moments of the circuit say',
                                 {'lines': resolved[: n + 1], 'impl_out': impl_out[n: n + 1], 'spec_out': model_out[n: n + 1], 'theorem_or_correspondence': f'Model.C05 query definition ({qkind})'}))
            problems.append(('corr', f'T2:history:{resolved[min(n, len(resolved)-1)]["call"]}', 'implementation and Lean model disagree on a history',
                             {'lines': resolved[: n + 1], 'impl_out': impl_out[: n + 1], 'model_out': model_out[: n + 1],
                              'theorem_or_correspondence': 'T2 correspondence harness/props/c05.py <-> CirqVerif.Model.C05'}))
        if record:
            nontrivial = any(
                c['call'] in ('insert', 'append') and c['mops'] and i > 0 for i, c in enumerate(resolved)
            ) and len(impl_out) > 1
            for c in resolved:
                ctx.count('call', c['call'])
                if 'strategy' in c:
                    ctx.count('strategy', c['strategy'])
            ctx.count('outcome', 'ok' if 'err' not in impl_out[-1] else impl_out[-1]['err'])
            ctx.count('history_len', str(len(resolved)))
            ctx.case(resolved, nontrivial, sample=resolved if nontrivial and len(ctx.samples) < 3 else None)
        result.append(problems)
    return result


def shrink(ctx, w, calls, sig):
    """delta debugging on the call list (the first call stays) while the same problem persists"""
    def fails(cs):
        try:
            return any(p[1] == sig for p in check_history(ctx, w, cs, record=False))
        except common.InfraError:
            return False
    cur = list(calls)
    changed = True
    while changed and len(cur) > 1:
        changed = False
        for i in range(len(cur) - 1, 0, -1):
            cand = cur[:i] + cur[i + 1:]
            if fails(cand):
                cur, changed = cand, True
    # shrink op trees
    for i, c in enumerate(cur):
        if 'mops' in c:
            j = 0
            while j < len(cur[i]['mops']):
                cand = [dict(x) for x in cur]
                cand[i]['mops'] = cur[i]['mops'][:j] + cur[i]['mops'][j + 1:]
                if fails(cand):
                    cur = cand
                else:
                    j += 1
    return cur


def exhaustive_small(gen_ops):
    """all single-insert histories: base circuit of <=2 appended ops from a small alphabet, then one insert of
    1..2 ops with every strategy and index"""
    alphabet = gen_ops
    for base in itertools.chain([()], itertools.product(range(len(alphabet)), repeat=1), itertools.product(range(len(alphabet)), repeat=2)):
        for ins in itertools.chain(itertools.product(range(len(alphabet)), repeat=1), itertools.product(range(len(alphabet)), repeat=2)):
            for strat in STRATS:
                for idx in (0, 1, 2, -1):
                    nid = itertools.count(1)
                    def mk(a):
                        d = dict(alphabet[a]); d['id'] = next(nid); return {'op': d}
                    yield [
                        {'call': 'new', 'strategy': 'earliest', 'mops': [mk(a) for a in base]},
                        {'call': 'insert', 'strategy': strat, 'index': idx, 'mops': [mk(a) for a in ins]},
                    ]


def run(ctx: common.Run):
    import cirq

    w = World(cirq)
    ctx.rule = (
        'histories of 1..10 public Circuit calls (constructor, append/insert x 5 strategies x indices incl. negative and past the end, '
        'insert_into_range, batch_*, clear_operations_touching, item assignment/deletion, *=, queries) over uniquely tagged unitary / '
        'measurement / classically-controlled / qubit-less operations on 4 qubits and 2 keys; non-trivial = at least one insert/append of a '
        'non-empty tree into an existing circuit; distinct by canonical history hash'
    )
    ctx.trusted += [
        'harness/props/c05.py + lean/Driver/C05.lean (T2 correspondence on generated histories only)',
        'operations are abstracted to (id, qubits, measurement keys, control keys) read back from the live cirq objects',
        'Moment equality is order-insensitive: moments are compared as sorted id lists',
    ]
    ok, failing = ctx.lean(MODULES)
    if not ok:
        ctx.report_unproved('lean-build', f'Lean modules no longer build: {failing}', {'theorem_or_correspondence': failing})
        return
    n = 1200 if ctx.tier == 'quick' else 20000
    rng = ctx.substream('histories')
    seen_corr = False
    todo = []
    # corpus first
    cdir = common.VERIF / 'corpus' / 'C05'
    if cdir.exists():
        for f in sorted(cdir.glob('*.json')):
            todo.append(json.loads(f.read_text())['lines'])
    for i in range(n):
        g = Gen(rng)
        todo.append(g.history(rng.choice([1, 2, 3, 4, 6, 8, 10])))
    if ctx.tier == 'thorough':
        alphabet = [
            {'q': [0], 'm': [], 'c': []}, {'q': [0, 1], 'm': [], 'c': []}, {'q': [1], 'm': [0], 'c': []},
            {'q': [2], 'm': [], 'c': [0]}, {'q': [0], 'm': [0], 'c': []}, {'q': [], 'm': [], 'c': []},
        ]
        todo += list(exhaustive_small(alphabet))
        ctx.extra['exhaustive_small'] = 'all single-insert histories over a 6-op alphabet: base of <=2 ops x insert of 1..2 ops x 5 strategies x 4 indices'
    done_sigs = set()
    for calls, problems in zip(todo, check_histories(ctx, w, todo)):
        for kind, sig, what, replay in problems:
            if sig in done_sigs:
                continue
            done_sigs.add(sig)
            if kind == 'witness':
                small = shrink(ctx, w, calls, sig)
                probs = [p for p in check_history(ctx, w, small, record=False) if p[1] == sig]
                ctx.report_witness(sig, what, probs[0][3] if probs else replay)
            elif not seen_corr:
                seen_corr = True
                small = shrink(ctx, w, calls, sig)
                probs = [p for p in check_history(ctx, w, small, record=False) if p[1] == sig]
                ctx.extra['correspondence_broken'] = probs[0][3] if probs else replay
    check_concat_and_moments(ctx, w)
    if seen_corr and not any(v['kind'] == 'witness' for v in ctx.violations):
        # the correspondence no longer checks; every history above was also run through the property-level
        # specification and the rebuilt-circuit comparison without finding a failing input
        rep = ctx.extra.pop('correspondence_broken')
        ctx.report_unproved('T2:C05-history-correspondence', 'Circuit editing no longer behaves like the Lean model; no input violating the property was found', rep)


def check_concat_and_moments(ctx, w):
    """`concat_ragged` against the placement specification (everything of the first circuit stays before what conflicts with it in
    the second, on qubits and keys), and every way of building a moment rejects overlapping operations"""
    cirq = w.cirq
    rng = ctx.substream('concat')
    n = 150 if ctx.tier == 'quick' else 3000
    reqs, meta = [], []
    for _ in range(n):
        g = Gen(rng)
        ms1 = [g.moment() for _ in range(rng.randint(0, 4))]
        ms2 = [g.moment() for _ in range(rng.randint(0, 4))]
        c1 = cirq.Circuit([cirq.Moment([w.op(o) for o in m]) for m in ms1])
        c2 = cirq.Circuit([cirq.Moment([w.op(o) for o in m]) for m in ms2])
        align = rng.choice([cirq.Alignment.LEFT, cirq.Alignment.RIGHT, cirq.Alignment.FIRST])
        try:
            out = cirq.Circuit.concat_ragged(c1, c2, align=align)
        except ValueError as e:
            ctx.count('concat_error', str(e)[:40])
            continue
        before, after = w.circuit_desc(c1), w.circuit_desc(out)
        items = [{'lo': len(before), 'hi': len(before), 'share': False, 'mop': {'mom': [w.desc(o) for o in m.operations]}} for m in c2.moments]
        reqs.append({'p': 'C05', 'op': 'spec_place', 'before': before, 'after': after, 'inserted': items, 'check_order': True})
        meta.append((c1, c2, align, out))
    for (c1, c2, align, out), so in zip(meta, ctx.driver.ask(reqs)):
        ctx.count('call', 'concat_ragged')
        ctx.case(['concat', repr(c1), repr(c2), str(align)], len(c1) > 0 and len(c2) > 0)
        for name, okv in so.items():
            if not okv:
                ctx.report_witness(f'spec:{name}:concat_ragged', f'concat_ragged violates {name}', {'lines': [{'c1': repr(c1), 'c2': repr(c2), 'align': str(align)}], 'impl_out': [repr(out)[:2500]], 'spec_out': [so],
                                                                                                   'theorem_or_correspondence': f'specPlace.{name}'})
                break
    # the moment layout itself: every entry point of concat_ragged against the Lean model (Model/C05Concat; Props/C05Concat proves the
    # model conserves operations, orders shared wires, stays well-formed and overlaps maximally)
    reqs, meta = [], []
    for it in range(n):
        g = Gen(rng)
        k = rng.choice([2, 2, 2, 3, 3, 4, 1])
        cs = []
        for _ in range(k):
            ms = [g.moment() for _ in range(rng.randint(0, 4))]
            if rng.random() < 0.3 and ms:
                ms.insert(rng.randrange(len(ms) + 1), [])  # empty moments count as length
            cs.append(cirq.Circuit([cirq.Moment([w.op(o) for o in m]) for m in ms]))
        align = rng.choice([cirq.Alignment.LEFT, cirq.Alignment.RIGHT, cirq.Alignment.FIRST])
        reqs.append({'p': 'C05', 'op': 'concat', 'circuits': [w.circuit_desc(c) for c in cs], 'align': align.name.lower()})
        meta.append((cs, align))
    for (cs, align), want in zip(meta, ctx.driver.ask(reqs)):
        frozen = [c.freeze() for c in cs]
        spell = rng.choice([align, align.name.lower(), align.name])  # the option is documented as an Alignment or its name
        ways = {
            'Circuit.concat_ragged': lambda: cirq.Circuit.concat_ragged(*cs, align=spell),
            'Circuit.concat_ragged(frozen)': lambda: cirq.Circuit.concat_ragged(*frozen, align=spell),
            'FrozenCircuit.concat_ragged': lambda: cirq.FrozenCircuit.concat_ragged(*frozen, align=spell),
            'FrozenCircuit.concat_ragged(mixed)': lambda: cirq.FrozenCircuit.concat_ragged(*[f if i % 2 else c for i, (c, f) in enumerate(zip(cs, frozen))], align=spell),
            'circuit.concat_ragged(bound)': lambda: cs[0].concat_ragged(*cs[1:], align=spell),
            'frozen.concat_ragged(bound)': lambda: frozen[0].concat_ragged(*frozen[1:], align=spell),
        }
        ctx.case(['concat-layout', [repr(c) for c in cs], str(align)], len(cs) >= 2 and all(len(c) for c in cs))
        for name, f in ways.items():
            ctx.count('call', 'concat-layout:' + name)
            rep = {'lines': [{'circuits': [repr(c) for c in cs], 'align': str(spell), 'entry_point': name}], 'theorem_or_correspondence': 'Model.C05.concatRagged'}
            try:
                out = f()
            except Exception as e:  # noqa: BLE001
                ctx.report_witness(f'concat:{name.split("(")[0]}:raises', 'concat_ragged raises on well-formed circuits', dict(rep, impl_out=[f'{type(e).__name__}: {e}'[:300]], spec_out=[want]))
                continue
            got = [sorted(w.desc(o)['id'] for o in m.operations) for m in out.moments]
            if got != want:
                ctx.report_witness(f'concat:layout:{name.split("(")[0]}', 'the moment layout of concat_ragged differs from the model (alignment / overlap)', dict(rep, impl_out=[got], spec_out=[want]))
    # Circuit.zip: moment-by-moment union for every alignment, or ValueError when two operations of one moment share a qubit
    reqs, meta = [], []
    for it in range(n):
        g = Gen(rng)
        cs = []
        for ci in range(rng.choice([2, 2, 3, 1])):
            ms = [g.moment() for _ in range(rng.randint(0, 4))]
            if rng.random() < 0.6:
                # keep the circuits on separate qubits most of the time, so that the zip usually succeeds
                ms = [[o for o in m if all(x % 3 == ci % 3 for x in o['q'])] for m in ms]
            cs.append(cirq.Circuit([cirq.Moment([w.op(o) for o in m]) for m in ms]))
        align = rng.choice([cirq.Alignment.LEFT, cirq.Alignment.RIGHT, cirq.Alignment.FIRST])
        reqs.append({'p': 'C05', 'op': 'zip', 'circuits': [w.circuit_desc(c) for c in cs], 'align': align.name.lower()})
        meta.append((cs, align))
    for (cs, align), want in zip(meta, ctx.driver.ask(reqs)):
        frozen = [c.freeze() for c in cs]
        spell = rng.choice([align, align.name.lower()])
        ways = {
            'Circuit.zip': lambda: cirq.Circuit.zip(*cs, align=spell),
            'FrozenCircuit.zip': lambda: cirq.FrozenCircuit.zip(*frozen, align=spell),
            'circuit.zip(bound)': lambda: cs[0].zip(*cs[1:], align=spell),
            'frozen.zip(bound)': lambda: frozen[0].zip(*frozen[1:], align=spell),
        }
        ctx.case(['zip', [repr(c) for c in cs], str(align)], len(cs) >= 2 and all(len(c) for c in cs))
        for name, f in ways.items():
            ctx.count('call', 'zip:' + name)
            ctx.count('zip_outcome', 'error' if isinstance(want, str) else 'ok')
            rep = {'lines': [{'circuits': [repr(c) for c in cs], 'align': str(spell), 'entry_point': name}], 'theorem_or_correspondence': 'Model.C05.zipCircuits'}
            try:
                out = f()
                got = [sorted(w.desc(o)['id'] for o in m.operations) for m in out.moments]
            except ValueError:
                got = 'ValueError'
            if got != want:
                ctx.report_witness(f'zip:layout:{name.split("(")[0]}', 'Circuit.zip differs from the model (alignment, padding or overlap detection)', dict(rep, impl_out=[got], spec_out=[want]))
    # moment entry points
    q = w.qs
    for _ in range(n):
        g = Gen(rng)
        ops = [g.op(rng.choice(['u1', 'u1', 'u2', 'meas', 'cc'])) for _ in range(rng.randint(1, 4))]
        qubits = [x for o in ops for x in o['q']]
        overlap = len(qubits) != len(set(qubits))
        built = [w.op(o) for o in ops]
        ways = {
            'Moment(ops)': lambda: cirq.Moment(built),
            'Moment(*ops)': lambda: cirq.Moment(*built),
            'Moment.from_ops': lambda: cirq.Moment.from_ops(*built),
            'with_operations': lambda: cirq.Moment().with_operations(*built),
            'with_operation': lambda: functools.reduce(lambda m, o: m.with_operation(o), built, cirq.Moment()),
            'moment + op': lambda: functools.reduce(lambda m, o: m + o, built, cirq.Moment()),
            'Circuit.from_moments': lambda: cirq.Circuit.from_moments(built),
            'FrozenCircuit.from_moments': lambda: cirq.FrozenCircuit.from_moments(built),
        }
        for name, f in ways.items():
            try:
                m = f()
                raised = False
            except ValueError:
                raised = True
            ctx.count('call', 'moment:' + name)
            ctx.case(['moment', name, ops], True)
            if raised != overlap:
                ctx.report_witness(f'moment:{name.split("(")[0]}', 'a way of building a moment ' + ('accepts operations on overlapping qubits' if overlap else 'rejects operations on disjoint qubits'),
                                   {'lines': [{'ops': ops, 'entry_point': name}], 'impl_out': [raised], 'spec_out': [overlap], 'theorem_or_correspondence': 'Model.C05.mkMoment (C05_call_wf)'})


def replay(ctx: common.Run, rep: dict) -> int:
    import cirq

    w = World(cirq)
    probs = check_history(ctx, w, rep['lines'], record=False)
    for p in probs:
        print(p[0], p[1], p[2])
    return 1 if probs else 0
