"""C12 — Sub-circuits, loops and classical control equal their unrolled form.

Lean: Model.C12 is the compositional specification of unrolling nested circuit operations (qubit maps, key
name maps, repetitions incl. negative, repetition ids and parent paths as key scopes, binding of classical
conditions to the innermost enclosing measurement already recorded).  Props.C12 proves facts about it.
Tie (T2): generated nestings are built as real `cirq.CircuitOperation`s; `unroll_circuit_op(deep=True)` /
`mapped_circuit(deep=True)` must produce exactly the specified flat operation list (ids, qubits, full
measurement keys, bound condition keys, inversion); key / qubit / parameter queries of the wrapped circuit
must equal those of the unrolled one; the unitary and the exact joint record distribution (scripted PRNG)
of the wrapped circuit must equal those of the specified unrolled circuit run by the Lean interpreter.
"""
from __future__ import annotations

import json

import numpy as np

from harness import common
from harness.scripted import enumerate_branches

MODULES = ['CirqVerif.Props.C12', 'CirqVerif.Props.C12Terminal', 'CirqVerif.Props.C12TerminalLoop']
NQ = 3


class Gen:
    def __init__(self, rng):
        self.rng = rng
        self.next_id = 1
        self.gates = {}

    def op(self, keys_avail, allow_meas=True, allow_cond=True):
        r = self.rng
        i = self.next_id
        self.next_id += 1
        kind = r.choices(['u1', 'u2', 'meas', 'cond'], [40, 20, 25 if allow_meas else 0, 15 if (allow_cond and keys_avail) else 0])[0]
        if kind == 'u1':
            d = {'id': i, 'q': [r.randrange(NQ)], 'mkey': None, 'conds': []}
            self.gates[i] = ('xpow', round(0.05 + i * 0.013, 6))
        elif kind == 'u2':
            d = {'id': i, 'q': r.sample(range(NQ), 2), 'mkey': None, 'conds': []}
            self.gates[i] = ('czpow', round(0.05 + i * 0.013, 6))
        elif kind == 'meas':
            d = {'id': i, 'q': r.sample(range(NQ), r.choice([1, 1, 2])), 'mkey': {'path': [], 'name': r.choice(['a', 'b', 'c'])}, 'conds': []}
            self.gates[i] = ('meas', None)
        else:
            d = {'id': i, 'q': [r.randrange(NQ)], 'mkey': None, 'conds': [{'key': {'path': [], 'name': r.choice(sorted(keys_avail))}, 'index': r.choice([-1, -1, 0])}]}
            self.gates[i] = ('xpow', 1.0)  # classically controlled X (identified by its tag: never inverted)
        return {'op': d}

    def body(self, depth, keys_avail, unitary_only=False):
        r = self.rng
        moments = []
        keys = set(keys_avail)
        for _ in range(r.randint(1, 4)):
            if depth > 0 and r.random() < 0.35:
                node, newkeys = self.sub(depth - 1, keys, unitary_only)
                keys |= newkeys
            else:
                node = self.op(keys, allow_meas=not unitary_only, allow_cond=not unitary_only)
                if node['op']['mkey']:
                    keys.add(node['op']['mkey']['name'])
            moments.append([node])
        return moments, keys

    def sub(self, depth, keys_avail, unitary_only=False):
        r = self.rng
        unitary = unitary_only or r.random() < 0.3
        body, keys = self.body(depth, keys_avail, unitary)
        has_meas = self.has_meas(body)
        reps = r.choice([0, 1, 1, 2, 3, -1, -2]) if unitary else r.choice([0, 1, 1, 2, 3])
        perm = list(range(NQ))
        if r.random() < 0.5:
            r.shuffle(perm)
        qmap = [[i, perm[i]] for i in range(NQ) if perm[i] != i]
        kmap = []
        if r.random() < 0.4:
            src = r.choice(['a', 'b', 'c'])
            kmap = [[src, r.choice(['d', 'e', src + '2'])]]
        rep_ids = None
        if abs(reps) >= 1 and r.random() < 0.5:
            rep_ids = [r.choice(['r', 's', 't']) + str(k) for k in range(abs(reps))]
        parent = [r.choice(['p', 'q'])] if r.random() < 0.3 else []
        newkeys = {dict(kmap).get(k, k) for k in keys}
        node = {'sub': {'body': body, 'reps': reps, 'qmap': qmap, 'kmap': kmap, 'rep_ids': rep_ids, 'parent_path': parent}}
        if keys_avail and not has_meas and r.random() < 0.3 and count_ops([[node]]) > 0:
            # (a controlled sub-circuit that unrolls to nothing still reads its key: degenerate, not generated)
            # a classically controlled sub-circuit (only allowed without measurements inside): the condition is written outside of it
            node['sub']['conds'] = [{'key': {'path': [], 'name': r.choice(sorted(keys_avail))}, 'index': r.choice([-1, -1, 0])}]
        return node, newkeys

    def scoped_template(self, code=None):
        """depth-3 nesting exercising key scoping: loops with repetition ids (and sometimes parent paths / key maps) at two levels, a
        measurement in the middle (or outer) body and a condition on it in the innermost sub-circuit; optionally the same key name is
        also measured in an outer scope.  With `code` (an integer) the 13 binary options are taken from its bits, so that the whole
        option space can be enumerated."""
        r = self.rng
        bits = [None]

        def flag(p):
            if code is None:
                return r.random() < p
            if bits[0] is None:
                bits[0] = code
            b = bits[0] & 1
            bits[0] >>= 1
            return bool(b)

        name = 'a' if code is not None else r.choice(['a', 'b'])

        def meas(q):
            i = self.next_id; self.next_id += 1
            self.gates[i] = ('meas', None)
            return {'op': {'id': i, 'q': [q], 'mkey': {'path': [], 'name': name}, 'conds': []}}

        def cond(q):
            i = self.next_id; self.next_id += 1
            self.gates[i] = ('xpow', 1.0)
            return {'op': {'id': i, 'q': [q], 'mkey': None, 'conds': [{'key': {'path': [], 'name': name}, 'index': -1 if code is not None else r.choice([-1, -1, 0])}]}}

        def u(q):
            i = self.next_id; self.next_id += 1
            self.gates[i] = ('xpow', round(0.05 + i * 0.013, 6))
            return {'op': {'id': i, 'q': [q], 'mkey': None, 'conds': []}}

        def loop(body, reps, ids, parent=None, kmap=None):
            return {'sub': {'body': body, 'reps': reps, 'qmap': [], 'kmap': kmap or [], 'rep_ids': [f'{ids}{k}' for k in range(reps)] if ids else None,
                            'parent_path': parent or []}}

        inner = loop([[cond(2)], [u(2)]], 2 if flag(1 / 3) else 1, 'i' if flag(0.5) else None)
        if flag(0.3):
            # the innermost sub-circuit is itself classically controlled (by the key of the enclosing scopes): its own
            # conditions must still be rescoped to the current iteration
            inner['sub']['conds'] = [{'key': {'path': [], 'name': name}, 'index': -1}]
        mid_body = [[u(0)], [meas(0)], [inner]]
        if flag(0.3):
            mid_body.insert(0, [cond(1)])  # refers to an outer measurement (or stays external)
        middle = loop(mid_body, 2 if flag(2 / 3) else 1, 'm' if flag(2 / 3) else None, parent=[r.choice(['p', 'q'])] if flag(0.25) else None,
                      kmap=[[name, name + '2']] if flag(0.2) else None)
        outer_body = [[middle]]
        if flag(0.5):
            outer_body.insert(0, [meas(1)])  # the same key name measured in the enclosing scope
        outer = loop(outer_body, 2 if flag(2 / 3) else 1, 'o' if flag(2 / 3) else None)
        moments = [[outer]]
        if flag(0.4):
            moments.insert(0, [meas(1)])
        if flag(0.4):
            moments.append([cond(2)])
        return moments

    def sibling_template(self, code):
        """two sub-circuits standing side by side in the body of an outer loop: the first measures, the second holds a condition on
        that key.  Whether the condition binds to the sibling's measurement depends on whether the sibling adds a scope of its own
        (repetition ids / parent path); 10 binary options, enumerated."""
        bits = [code]

        def flag():
            b = bits[0] & 1
            bits[0] >>= 1
            return bool(b)

        name = 'a'

        def meas(q):
            i = self.next_id; self.next_id += 1
            self.gates[i] = ('meas', None)
            return {'op': {'id': i, 'q': [q], 'mkey': {'path': [], 'name': name}, 'conds': []}}

        def cond(q, index=-1):
            i = self.next_id; self.next_id += 1
            self.gates[i] = ('xpow', 1.0)
            return {'op': {'id': i, 'q': [q], 'mkey': None, 'conds': [{'key': {'path': [], 'name': name}, 'index': index}]}}

        def u(q):
            i = self.next_id; self.next_id += 1
            self.gates[i] = ('xpow', round(0.05 + i * 0.013, 6))
            return {'op': {'id': i, 'q': [q], 'mkey': None, 'conds': []}}

        def loop(body, reps, ids, parent=None):
            return {'sub': {'body': body, 'reps': reps, 'qmap': [], 'kmap': [], 'rep_ids': [f'{ids}{k}' for k in range(reps)] if ids else None,
                            'parent_path': parent or []}}

        first = loop([[u(0)], [meas(0)]], 2 if flag() else 1, 's' if flag() else None, parent=['p'] if flag() else None)
        if flag():
            first = loop([[first]], 1, None)                       # the measurement sits one (scope-less) level deeper
        second_body = [[cond(2, 0 if flag() else -1)], [u(2)]]
        second = loop(second_body, 1, 't' if flag() else None)
        if flag():
            second = loop([[u(1)], [second]], 1, None)             # the condition sits one level deeper
        body = [[first], [second]]
        if flag():
            body.insert(0, [meas(1)])                              # the key is also measured directly in the shared body
        if flag():
            body.append([cond(1)])                                 # and a condition stands in the shared body, after both
        outer_ids = flag()
        outer = loop(body, 2 if outer_ids else 1, 'o' if outer_ids else None)
        return [[outer]]

    def single_qubit_template(self):
        """a sub-circuit confined to one qubit (the fast path of CircuitOperation._unitary_) with any repetition count"""
        r = self.rng
        q = r.randrange(NQ)
        body = []
        for _ in range(r.randint(1, 3)):
            i = self.next_id; self.next_id += 1
            self.gates[i] = ('xpow', round(0.05 + i * 0.013, 6))
            body.append([{'op': {'id': i, 'q': [q], 'mkey': None, 'conds': []}}])
        sub = {'sub': {'body': body, 'reps': r.choice([-3, -2, -1, 0, 1, 2, 3]), 'qmap': [[q, (q + 1) % NQ], [(q + 1) % NQ, q]] if r.random() < 0.4 else [],
                       'kmap': [], 'rep_ids': None, 'parent_path': []}}
        if r.random() < 0.3:
            sub = {'sub': {'body': [[sub]], 'reps': r.choice([1, -1, 2, -2]), 'qmap': [], 'kmap': [], 'rep_ids': None, 'parent_path': []}}
        i = self.next_id; self.next_id += 1
        self.gates[i] = ('czpow', round(0.05 + i * 0.013, 6))
        return [[sub], [{'op': {'id': i, 'q': [0, 1], 'mkey': None, 'conds': []}}]]

    def has_meas(self, body):
        for m in body:
            for n in m:
                if 'op' in n and n['op']['mkey']:
                    return True
                if 'sub' in n and self.has_meas(n['sub']['body']):
                    return True
        return False


class Builder:
    def __init__(self, cirq, gates):
        self.cirq, self.gates = cirq, gates
        self.qs = cirq.LineQubit.range(NQ)

    def key(self, k):
        return self.cirq.MeasurementKey(name=k['name'], path=tuple(k['path']))

    def node(self, n):
        cirq = self.cirq
        if 'op' in n:
            d = n['op']
            kind, par = self.gates[d['id']]
            qs = [self.qs[i] for i in d['q']]
            if kind == 'meas':
                op = cirq.measure(*qs, key=self.key(d['mkey']))
            elif kind == 'xpow':
                op = (cirq.X**par).on(*qs)
            else:
                op = (cirq.CZ**par).on(*qs)
            if d['conds']:
                op = op.with_classical_controls(*[cirq.KeyCondition(self.key(c['key']), c['index']) for c in d['conds']])
            return op.with_tags(('id', d['id']))
        s = n['sub']
        fc = cirq.FrozenCircuit([cirq.Moment([self.node(x) for x in m]) for m in s['body']])
        kwargs = dict(repetitions=s['reps'], qubit_map={self.qs[a]: self.qs[b] for a, b in s['qmap']}, measurement_key_map=dict(s['kmap']))
        if s['rep_ids'] is not None:
            kwargs.update(repetition_ids=s['rep_ids'], use_repetition_ids=True)
        co = cirq.CircuitOperation(fc, **kwargs)
        if s['parent_path']:
            co = cirq.with_key_path_prefix(co, tuple(s['parent_path']))
        if s.get('conds'):
            co = co.with_classical_controls(*[cirq.KeyCondition(self.key(c['key']), c['index']) for c in s['conds']])
        return co

    def describe(self, op):
        """flat cirq op -> descriptor comparable with the Lean FlatOp"""
        cirq = self.cirq
        ident = [t[1] for t in op.tags if isinstance(t, tuple) and t and t[0] == 'id']
        probe = op
        while not ident and isinstance(probe.untagged, cirq.ClassicallyControlledOperation):
            # a controlled sub-circuit decomposes into its operations wrapped once more: the identifying tag sits inside
            probe = probe.untagged._sub_operation
            ident = [t[1] for t in probe.tags if isinstance(t, tuple) and t and t[0] == 'id']
        i = ident[0] if ident else -1
        core = op.untagged
        while isinstance(core, cirq.ClassicallyControlledOperation):
            core = core._sub_operation.untagged
        if i == -1 and core.gate is not None and hasattr(core.gate, 'exponent'):
            # inversion drops tags: identify the operation by its (unique) exponent
            for gid, (kind0, par0) in self.gates.items():
                if kind0 in ('xpow', 'czpow') and par0 != 1.0 and abs(abs(core.gate.exponent) - par0) < 1e-9 and \
                        (kind0 == 'czpow') == (len(core.qubits) == 2):
                    i = gid
        conds = []
        base = op.untagged
        while isinstance(base, cirq.ClassicallyControlledOperation):
            for c in base._conditions:
                conds.append({'key': {'path': list(c.key.path), 'name': c.key.name}, 'index': c.index})
            base = base._sub_operation.untagged
        mk = None
        if cirq.is_measurement(base):
            k = cirq.measurement_key_obj(base)
            mk = {'path': list(k.path), 'name': k.name}
        inverted = False
        kind, par = self.gates.get(i, (None, None))
        if kind in ('xpow', 'czpow'):
            inverted = abs(base.gate.exponent - (-par)) < 1e-9 and abs(par) > 1e-9 and abs(base.gate.exponent - par) > 1e-9
        return {'id': i, 'q': [q.x for q in op.qubits], 'mkey': mk, 'conds': conds, 'inverted': inverted}

    def flat_to_cirq(self, f):
        """Lean FlatOp -> a concrete operation of the specified unrolled circuit"""
        cirq = self.cirq
        kind, par = self.gates[f['id']]
        qs = [self.qs[i] for i in f['q']]
        if kind == 'meas':
            op = cirq.measure(*qs, key=self.key(f['mkey']))
        elif kind == 'xpow':
            op = (cirq.X ** (-par if f['inverted'] else par)).on(*qs)
        else:
            op = (cirq.CZ ** (-par if f['inverted'] else par)).on(*qs)
        if f['conds']:
            op = op.with_classical_controls(*[cirq.KeyCondition(self.key(c['key']), c['index']) for c in f['conds']])
        return op


def count_ops(moments):
    """number of operations the nodes unroll to"""
    n = 0
    for m in moments:
        for x in m:
            n += 1 if 'op' in x else abs(x['sub']['reps']) * count_ops(x['sub']['body'])
    return n


def fully_unrolled(cirq, circuit):
    """unroll_circuit_op(deep), then expand classically controlled circuit operations (which it leaves alone) through their
    decomposition - the controlled operation's conditions go in front of those of every operation of the body - and repeat"""
    c = cirq.unroll_circuit_op(circuit, deep=True, tags_to_check=None)
    for _ in range(12):
        new, changed = [], False
        for op in c.all_operations():
            u = op.untagged
            if isinstance(u, cirq.ClassicallyControlledOperation) and isinstance(u.without_classical_controls().untagged, cirq.CircuitOperation):
                new.extend(cirq.decompose_once(u))
                changed = True
            else:
                new.append(op)
        if not changed:
            return c
        c = cirq.unroll_circuit_op(cirq.Circuit(new, strategy=cirq.InsertStrategy.NEW), deep=True, tags_to_check=None)
    raise common.InfraError('controlled circuit operations do not unroll')


def check_greedy_layouts(ctx, cirq):
    """the three one-level unrollers on circuits with several circuit operations in different moments, between plain operations: wherever
    the contents land, the order of the operations on every qubit is that of the circuit read moment by moment with each sub-circuit in
    place of its operation (and the unitary is the same)"""
    rng = ctx.substream('greedy-layouts')
    n = 60 if ctx.tier == 'quick' else 1200
    qs = cirq.LineQubit.range(3)
    gates1 = [cirq.X ** 0.5, cirq.H, cirq.T, cirq.Y ** 0.25, cirq.S]
    for it in range(n):
        ident = [0]

        def plain(avail):
            ident[0] += 1
            if len(avail) >= 2 and rng.random() < 0.3:
                a, b = rng.sample(avail, 2)
                return (cirq.CZ ** 0.5)(a, b).with_tags(('id', ident[0]))
            return rng.choice(gates1)(rng.choice(avail)).with_tags(('id', ident[0]))

        moments, flat = [], []
        for _ in range(rng.randint(2, 6)):
            free = list(qs)
            ops = []
            if rng.random() < 0.55:
                sub_qs = rng.sample(free, rng.choice([1, 1, 2, 3]))
                body = []
                for _ in range(rng.randint(1, 3)):
                    mo, used = [], set()
                    for _ in range(rng.randint(1, 2)):
                        o = plain([x for x in sub_qs if x not in used] or sub_qs)
                        if used & set(o.qubits):
                            continue
                        used |= set(o.qubits)
                        mo.append(o)
                    body.append(cirq.Moment(mo))
                sub = cirq.CircuitOperation(cirq.FrozenCircuit(body))
                if rng.random() < 0.2:
                    sub = sub.with_tags('wrapped')
                ops.append(sub)
                flat += [o for m in body for o in m.operations]
                free = [x for x in free if x not in sub.qubits]
            for x in list(free):
                if rng.random() < 0.4:
                    o = plain([x])
                    ops.append(o)
                    flat.append(o)
            if ops:
                moments.append(cirq.Moment(ops))
        # within a top-level moment the sub-circuit is disjoint from the plain operations: the flat list above is one valid order
        circuit = cirq.Circuit(moments)
        if not any(isinstance(o.untagged, cirq.CircuitOperation) for o in circuit.all_operations()):
            continue
        want = [{'id': [t[1] for t in o.tags if isinstance(t, tuple)][0], 'wires': sorted(q.x for q in o.qubits)} for o in flat]
        want_u = cirq.Circuit(flat).unitary(qubit_order=qs, qubits_that_should_be_present=qs)
        for uname in ('unroll_circuit_op', 'unroll_circuit_op_greedy_earliest', 'unroll_circuit_op_greedy_frontier'):
            ctx.count('check', 'layout:' + uname)
            ctx.case(['greedy-layout', uname, repr(circuit)], True)
            rep = {'lines': [{'transformer': uname, 'circuit': repr(circuit)}], 'theorem_or_correspondence': 'per-wire order of the unrolled form (C06_same_wire_order_is_swaps)'}
            try:
                out = getattr(cirq, uname)(circuit, tags_to_check=None)
            except (ValueError, IndexError, KeyError) as e:
                ctx.report_witness(f'unroll:{uname}:raises', f'{uname} fails on a valid circuit', dict(rep, impl_out=[f'{type(e).__name__}: {e}'[:200]], spec_out=['the unrolled circuit']))
                continue
            got = [{'id': ([t[1] for t in o.tags if isinstance(t, tuple)] or [-1])[0], 'wires': sorted(q.x for q in o.qubits)} for o in out.all_operations()]
            same = sorted(g['id'] for g in got) == sorted(w['id'] for w in want) and ctx.driver.ask([{'p': 'C06', 'op': 'same_order', 'a': want, 'b': got}])[0]
            if not same or not np.allclose(out.unitary(qubit_order=qs, qubits_that_should_be_present=qs), want_u, atol=1e-8):
                ctx.report_witness(f'unroll:{uname}', f'{uname}: the order of the operations on some qubit differs from the circuit read with every sub-circuit in place', dict(rep, impl_out=[repr(out)[:2500]], spec_out=[want]))


def check_greedy_classical(ctx, cirq):
    """the one-level unrollers on classical circuits (X gates, measurements, X gates controlled by the latest record of a key) with
    sub-circuits that measure or read keys also used outside: the records of the unrolled circuit are those of the program read in order
    (computed here on bits), i.e. no operation is placed in front of - or next to - a measurement it depends on"""
    rng = ctx.substream('greedy-classical')
    n = 40 if ctx.tier == 'quick' else 800
    qs = cirq.LineQubit.range(3)
    for it in range(n):
        def rand_op(avail, keys):
            q = rng.choice(avail)
            r = rng.random()
            if r < 0.35:
                return ('x', q, None)
            if r < 0.7 or not keys:
                k = rng.choice(['m', 'n'])
                keys.add(k)
                return ('meas', q, k)
            return ('cx', q, rng.choice(sorted(keys)))

        def build(o):
            kind, q, k = o
            return cirq.X(q) if kind == 'x' else cirq.measure(q, key=k) if kind == 'meas' else cirq.X(q).with_classical_controls(k)

        keys, moments, flat = set(), [], []
        for _ in range(rng.randint(3, 6)):
            free = list(qs)
            ops = []
            if rng.random() < 0.5:
                sub_qs = rng.sample(free, rng.choice([1, 2]))
                body = [rand_op(sub_qs, keys) for _ in range(rng.randint(1, 3))]
                try:
                    ops.append(cirq.CircuitOperation(cirq.FrozenCircuit(cirq.Circuit([build(o) for o in body], strategy=cirq.InsertStrategy.NEW))))
                except ValueError:
                    continue
                flat += body
                free = [x for x in free if x not in ops[-1].qubits]
            # operations of one moment must not depend on each other through a key
            moment_keys = {p[2] for p in (body if ops else []) if p[2]}
            for x in free:
                if rng.random() < 0.45:
                    o = rand_op([x], keys)
                    if o[2] is not None and o[2] in moment_keys:
                        continue
                    moment_keys.add(o[2])
                    ops.append(build(o))
                    flat.append(o)
            if ops:
                moments.append(ops)
        if it == 0:  # corpus: a measurement inside the sub-circuit and an operation controlled by its key in the next moment, on other qubits
            moments = [[cirq.measure(qs[2], key='m')], [cirq.CircuitOperation(cirq.FrozenCircuit(cirq.X(qs[0]), cirq.measure(qs[0], key='m')))], [cirq.X(qs[1]).with_classical_controls('m')], [cirq.measure(qs[1], key='out')]]
            flat = [('meas', qs[2], 'm'), ('x', qs[0], None), ('meas', qs[0], 'm'), ('cx', qs[1], 'm'), ('meas', qs[1], 'out')]
        try:
            circuit = cirq.Circuit(cirq.Moment(m) for m in moments)
        except ValueError:
            continue
        if not any(isinstance(o.untagged, cirq.CircuitOperation) for o in circuit.all_operations()) or not cirq.is_measurement(circuit):
            continue
        # the program on bits
        bits, rec = {q: 0 for q in qs}, {}
        ok = True
        for kind, q, k in flat:
            if kind == 'x':
                bits[q] ^= 1
            elif kind == 'meas':
                rec.setdefault(k, []).append(bits[q])
            elif k not in rec:
                ok = False
                break
            elif rec[k][-1]:
                bits[q] ^= 1
        if not ok:
            continue
        want = {k: v for k, v in rec.items()}
        for uname in ('wrapped', 'unroll_circuit_op', 'unroll_circuit_op_greedy_earliest', 'unroll_circuit_op_greedy_frontier'):
            ctx.count('check', 'classical-layout:' + uname)
            ctx.case(['greedy-classical', uname, repr(circuit)], True)
            rep = {'lines': [{'transformer': uname, 'circuit': repr(circuit)}], 'theorem_or_correspondence': 'records of the program read in order'}
            try:
                out = circuit if uname == 'wrapped' else getattr(cirq, uname)(circuit, tags_to_check=None)
                r = cirq.Simulator(seed=1).run(out, repetitions=1).records
                got = {k: [int(x) for x in v[0].reshape(-1)] for k, v in r.items()}
            except (ValueError, IndexError, KeyError) as e:
                got = f'{type(e).__name__}: {e}'[:200]
            if got != want:
                dep = ':key-dependency' if uname.endswith('frontier') else ''
                ctx.report_witness(f'unroll:{uname}{dep}', f'{uname}: the unrolled circuit records other values than the program read in order (an operation was placed in front of or next to a measurement of a key it uses)',
                                   dict(rep, impl_out=[got, repr(out)[:1500] if not isinstance(got, str) else ''], spec_out=[want]))


def records_key(records):
    return tuple(sorted((k, tuple(tuple(tuple(int(x) for x in inst) for inst in rep) for rep in v)) for k, v in records.items()))


def run(ctx: common.Run):
    import cirq

    from harness.props.c02 import lean_ops, lean_dist, dist_close

    ctx.rule = (
        'random circuits of 1..4 moments over 3 qubits containing circuit operations nested to depth 0..3 with repetitions in {0,1,2,3,-1,-2}, '
        'qubit permutations, key-name maps, explicit repetition ids, parent paths, measurements (keys a/b/c), operations controlled by '
        'KeyCondition(key, index) on keys measured inside or outside; non-trivial = at least one circuit operation with a measurement or '
        'condition inside; distinct by structure'
    )
    ctx.trusted += [
        'harness/props/c12.py + lean/Driver/C12.lean + C02.lean (T2 on generated nestings only)',
        'operations are abstracted to (id, qubits, measurement key, KeyCondition list, inverted flag) read back from the live objects',
        'parameter maps and repeat_until loops are checked on the Python side only (resolution: C10)',
    ]
    ok, failing = ctx.lean(MODULES)
    if not ok:
        ctx.report_unproved('lean-build', f'{failing}', {'theorem_or_correspondence': failing})
        return
    check_greedy_layouts(ctx, cirq)
    check_greedy_classical(ctx, cirq)
    n = 120 if ctx.tier == 'quick' else 1500
    rng = ctx.substream('nest')
    cases, reqs = [], []
    for i in range(n + 1):
        g = Gen(rng)
        mode = rng.choice(['random'] * 5 + ['scoped'] * 3 + ['single'] * 2)
        if mode == 'random':
            moments, _ = g.body(rng.choice([1, 1, 2, 3]), set())
        elif mode == 'scoped':
            moments = g.scoped_template()
        else:
            moments = g.single_qubit_template()
        if i == 0:  # corpus: witness of the repaired defect unroll:unitary-raises:zero-reps always runs
            g = Gen(rng)
            g.gates = {1: ('xpow', 0.063), 2: ('meas', None), 3: ('xpow', 0.089)}
            moments = [[{'sub': {'body': [[{'op': {'id': 1, 'q': [2], 'mkey': None, 'conds': []}}], [{'op': {'id': 2, 'q': [1], 'mkey': {'path': [], 'name': 'c'}, 'conds': []}}],
                                           [{'op': {'id': 3, 'q': [1], 'mkey': None, 'conds': []}}]], 'reps': 0, 'qmap': [], 'kmap': [], 'rep_ids': None, 'parent_path': []}}]]
        cases.append((g, moments))
        reqs.append({'p': 'C12', 'op': 'unroll', 'moments': moments})
    outs = ctx.driver.ask(reqs)
    term_outs = ctx.driver.ask([{'p': 'C12', 'op': 'terminal', 'moments': r['moments']} for r in reqs])
    dist_reqs, dist_meta = [], []
    for (g, moments), spec, term in zip(cases, outs, term_outs):
        b = Builder(cirq, g.gates)
        try:
            wrapped = cirq.Circuit([cirq.Moment([b.node(x) for x in m]) for m in moments])
        except ValueError as e:
            ctx.count('ctor_error', str(e)[:50])
            continue
        has_sub = any('sub' in x for m in moments for x in m)
        nontrivial = has_sub and any(f['mkey'] or f['conds'] for f in spec)
        ctx.case(moments, nontrivial, sample={'circuit': str(wrapped)[:600]} if nontrivial and len(ctx.samples) < 3 else None)
        ctx.count('depth', str(depth_of(moments)))

        def report(sig, what, got, want):
            ctx.report_witness(sig, what, {'lines': [{'circuit': repr(wrapped), 'structure': moments}], 'impl_out': [got], 'spec_out': [want],
                                           'theorem_or_correspondence': 'Model.C12.unrollCircuit (wrap_eq_unroll)'})

        # (1) structural: unroll_circuit_op(deep) = specified flat list
        try:
            unrolled = fully_unrolled(cirq, wrapped)
        except ValueError as e:
            ctx.count('unroll_error', str(e)[:50])
            continue
        got = [b.describe(op) for op in unrolled.all_operations()]
        ctx.count('check', 'structure')
        # the conditions of an operation are a conjunction (a frozenset in the implementation): compare them as sets
        cset = lambda f: dict(f, conds=sorted({(tuple(c['key']['path']), c['key']['name'], c['index']) for c in f['conds']}))
        if [cset(f) for f in got] != [cset(f) for f in spec]:
            report('unroll:structure', 'unroll_circuit_op(deep=True) differs from the specified unrolled form (qubits / key scoping / condition binding / order)', got, spec)
            continue
        # (1b) the greedy unrollers place the operations of each sub-circuit into neighbouring moments: whatever the layout, the order on
        # every wire (qubit, measurement / control key) is that of the specified flat list
        if has_sub and not any(x.get('sub', {}).get('conds') for m in moments for x in m) and len({f['id'] for f in spec}) == len(spec):  # (operations identified by their id: no repeated bodies)
            def wired(flat):
                # every reader of a key has a private wire that the writers of the key touch too (readers of one key are independent of
                # each other); writers of a key share a wire
                readers = {}
                for f in flat:
                    for c in f['conds']:
                        readers.setdefault((tuple(c['key']['path']), c['key']['name']), []).append(f['id'])
                seen, out = {}, []
                for f in flat:
                    seen[f['id']] = seen.get(f['id'], 0) + 1
                    ws = set()
                    for c in f['conds']:
                        ws.add(((tuple(c['key']['path']), c['key']['name']), 'r', f['id']))
                    if f['mkey']:
                        k = (tuple(f['mkey']['path']), f['mkey']['name'])
                        ws.add((k, 'w'))
                        for rid in readers.get(k, []):
                            ws.add((k, 'r', rid))
                    out.append({'id': f['id'] * 1000 + seen[f['id']], 'wires': sorted(f['q']) + sorted(100 + key_index.setdefault(w_, len(key_index)) for w_ in ws)})
                return out
            for uname in ('unroll_circuit_op_greedy_earliest', 'unroll_circuit_op_greedy_frontier'):
                key_index = {}
                cur = wrapped
                try:
                    for _ in range(8):
                        if not any(isinstance(o.untagged, cirq.CircuitOperation) for o in cur.all_operations()):
                            break
                        cur = getattr(cirq, uname)(cur, tags_to_check=None)
                except (ValueError, IndexError) as e:
                    if isinstance(e, IndexError):
                        report(f'unroll:{uname}:raises', f'{uname} crashes on a valid circuit', f'{type(e).__name__}: {e}'[:200], 'the unrolled circuit')
                    else:
                        ctx.count('unroll_error', f'{uname}:{str(e)[:40]}')
                    continue
                if any(isinstance(o.untagged, (cirq.CircuitOperation, cirq.ClassicallyControlledOperation)) and isinstance(o.untagged.without_classical_controls().untagged, cirq.CircuitOperation) for o in cur.all_operations()):
                    continue
                g_flat = [b.describe(op) for op in cur.all_operations()]
                ctx.count('check', 'greedy:' + uname)
                same = ctx.driver.ask([{'p': 'C06', 'op': 'same_order', 'a': wired(spec), 'b': wired(g_flat)}])[0]
                if not same:
                    report(f'unroll:{uname}', f'{uname}: the order of the operations on some qubit or key differs from the specified unrolled form', [cset(f) for f in g_flat], [cset(f) for f in spec])
        spec_circuit = cirq.Circuit(b.flat_to_cirq(f) for f in spec)
        # (2) queries of the wrapped circuit = queries of the unrolled one
        for name, fw, fu in (
            ('measurement_key_names', cirq.measurement_key_names(wrapped), cirq.measurement_key_names(spec_circuit)),
            ('control_keys', {str(k) for k in cirq.control_keys(wrapped)}, {str(k) for k in cirq.control_keys(spec_circuit)}),
            # (a zero-repetition operation still occupies its qubits, like an identity: qubits are compared on the others)
            ('all_qubits', wrapped.all_qubits() if not any_zero_reps(moments) else spec_circuit.all_qubits(), spec_circuit.all_qubits()),
            ('is_measurement', cirq.is_measurement(wrapped), cirq.is_measurement(spec_circuit)),
            ('are_all_measurements_terminal', wrapped.are_all_measurements_terminal(), spec_circuit.are_all_measurements_terminal()),
            ('are_any_measurements_terminal', wrapped.are_any_measurements_terminal(), spec_circuit.are_any_measurements_terminal()),
            ('has_unitary', cirq.has_unitary(wrapped), cirq.has_unitary(spec_circuit)),
            # the same two questions answered by the Lean definition on the specified flat form (Model.C12Terminal)
            ('are_all_measurements_terminal:model', wrapped.are_all_measurements_terminal(), term['all']),
            ('are_any_measurements_terminal:model', wrapped.are_any_measurements_terminal(), term['any']),
        ):
            ctx.count('check', 'query:' + name)
            if fw != fu:
                zero = any_zero_reps(moments)
                report(f'query:{name}' + (':zero-reps' if zero else ''), f'{name} of the wrapped circuit differs from that of its unrolled form', sorted(map(str, fw)) if not isinstance(fw, (bool, type(None))) else fw,
                       sorted(map(str, fu)) if not isinstance(fu, (bool, type(None))) else fu)
        # (3) unitary
        qs = b.qs
        if all(f['mkey'] is None and not f['conds'] for f in spec):
            pos = {q: j for j, q in enumerate(qs)}
            lops = [{'m': [common.c2j(z) for z in cirq.unitary(op).reshape(-1)], 'axes': [pos[q] for q in op.qubits]} for op in spec_circuit.all_operations()]
            want = np.array([[common.j2c(z) for z in row] for row in ctx.driver.ask([{'p': 'C01', 'op': 'unitary', 'shape': [2] * NQ, 'ops': lops}])[0]])
            # the unitary of each top-level circuit operation by itself (protocol on the operation, not through Circuit.unitary)
            for m_nodes, m_real in zip(moments, wrapped):
                for node, op_real in zip(m_nodes, m_real.operations):
                    if 'sub' not in node:
                        continue
                    sub_spec = ctx.driver.ask([{'p': 'C12', 'op': 'unroll', 'moments': [[node]]}])[0]
                    opq = list(op_real.qubits)
                    posq = {q: j for j, q in enumerate(opq)}
                    sub_ops = [b.flat_to_cirq(f) for f in sub_spec]
                    if not all(set(o.qubits) <= set(opq) for o in sub_ops):
                        continue
                    lops2 = [{'m': [common.c2j(z) for z in cirq.unitary(o).reshape(-1)], 'axes': [posq[q] for q in o.qubits]} for o in sub_ops]
                    want_op = np.array([[common.j2c(z) for z in row] for row in ctx.driver.ask([{'p': 'C01', 'op': 'unitary', 'shape': [2] * len(opq), 'ops': lops2}])[0]])
                    got_op = cirq.unitary(op_real, None)
                    ctx.count('check', 'op-unitary')
                    if got_op is None or not np.allclose(got_op, want_op, atol=1e-7):
                        report('unroll:op-unitary', 'cirq.unitary of a circuit operation differs from the unitary of its unrolled form', repr(op_real)[:500], 'unrolled product')
            try:
                gotu = wrapped.unitary(qubit_order=qs, qubits_that_should_be_present=qs)
            except ValueError as e:
                report('unroll:unitary-raises' + (':zero-reps' if any_zero_reps(moments) else ''), f'the unrolled form is unitary but Circuit.unitary() of the wrapped circuit raises: {e}', str(e), 'unitary')
                continue
            ctx.count('check', 'unitary')
            if not np.allclose(gotu, want, atol=1e-7):
                report('unroll:unitary', 'unitary of the wrapped circuit differs from that of its unrolled form', '...', '...')
        elif any(f['mkey'] for f in spec):
            # (4) exact joint record distribution of the wrapped circuit vs the Lean semantics of the specified unrolled circuit
            init = [0j] * (2**NQ)
            init[0] = 1
            dist_reqs.append({'p': 'C02', 'op': 'dist', 'shape': [2] * NQ, 'init': [common.c2j(z) for z in init], 'ops': lean_ops(cirq, spec_circuit, list(qs))})
            dist_meta.append((wrapped, moments))
    douts = ctx.driver.ask(dist_reqs)
    for (wrapped, moments), out in zip(dist_meta, douts):
        want = {}
        for br in out['branches']:
            key = tuple(sorted((k, tuple((tuple(inst),) for inst in v)) for k, v in br['records']))
            want[key] = want.get(key, 0.0) + common.b2f(br['p'])

        def once(prng):
            r = cirq.Simulator(seed=prng, dtype=np.complex128).run(wrapped, repetitions=1)
            # records: key -> reps x instances x qubits ; compare as instances of one repetition
            return tuple(sorted((k, tuple((tuple(int(x) for x in inst),) for inst in v[0])) for k, v in r.records.items()))
        try:
            got = enumerate_branches(once, max_branches=600)
        except (RuntimeError, ValueError) as e:
            ctx.count('dist_skip', type(e).__name__)
            continue
        ctx.count('check', 'distribution')
        keys = set(got) | set(want)
        if not all(abs(got.get(k, 0) - want.get(k, 0)) < 2e-6 for k in keys):
            ctx.report_witness('unroll:distribution', 'joint record distribution of the wrapped circuit differs from that of its unrolled form',
                               {'lines': [{'circuit': repr(wrapped), 'structure': moments}], 'impl_out': [sorted((repr(k), round(v, 8)) for k, v in got.items())],
                                'spec_out': [sorted((repr(k), round(v, 8)) for k, v in want.items())], 'theorem_or_correspondence': 'wrap_eq_unroll (distribution)'})

    check_sympy_key_maps(ctx, cirq)
    check_if_blocks(ctx, cirq)
    # (5) the whole option space of the scoping template (13 binary options), structure and key queries only
    codes = range(8192) if ctx.tier != 'quick' else [c for c in range(8192) if (c * 2654435761 + ctx.seed) % 8 == 0]
    ecases = []
    for code in codes:
        g = Gen(rng)
        ecases.append((g, g.scoped_template(code)))
    # (5b) sibling sub-circuits under a shared loop body (10 binary options, always all of them)
    for code in range(1024):
        g = Gen(rng)
        ecases.append((g, g.sibling_template(code)))
    eouts = ctx.driver.ask([{'p': 'C12', 'op': 'unroll', 'moments': m} for _, m in ecases])
    for (g, moments), spec in zip(ecases, eouts):
        b = Builder(cirq, g.gates)
        try:
            wrapped = cirq.Circuit([cirq.Moment([b.node(x) for x in m]) for m in moments])
            unrolled = fully_unrolled(cirq, wrapped)
        except ValueError as e:
            ctx.count('scoped_enum', 'rejected: ' + str(e)[:40])
            continue
        ctx.case(moments, True)
        ctx.count('scoped_enum', 'checked')
        got = [b.describe(op) for op in unrolled.all_operations()]
        rep = {'lines': [{'circuit': repr(wrapped), 'structure': moments}], 'impl_out': [got], 'spec_out': [spec],
               'theorem_or_correspondence': 'Model.C12.unrollCircuit (wrap_eq_unroll), enumerated scoping template'}
        cset = lambda f: dict(f, conds=sorted({(tuple(c['key']['path']), c['key']['name'], c['index']) for c in f['conds']}))
        if [cset(f) for f in got] != [cset(f) for f in spec]:
            ctx.report_witness('unroll:structure', 'unroll_circuit_op(deep=True) differs from the specified unrolled form (key scoping / condition binding)', rep)
            continue
        spec_circuit = cirq.Circuit(b.flat_to_cirq(f) for f in spec)
        if cirq.measurement_key_names(wrapped) != cirq.measurement_key_names(spec_circuit):
            ctx.report_witness('query:measurement_key_names', 'measurement keys of the wrapped circuit differ from those of its unrolled form', rep)
        if {str(k) for k in cirq.control_keys(wrapped)} != {str(k) for k in cirq.control_keys(spec_circuit)}:
            ctx.report_witness('query:control_keys', 'control keys of the wrapped circuit differ from those of its unrolled form', rep)


def check_if_blocks(ctx, cirq):
    """`cirq.If` blocks (one or several operations, some with classical controls of their own, or a sub-circuit) inside a sub-circuit whose
    keys are renamed / scoped: every control inside the block follows the renaming.  Deterministic programs; the reference is a classical
    interpreter of the flat program with the renamed keys."""
    if not hasattr(cirq, 'If'):
        return
    rng = ctx.substream('if-blocks')
    q = cirq.LineQubit.range(5)
    for it in range(30 if ctx.tier == 'quick' else 400):
        k0, k1 = rng.sample(['a', 'b', 'd'], 2)
        bits = [rng.randint(0, 1), rng.randint(0, 1)]
        if rng.random() < 0.6:
            bits = [1, 1]
        block_kind = rng.choice(['two-ops', 'two-ops', 'sub-circuit', 'single', 'nested-if'])
        inner = cirq.X(q[2]).with_classical_controls(k1)
        if block_kind == 'two-ops':
            blk = cirq.If(k0, inner, cirq.X(q[3]))
        elif block_kind == 'sub-circuit':
            blk = cirq.If(k0, cirq.CircuitOperation(cirq.FrozenCircuit(inner, cirq.X(q[3]))))
        elif block_kind == 'nested-if':
            blk = cirq.If(k0, cirq.If(k1, cirq.X(q[2])), cirq.X(q[3]))
        else:
            blk = cirq.If(k0, inner)
        flat = [('m', 0, k0), ('m', 1, k1), ('x', 2, (k0, k1))] + ([('x', 3, (k0,))] if block_kind != 'single' else []) + [('m', 2, 'r2'), ('m', 3, 'r3')]
        body = cirq.FrozenCircuit(cirq.Moment(cirq.measure(q[0], key=k0)), cirq.Moment(cirq.measure(q[1], key=k1)), cirq.Moment(blk), cirq.Moment(cirq.measure(q[2], key='r2'), cirq.measure(q[3], key='r3')))
        how = rng.choice(['key-map-1', 'key-map-0', 'key-map-both', 'with-mapping', 'rep-ids', 'path-prefix', 'nested-map'])
        if how == 'key-map-1':
            op, ren = cirq.CircuitOperation(body, measurement_key_map={k1: 'c'}), {k1: 'c'}
        elif how == 'key-map-0':
            op, ren = cirq.CircuitOperation(body, measurement_key_map={k0: 'c'}), {k0: 'c'}
        elif how == 'key-map-both':
            op, ren = cirq.CircuitOperation(body, measurement_key_map={k0: k1, k1: k0}), {k0: k1, k1: k0}
        elif how == 'with-mapping':
            op, ren = cirq.CircuitOperation(body).with_measurement_key_mapping({k1: 'c'}), {k1: 'c'}
        elif how == 'rep-ids':
            op, ren = cirq.CircuitOperation(body, repetitions=1, repetition_ids=['r'], use_repetition_ids=True), {k: 'r:' + k for k in (k0, k1, 'r2', 'r3')}
        elif how == 'path-prefix':
            op, ren = cirq.with_key_path_prefix(cirq.CircuitOperation(body), ('p',)), {k: 'p:' + k for k in (k0, k1, 'r2', 'r3')}
        else:
            op, ren = cirq.CircuitOperation(cirq.FrozenCircuit(cirq.CircuitOperation(body, measurement_key_map={k1: 'c'})), measurement_key_map={'c': 'e'}), {k1: 'e'}
        name_of = lambda k: ren.get(k, k)
        # an unrelated record under the body's own name of k1, with the opposite value, measured outside before
        prep = [cirq.Moment([cirq.X(q[j]) for j in (0, 1) if bits[j]] + ([cirq.X(q[4])] if not bits[1] else [])), cirq.Moment(cirq.measure(q[4], key=k1))]
        outer_keys_clash = name_of(k0) == k1 or name_of(k1) == k1
        if outer_keys_clash:
            prep = prep[:1]
        state = {0: bits[0], 1: bits[1], 2: 0, 3: 0, 4: 0 if bits[1] else 1}
        want = {} if outer_keys_clash else {k1: state[4]}
        for kind, qi, arg in flat:
            if kind == 'x':
                if all(want[name_of(k)] for k in arg):
                    state[qi] ^= 1
            else:
                want[name_of(arg)] = state[qi]
        forms = {'wrapped': lambda: cirq.Circuit(op), 'mapped_circuit(deep)': lambda: op.mapped_circuit(deep=True), 'unroll_circuit_op(deep)': lambda: cirq.unroll_circuit_op(cirq.Circuit(op), deep=True, tags_to_check=None),
                 'decompose': lambda: cirq.Circuit(cirq.decompose(op))}
        ctx.case(['if-block', block_kind, how, bits, k0, k1], True)
        for fname, mk in forms.items():
            ctx.count('check', f'if-block:{fname}')
            try:
                form = mk()
                res = cirq.Simulator(seed=1).run(cirq.Circuit(prep, form), repetitions=2)
                got = {k: int(v[0][0][0]) for k, v in res.records.items()}
                if any(int(x) != got[k] for k, v in res.records.items() for x in v[:, 0, 0]):
                    got = 'not deterministic'
            except Exception as e:  # noqa: BLE001
                got = f'{type(e).__name__}: {e}'[:150]
            if got != want:
                ctx.report_witness('if-block:' + fname.split('(')[0], f'an If block inside a sub-circuit with renamed / scoped keys ({how}; form: {fname}): the records are not those of the flat program with the renamed keys',
                                   {'lines': [{'block': block_kind, 'renaming': how, 'bits': bits, 'keys': [k0, k1], 'operation': repr(op)[:1500]}], 'impl_out': [got], 'spec_out': [want],
                                    'theorem_or_correspondence': 'Model.C12 key maps and scoping (controls inside If blocks)'})
                break


def check_sympy_key_maps(ctx, cirq):
    """a key map on a sub-circuit renames all keys of a sympy condition at once (also when the map permutes them)"""
    import sympy

    q0, q1, q2 = cirq.LineQubit.range(3)
    a, b_, c = sympy.symbols('a b c')
    for expr, name in ((a > b_, 'a > b'), (a + 2 * b_ > 1, 'a + 2b > 1'), (sympy.Eq(a, b_ + 1), 'a == b + 1'), ((a > b_) & (c > a), '(a > b) & (c > a)')):
        for kmap in ({'a': 'b', 'b': 'a'}, {'a': 'b', 'b': 'c', 'c': 'a'}, {'a': 'x'}, {'b': 'a', 'a': 'x'}):  # injective on the measured keys
            for bits in ((1, 0, 0), (0, 1, 1), (1, 1, 0), (0, 0, 1)):
                body = cirq.FrozenCircuit(
                    [cirq.X(q) for q, v in zip((q0, q1, q2), bits) if v],
                    cirq.measure(q0, key='a'), cirq.measure(q1, key='b'), cirq.measure(q2, key='c'),
                    cirq.X(q0).with_classical_controls(cirq.SympyCondition(expr)), cirq.measure(q0, key='out'))
                wrapped = cirq.Circuit(cirq.CircuitOperation(body, measurement_key_map=kmap))
                ctx.count('check', 'sympy-key-map')
                ctx.case(['sympy-key-map', name, sorted(kmap.items()), bits], True)
                fire = bool(expr.subs({a: bits[0], b_: bits[1], c: bits[2]}))
                want = {kmap.get('a', 'a'): bits[0], kmap.get('b', 'b'): bits[1], kmap.get('c', 'c'): bits[2], 'out': bits[0] ^ int(fire)}
                try:
                    rec = cirq.Simulator().run(wrapped).records
                    got = {k: int(v[0][0][0]) for k, v in rec.items()}
                except ValueError as e:
                    got = f'ValueError: {e}'[:120]
                if got != want:
                    ctx.report_witness('keymap:sympy-condition', 'a measurement key map on a sub-circuit does not rename the keys of a sympy condition consistently',
                                       {'lines': [{'condition': name, 'key_map': kmap, 'bits': bits, 'circuit': repr(wrapped)[:1500]}], 'impl_out': [got], 'spec_out': [want],
                                        'theorem_or_correspondence': 'Model.C12 key maps (simultaneous renaming)'})
                    break


def depth_of(moments):
    d = 0
    for m in moments:
        for n in m:
            if 'sub' in n:
                d = max(d, 1 + depth_of(n['sub']['body']))
    return d


def any_zero_reps(moments):
    for m in moments:
        for n in m:
            if 'sub' in n and (n['sub']['reps'] == 0 or any_zero_reps(n['sub']['body'])):
                return True
    return False


def replay(ctx, rep):
    print(json.dumps(rep, indent=1)[:3000])
    return 1
