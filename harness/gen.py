"""Structured generators of Cirq objects shared by the property checks (all randomness from the rng
passed in)."""
from __future__ import annotations

import math

import numpy as np

SPECIAL_EXPONENTS = [0, 0.25, -0.25, 0.5, -0.5, 1, -1, 2, 1.5, -1.5, 2.5, 0.125, 3, 4]


def rand_exponent(rng):
    r = rng.random()
    if r < 0.55:
        return rng.choice(SPECIAL_EXPONENTS)
    if r < 0.9:
        return round(rng.uniform(-2.5, 2.5), 3)
    return rng.uniform(-7, 7)


def rand_shift(rng):
    return rng.choice([0, 0, 0, -0.5, 0.5, 0.25, 0.3, -1])


def rand_unitary(rng, dim):
    """Haar-ish random unitary from the rng (QR of a Gaussian matrix)."""
    a = np.array([[complex(rng.gauss(0, 1), rng.gauss(0, 1)) for _ in range(dim)] for _ in range(dim)])
    q, r = np.linalg.qr(a)
    d = np.diag(r)
    return q * (d / np.abs(d))


def one_qubit_gate(cirq, rng):
    t, s = rand_exponent(rng), rand_shift(rng)
    k = rng.randrange(16)
    if k == 0:
        return rng.choice([cirq.X, cirq.Y, cirq.Z, cirq.H, cirq.S, cirq.T, cirq.I])
    if k == 1:
        return cirq.XPowGate(exponent=t, global_shift=s)
    if k == 2:
        return cirq.YPowGate(exponent=t, global_shift=s)
    if k == 3:
        return cirq.ZPowGate(exponent=t, global_shift=s)
    if k == 4:
        return cirq.HPowGate(exponent=t, global_shift=s)
    if k == 5:
        return rng.choice([cirq.rx, cirq.ry, cirq.rz])(rng.choice([0, math.pi, math.pi / 2, -math.pi / 4, rng.uniform(-7, 7)]))
    if k == 6:
        return cirq.PhasedXPowGate(phase_exponent=rand_exponent(rng), exponent=t, global_shift=s)
    if k == 7:
        return cirq.PhasedXZGate(x_exponent=rand_exponent(rng), z_exponent=rand_exponent(rng), axis_phase_exponent=rand_exponent(rng))
    if k == 8:
        return cirq.MatrixGate(rand_unitary(rng, 2))
    if k == 9:
        return cirq.X**t
    if k == 10:
        return cirq.Z**t
    if k == 11:
        return cirq.Y**t
    if k == 12:
        return cirq.H**t
    if k == 13:
        return cirq.S**rng.choice([1, -1])
    if k == 14:
        return cirq.T**rng.choice([1, -1])
    return cirq.IdentityGate(1)


def two_qubit_gate(cirq, rng):
    t, s = rand_exponent(rng), rand_shift(rng)
    k = rng.randrange(18)
    if k == 0:
        return rng.choice([cirq.CZ, cirq.CNOT, cirq.SWAP, cirq.ISWAP, cirq.SQRT_ISWAP, cirq.SQRT_ISWAP_INV, cirq.XX, cirq.YY, cirq.ZZ])
    if k == 1:
        return cirq.CZPowGate(exponent=t, global_shift=s)
    if k == 2:
        return cirq.CXPowGate(exponent=t, global_shift=s)
    if k == 3:
        return cirq.SwapPowGate(exponent=t, global_shift=s)
    if k == 4:
        return cirq.ISwapPowGate(exponent=t, global_shift=s)
    if k == 5:
        return cirq.XXPowGate(exponent=t, global_shift=s)
    if k == 6:
        return cirq.YYPowGate(exponent=t, global_shift=s)
    if k == 7:
        return cirq.ZZPowGate(exponent=t, global_shift=s)
    if k == 8:
        return cirq.FSimGate(theta=rng.choice([0, math.pi / 2, math.pi / 4, rng.uniform(-4, 4)]), phi=rng.choice([0, math.pi, math.pi / 6, rng.uniform(-4, 4)]))
    if k == 9:
        return cirq.PhasedFSimGate(*[rng.choice([0, math.pi / 2, rng.uniform(-4, 4)]) for _ in range(5)])
    if k == 10:
        return cirq.PhasedISwapPowGate(phase_exponent=rand_exponent(rng), exponent=t)
    if k == 11:
        return cirq.givens(rng.uniform(-4, 4))
    if k == 12:
        return cirq.MatrixGate(rand_unitary(rng, 4))
    if k == 13:
        return cirq.ControlledGate(one_qubit_gate(cirq, rng), control_values=[rng.choice([0, 1])])
    if k == 14:
        return cirq.CZ**t
    if k == 15:
        return cirq.CNOT**t
    if k == 16:
        return cirq.ms(rng.uniform(-4, 4))
    return cirq.IdentityGate(2)


def three_qubit_gate(cirq, rng):
    t, s = rand_exponent(rng), rand_shift(rng)
    k = rng.randrange(8)
    if k == 0:
        return rng.choice([cirq.CCZ, cirq.CCX, cirq.CSWAP])
    if k == 1:
        return cirq.CCZPowGate(exponent=t, global_shift=s)
    if k == 2:
        return cirq.CCXPowGate(exponent=t, global_shift=s)
    if k == 3:
        return cirq.ControlledGate(two_qubit_gate(cirq, rng), control_values=[rng.choice([0, 1])])
    if k == 4:
        return cirq.ControlledGate(one_qubit_gate(cirq, rng), num_controls=2, control_values=[rng.choice([0, 1]), rng.choice([0, 1])])
    if k == 5:
        return cirq.ThreeQubitDiagonalGate([rng.uniform(-4, 4) for _ in range(8)])
    if k == 6:
        return cirq.MatrixGate(rand_unitary(rng, 8))
    return cirq.IdentityGate(3)


def qudit_gate(cirq, rng, dims):
    """a gate acting on qids of the given dimensions (at least one of them is not 2)"""
    k = rng.randrange(5)
    if len(dims) == 1 and k == 0:
        return cirq.XPowGate(exponent=rng.choice([1, -1, 2]), dimension=dims[0]) if dims[0] > 2 else cirq.X
    if len(dims) == 1 and k == 1:
        return cirq.ZPowGate(exponent=rand_exponent(rng), global_shift=rand_shift(rng), dimension=dims[0])
    if k == 2:
        return cirq.IdentityGate(qid_shape=tuple(dims))
    return cirq.MatrixGate(rand_unitary(rng, int(np.prod(dims))), qid_shape=tuple(dims))


def ancilla_gate(cirq, rng, k):
    """a gate without a matrix of its own whose decomposition borrows ancilla qubits; its docstring defines the matrix on the targets"""
    import cirq.testing as ct

    if rng.random() < 0.7:
        return ct.PhaseUsingCleanAncilla(theta=round(rng.uniform(-1, 1), 3), phase_state=rng.randrange(2**k), target_bitsize=k, ancilla_bitsize=rng.choice([1, 1, 2]))
    return ct.PhaseUsingDirtyAncilla(phase_state=rng.randrange(2**k), target_bitsize=k, ancilla_bitsize=rng.choice([1, 2]))


def op_unitary(cirq, op):
    """the matrix of an operation: cirq.unitary(op) (tied to the documentation by C03), except for the ancilla-borrowing sample gates, whose
    documented matrix (the phase on one basis state of the targets, in the order of the operation's qubits) is written out here"""
    import cirq.testing as ct

    g = getattr(op, 'gate', None)
    if isinstance(g, (ct.PhaseUsingCleanAncilla, ct.PhaseUsingDirtyAncilla)):
        m = np.eye(2**g.target_bitsize, dtype=np.complex128)
        m[g.phase_state, g.phase_state] = np.exp(1j * np.pi * g.theta) if isinstance(g, ct.PhaseUsingCleanAncilla) else -1
        return m
    return cirq.unitary(op)


def random_unitary_circuit(cirq, rng, *, max_wires=5, qudits=False, max_ops=10, classical=False, phases=False, ancilla=False):
    """returns (circuit, qids) — all operations unitary; random moment structure"""
    n = rng.randint(1, max_wires)
    if qudits:
        dims = [rng.choice([2, 2, 3]) for _ in range(n)]
        if all(d == 2 for d in dims):
            dims[rng.randrange(n)] = 3
    else:
        dims = [2] * n
    qids = [cirq.LineQid(i, d) if d != 2 else cirq.LineQubit(i) for i, d in enumerate(dims)]
    ops = []
    for _ in range(rng.randint(0, max_ops)):
        if phases and not classical and rng.random() < 0.12:
            # an operation on no qubits: a global phase
            ops.append(cirq.global_phase_operation(rng.choice([1j, -1, -1j, complex(math.cos(0.3), math.sin(0.3))])))
            continue
        k = min(rng.choice([1, 1, 1, 2, 2, 2, 3]), n)
        targets = rng.sample(qids, k)
        tdims = [q.dimension for q in targets]
        if classical:
            perm = list(range(k))
            rng.shuffle(perm)
            g = {
                1: [cirq.X, cirq.X**1, cirq.I],
                2: [cirq.CNOT, cirq.SWAP, cirq.QubitPermutationGate(perm), cirq.ControlledGate(cirq.X, control_values=[0])],
                3: [cirq.CCX, cirq.CSWAP, cirq.QubitPermutationGate(perm), cirq.ControlledGate(cirq.SWAP, control_values=[0]),
                    cirq.ControlledGate(cirq.X, num_controls=2, control_values=[0, 1])],
            }[k]
            if k == 3 and rng.random() < 0.35:
                # control values given as a sum of products (not a per-qubit product), e.g. XOR / equality controls
                terms = rng.sample([[0, 0], [0, 1], [1, 0], [1, 1]], rng.choice([1, 2, 2, 3]))
                g = [cirq.ControlledGate(cirq.X, control_values=cirq.SumOfProducts(terms))]
            elif k == 3 and rng.random() < 0.15:
                g = [cirq.ControlledGate(cirq.X, control_values=cirq.ProductOfSums([(0, 1), (rng.choice([0, 1]),)]))]
            ops.append(rng.choice(g).on(*targets))
        elif any(d != 2 for d in tdims):
            ops.append(qudit_gate(cirq, rng, tdims).on(*targets))
        elif ancilla and rng.random() < 0.05:
            ops.append(ancilla_gate(cirq, rng, k).on(*targets))
        else:
            g = {1: one_qubit_gate, 2: two_qubit_gate, 3: three_qubit_gate}[k](cirq, rng)
            ops.append(g.on(*targets))
    style = rng.randrange(4)
    if style == 0:
        circuit = cirq.Circuit(ops)
    elif style == 1:
        circuit = cirq.Circuit(ops, strategy=cirq.InsertStrategy.NEW)
    elif style == 2:
        circuit = cirq.Circuit()
        for op in ops:
            circuit.append(op, strategy=rng.choice([cirq.InsertStrategy.EARLIEST, cirq.InsertStrategy.NEW_THEN_INLINE, cirq.InsertStrategy.INLINE]))
    else:
        circuit = cirq.Circuit(ops)
        if len(circuit) > 0 and rng.random() < 0.5:
            circuit.insert(rng.randrange(len(circuit) + 1), cirq.Moment())
    return circuit, qids


def ops_in_order(circuit):
    return [op for moment in circuit for op in moment.operations]
