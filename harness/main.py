"""Entry point: ./check Cxx [--tier quick|thorough] [--replay FILE]"""
from __future__ import annotations

import argparse
import importlib
import json
import os
import sys
import traceback

from harness import common


def main(argv=None) -> int:
    ap = argparse.ArgumentParser()
    ap.add_argument('prop')
    ap.add_argument('--tier', default=os.environ.get('VERIF_TIER', 'quick'), choices=['quick', 'thorough'])
    ap.add_argument('--replay', default=None)
    args = ap.parse_args(argv)
    seed = int(os.environ.get('VERIF_SEED', '0') or 0)
    prop = args.prop.upper()
    try:
        mod = importlib.import_module(f'harness.props.{prop.lower()}')
    except ModuleNotFoundError:
        print(f'no check for {prop}', file=sys.stderr)
        return 2
    run = common.Run(prop, args.tier, seed)
    import warnings

    warnings.simplefilter('ignore')
    try:
        common.import_cirq()
        if args.replay:
            replay = json.loads(open(args.replay).read())
            return mod.replay(run, replay)
        mod.run(run)
        return run.finish()
    except common.InfraError as e:
        print(f'[{prop}] infrastructure error: {e}', file=sys.stderr)
        return 2
    except Exception:
        traceback.print_exc()
        print(f'[{prop}] infrastructure error (unexpected exception in harness)', file=sys.stderr)
        return 2


if __name__ == '__main__':
    sys.exit(main())
