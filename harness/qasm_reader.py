"""A small, independent reader for the OpenQASM 2.0 / 3.0 subset a circuit exporter produces.

It is purely syntactic: it turns the text into a list of statements (gate applications with evaluated real
parameters, measurements, resets, single-condition `if`s) over one quantum register and named classical
registers.  The *meaning* of the gate names is not decided here but in Lean (`CirqVerif.Spec.Qasm`, the
transcription of qelib1.inc / stdgates.inc).  Anything outside the subset raises `QasmSyntaxError` — the
reader never guesses.
"""
from __future__ import annotations

import ast
import math
import re


class QasmSyntaxError(Exception):
    pass


def _eval_expr(text: str) -> float:
    """real-valued parameter expression: numbers, pi, + - * / and parentheses"""
    try:
        node = ast.parse(text.strip(), mode='eval').body
    except SyntaxError as e:
        raise QasmSyntaxError(f'bad expression {text!r}') from e

    def ev(n):
        if isinstance(n, ast.Constant) and isinstance(n.value, (int, float)):
            return float(n.value)
        if isinstance(n, ast.Name) and n.id == 'pi':
            return math.pi
        if isinstance(n, ast.UnaryOp) and isinstance(n.op, (ast.USub, ast.UAdd)):
            v = ev(n.operand)
            return -v if isinstance(n.op, ast.USub) else v
        if isinstance(n, ast.BinOp) and isinstance(n.op, (ast.Add, ast.Sub, ast.Mult, ast.Div)):
            a, b = ev(n.left), ev(n.right)
            return {ast.Add: a + b, ast.Sub: a - b, ast.Mult: a * b, ast.Div: a / b if b else float('nan')}[type(n.op)]
        raise QasmSyntaxError(f'unsupported expression {text!r}')

    return ev(node)


def _split_params(s: str):
    out, depth, cur = [], 0, ''
    for ch in s:
        if ch == '(':
            depth += 1
        elif ch == ')':
            depth -= 1
        if ch == ',' and depth == 0:
            out.append(cur)
            cur = ''
        else:
            cur += ch
    if cur.strip():
        out.append(cur)
    return out


_ARG = re.compile(r'^([A-Za-z_][A-Za-z0-9_]*)\[(\d+)\]$')


class Program:
    def __init__(self):
        self.version = None
        self.includes = []
        self.qreg = None  # (name, size)
        self.cregs = []  # [name, size]
        self.creg_comment = {}  # name -> text of a trailing "// Measurement: <key>" comment
        self.stmts = []


def parse(text: str) -> Program:
    prog = Program()
    # keep the "Measurement:" comments attached to the declaration on the same line
    clean_lines = []
    for line in text.splitlines():
        code, _, comment = line.partition('//')
        m = re.match(r'\s*(?:creg\s+([A-Za-z_]\w*)\[\d+\]|bit\[\d+\]\s+([A-Za-z_]\w*))\s*;', code)
        if m and comment.strip().startswith('Measurement:'):
            prog.creg_comment[m.group(1) or m.group(2)] = comment.strip()[len('Measurement:'):].strip()
        clean_lines.append(code)
    body = '\n'.join(clean_lines)
    if '{' in body or '}' in body:
        raise QasmSyntaxError('gate definitions / blocks are outside the supported subset')
    for raw in body.split(';'):
        s = ' '.join(raw.split())
        if not s:
            continue
        prog.stmts_raw = getattr(prog, 'stmts_raw', []) + [s]
        st = _statement(prog, s)
        if st is not None:
            prog.stmts.append(st)
    if prog.version is None:
        raise QasmSyntaxError('missing OPENQASM header')
    if prog.qreg is None and any(True for _ in prog.stmts):
        raise QasmSyntaxError('statements without a quantum register')
    return prog


def _qarg(prog, tok):
    m = _ARG.match(tok.strip())
    if not m or prog.qreg is None or m.group(1) != prog.qreg[0]:
        raise QasmSyntaxError(f'bad quantum argument {tok!r}')
    i = int(m.group(2))
    if i >= prog.qreg[1]:
        raise QasmSyntaxError(f'quantum index out of range {tok!r}')
    return i


def _carg(prog, tok):
    m = _ARG.match(tok.strip())
    if not m:
        raise QasmSyntaxError(f'bad classical argument {tok!r}')
    sizes = dict(prog.cregs)
    if m.group(1) not in sizes or int(m.group(2)) >= sizes[m.group(1)]:
        raise QasmSyntaxError(f'undeclared classical bit {tok!r}')
    return m.group(1), int(m.group(2))


def _statement(prog, s):
    m = re.match(r'^OPENQASM (\d+)\.(\d+)$', s)
    if m:
        prog.version = int(m.group(1))
        return None
    m = re.match(r'^include "([^"]+)"$', s)
    if m:
        prog.includes.append(m.group(1))
        return None
    m = re.match(r'^qreg ([A-Za-z_]\w*)\[(\d+)\]$', s) or re.match(r'^qubit\[(\d+)\] ([A-Za-z_]\w*)$', s)
    if m:
        if prog.qreg is not None:
            raise QasmSyntaxError('more than one quantum register')
        a, b = m.group(1), m.group(2)
        prog.qreg = (a, int(b)) if s.startswith('qreg') else (b, int(a))
        return None
    m = re.match(r'^creg ([A-Za-z_]\w*)\[(\d+)\]$', s)
    if m:
        prog.cregs.append([m.group(1), int(m.group(2))])
        return None
    m = re.match(r'^bit\[(\d+)\] ([A-Za-z_]\w*)$', s)
    if m:
        prog.cregs.append([m.group(2), int(m.group(1))])
        return None
    if s.startswith('barrier'):
        return None
    m = re.match(r'^if ?\(\s*([A-Za-z_]\w*)\s*(==|!=)\s*(\d+)\s*\)\s*(.+)$', s)
    if m:
        if m.group(1) not in dict(prog.cregs):
            raise QasmSyntaxError(f'condition on undeclared register {m.group(1)!r}')
        if m.group(2) == '!=' and prog.version == 2:
            raise QasmSyntaxError('OpenQASM 2.0 has no != comparison')
        inner = _statement(prog, m.group(4))
        if inner is None:
            raise QasmSyntaxError(f'bad conditional body {m.group(4)!r}')
        return {'kind': 'if', 'creg': m.group(1), 'value': int(m.group(3)), 'equal': m.group(2) == '==', 'body': inner}
    m = re.match(r'^measure (\S+) ?-> ?(\S+)$', s)
    if m:
        if prog.version != 2:
            raise QasmSyntaxError('arrow measurement in OpenQASM 3')
        c, bit = _carg(prog, m.group(2))
        return {'kind': 'measure', 'q': _qarg(prog, m.group(1)), 'creg': c, 'bit': bit}
    m = re.match(r'^(\S+) ?= ?measure (\S+)$', s)
    if m:
        if prog.version != 3:
            raise QasmSyntaxError('assignment measurement in OpenQASM 2')
        c, bit = _carg(prog, m.group(1))
        return {'kind': 'measure', 'q': _qarg(prog, m.group(2)), 'creg': c, 'bit': bit}
    m = re.match(r'^reset (\S+)$', s)
    if m:
        return {'kind': 'reset', 'q': _qarg(prog, m.group(1))}
    m = re.match(r'^([A-Za-z_]\w*)\s*(?:\((.*)\))?\s+(.+)$', s)
    if m:
        name, params, args = m.group(1), m.group(2), m.group(3)
        ps = [_eval_expr(p) for p in _split_params(params)] if params is not None and params.strip() else []
        qs = [_qarg(prog, a) for a in args.split(',')]
        if len(set(qs)) != len(qs):
            raise QasmSyntaxError(f'repeated quantum argument in {s!r}')
        return {'kind': 'gate', 'name': name, 'params': ps, 'qs': qs}
    raise QasmSyntaxError(f'cannot read statement {s!r}')
