"""A scripted pseudo-random generator passed to Cirq simulators as `seed`: it records every requested
probability vector and returns scripted outcomes, so that every branch of a small circuit can be
enumerated with its exact probability (no statistics)."""
from __future__ import annotations

import collections

import numpy as np


class Scripted(np.random.RandomState):
    def __init__(self, script):
        super().__init__(0)
        self.script = list(script)
        self.log = []
        self.pos = 0

    def _next(self, n):
        v = self.script[self.pos] if self.pos < len(self.script) else 0
        self.pos += 1
        return v % n if n else v

    def choice(self, a, size=None, replace=True, p=None):
        n = a if isinstance(a, (int, np.integer)) else len(a)
        pv = None if p is None else tuple(float(x) for x in np.asarray(p, dtype=float))
        if size is None:
            k = self._next(n)
            self.log.append(('choice', n, pv, k))
            return k if isinstance(a, (int, np.integer)) else a[k]
        cnt = int(np.prod(size))
        ks = [self._next(n) for _ in range(cnt)]
        for k in ks:
            self.log.append(('choice', n, pv, k))
        arr = np.array(ks).reshape(size)
        return arr if isinstance(a, (int, np.integer)) else np.asarray(a)[arr]

    def random(self, size=None):
        """A uniform draw.  Cirq's trajectory code consumes it as `p -= weight; if p < 0: break` over the Kraus
        weights; the symbolic value returned here answers `p < 0` with True at the scripted position, which is
        the branch a uniform p selects with probability equal to that weight."""
        k = self._next(0)
        sp = SymP(int(k))
        self.log.append(('symp', sp))
        return sp

    def random_sample(self, size=None):
        return self.random(size)

    def rand(self, *args):
        return self.random()

    def randint(self, low, high=None, size=None, dtype=int):
        n = low if high is None else high - low
        if size is None:
            k = self._next(n)
            self.log.append(('choice', n, None, k))
            return k + (0 if high is None else low)
        cnt = int(np.prod(size))
        ks = [self._next(n) for _ in range(cnt)]
        for k in ks:
            self.log.append(('choice', n, None, k))
        return np.array(ks).reshape(size) + (0 if high is None else low)


class SymP:
    """symbolic uniform random number: see Scripted.random"""

    def __init__(self, k):
        self.k = k
        self.weights = []
        self.comparisons = 0
        self.broke = False

    def __sub__(self, w):
        self.weights.append(float(w))
        return self

    __isub__ = __sub__

    def __lt__(self, other):  # `p < 0` after subtracting the weight of Kraus operator number `comparisons`
        hit = self.comparisons == self.k
        self.comparisons += 1
        if hit:
            self.broke = True
        return hit

    def __ge__(self, other):  # `p >= 0`: the loop ran out without selecting (only the scripted position is too large)
        return not self.broke

    def __float__(self):
        return 0.0


def enumerate_branches(run_once, max_branches=4000):
    """run_once(prng) -> observable (hashable).  Explores every sequence of discrete draws depth-first and
    returns {observable: probability}.  Draws of `random()` (continuous) are not supported here."""
    out = collections.defaultdict(float)
    stack = [[]]
    explored = 0
    while stack:
        script = stack.pop()
        explored += 1
        if explored > max_branches:
            raise RuntimeError('too many branches')
        prng = Scripted(script + [0] * 64)
        obs = run_once(prng)
        prob = 1.0
        def chosen(e):
            return e[3] if e[0] == 'choice' else e[1].k

        for i, ent in enumerate(prng.log):
            if ent[0] == 'symp':
                sp = ent[1]
                if not sp.broke:
                    prob = 0.0  # scripted position beyond the last Kraus operator: not a branch
                    break
                prob *= sp.weights[sp.k]
                if i >= len(script) - 1:
                    # the number of Kraus operators is discovered lazily: from the run that chose index k at this
                    # (newly discovered or last scripted) position, also explore index k + 1
                    stack.append([chosen(e) for e in prng.log[:i]] + [sp.k + 1])
                continue
            _, n, pv, k = ent
            prob *= pv[k] if pv is not None else 1.0 / n
            if i >= len(script):
                for alt in range(1, n):
                    pa = pv[alt] if pv is not None else 1.0 / n
                    if pa > 1e-13:
                        stack.append([chosen(e) for e in prng.log[:i]] + [alt])
        if prob > 1e-13:
            out[obs] += prob
    return dict(out)
