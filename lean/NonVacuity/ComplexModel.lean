import Mathlib.Analysis.SpecialFunctions.Trigonometric.Basic
import Mathlib.Algebra.Ring.GrindInstances
import CirqVerif.Props.C03b
import CirqVerif.Props.C19b
import CirqVerif.Props.C04Rules
import CirqVerif.Props.C09b
/-!
# Non-vacuity: the hypotheses of the symbolic gate theorems hold in the intended model

The theorems of `Proofs/GateDocs`, `Props/C03`, `Props/C03b`, `Props/C06Rules`, `Props/C08b` and `Props/C19b` are
stated over any commutative ring with a "lawful" environment of elementary functions (`Lawful`, `Lawful2`,
`LawfulQ`, `LawfulQ8`).  Here (and only here) Mathlib is imported, to show that the model the gate documentation
talks about — parameters in ℝ, amplitudes in ℂ, `ph x = e^{iπx}`, real `cos` / `sin` — satisfies every one of
those hypotheses.  So the symbolic theorems are statements about the real matrices, not implications with an
unsatisfiable premise.  This file is a separate `lean_lib` (nothing the compiled driver links imports it).
-/
open CirqVerif.GateDocs CirqVerif.Qasm Complex

namespace CirqVerif.NonVacuity

/-- parameters in ℝ, amplitudes in ℂ, the elementary functions the documentation means -/
noncomputable def cEnv : Env ℝ ℂ where
  I := Complex.I
  half := 1 / 2
  isq2 := ((Real.sqrt 2)⁻¹ : ℝ)
  ph x := Complex.exp (Complex.I * Real.pi * x)
  cosπ x := Real.cos (Real.pi * x)
  sinπ x := Real.sin (Real.pi * x)
  cis x := Complex.exp (Complex.I * x)
  cos x := Real.cos x
  sin x := Real.sin x
  sqrt x := Real.sqrt x
  halfA := 1 / 2
  twoA := 2
  oneA := 1

noncomputable def cEnv2 : Env2 ℝ ℂ where
  toEnv := cEnv
  ratA p q := (p : ℝ) / (q : ℝ)
  ratR p q := ((p : ℝ) / (q : ℝ) : ℝ)
  scaleA a p q := a * (p : ℝ) / (q : ℝ)

theorem cEnv_lawful : Lawful cEnv where
  ph_add x y := by
    simp only [cEnv]; rw [← Complex.exp_add]; congr 1; push_cast; ring
  ph_zero := by simp [cEnv]
  cos_def x := by
    simp only [cEnv]
    rw [show (Real.cos (Real.pi * x) : ℂ) = Complex.cos (Real.pi * x) by push_cast; rfl]
    rw [Complex.cos]; push_cast; ring_nf
  sin_def x := by
    simp only [cEnv]
    rw [show (Real.sin (Real.pi * x) : ℂ) = Complex.sin (Real.pi * x) by push_cast; rfl]
    rw [Complex.sin]; push_cast; ring_nf
  I_sq := Complex.I_mul_I
  half_def := by simp only [cEnv]; norm_num
  isq2_sq := by
    simp only [cEnv]
    rw [← Complex.ofReal_mul, ← mul_inv, Real.mul_self_sqrt (by norm_num)]; push_cast; norm_num
  halfA_def := by simp only [cEnv]; norm_num

theorem cEnv_ph_half : cEnv.ph cEnv.halfA = cEnv.I := by
  simp only [cEnv]
  rw [show Complex.I * (Real.pi : ℂ) * ((1 / 2 : ℝ) : ℂ) = (Real.pi : ℂ) / 2 * Complex.I by push_cast; ring]
  exact Complex.exp_pi_div_two_mul_I

theorem cEnv_lawfulQ : LawfulQ cEnv := { cEnv_lawful with ph_half := cEnv_ph_half }

theorem cEnv_ph_quarter : cEnv.ph (cEnv.halfA * cEnv.halfA) = cEnv.isq2 * (1 + cEnv.I) := by
  simp only [cEnv]
  rw [show Complex.I * (Real.pi : ℂ) * ((1 / 2 * (1 / 2) : ℝ) : ℂ) = ((Real.pi / 4 : ℝ) : ℂ) * Complex.I by push_cast; ring]
  rw [Complex.exp_mul_I, ← Complex.ofReal_cos, ← Complex.ofReal_sin, Real.cos_pi_div_four, Real.sin_pi_div_four]
  have h2 : (Real.sqrt 2)⁻¹ = Real.sqrt 2 / 2 := by
    rw [inv_eq_one_div, div_eq_div_iff (by positivity) (by norm_num)]
    nlinarith [Real.mul_self_sqrt (show (0:ℝ) ≤ 2 by norm_num)]
  rw [h2]; push_cast; ring

theorem cEnv_lawfulQ8 : LawfulQ8 cEnv := { cEnv_lawfulQ with ph_quarter := cEnv_ph_quarter }

theorem cEnv2_lawful2 : Lawful2 cEnv2 where
  toLawful := cEnv_lawful
  rat_0_2 := by simp [cEnv2]
  rat_2_2 := by simp [cEnv2]
  ratR_half := by simp [cEnv2, cEnv]
  ph_one := by
    show Complex.exp (Complex.I * Real.pi * ((1 : ℝ) : ℂ)) = -1
    rw [show Complex.I * (Real.pi : ℂ) * ((1 : ℝ) : ℂ) = (Real.pi : ℂ) * Complex.I by push_cast; ring]
    exact Complex.exp_pi_mul_I

/-- the model is not degenerate: distinct parameters give distinct phases, `0 ≠ 1` -/
theorem cEnv_nontrivial : cEnv.ph 0 ≠ cEnv.ph 1 := by
  have h1 : cEnv.ph 1 = -1 := cEnv2_lawful2.ph_one
  rw [cEnv_lawful.ph_zero, h1]; norm_num

/-- the side hypotheses of `C04_decompose_phasediswap` and `C04_decompose_fsim` hold with the half-turn counts `θ/π`, `φ/π` -/
theorem cEnv_twoA : cEnv.twoA = 1 + 1 := by simp only [cEnv]; norm_num

theorem cEnv_fsim_hyps (θ φ : ℝ) :
    cEnv.cos θ = cEnv.cosπ (θ / Real.pi) ∧ cEnv.sin θ = cEnv.sinπ (θ / Real.pi) ∧ cEnv.cis (-φ) = cEnv.ph (-(φ / Real.pi)) := by
  have hpi : Real.pi ≠ 0 := Real.pi_ne_zero
  have e1 : Real.pi * (θ / Real.pi) = θ := by field_simp
  refine ⟨?_, ?_, ?_⟩
  · simp only [cEnv, e1]
  · simp only [cEnv, e1]
  · simp only [cEnv]; congr 1; push_cast; field_simp

/-- complex conjugation satisfies `LawfulConj` (Props/C09b) … -/
theorem cEnv_lawfulConj : LawfulConj cEnv (starRingEnd ℂ) where
  conj_zero := map_zero _
  conj_one := map_one _
  conj_neg x := map_neg _ x
  conj_mul x y := map_mul _ x y
  conj_I := Complex.conj_I
  conj_sqrt _ := Complex.conj_ofReal _

/-- … and the weights of a probability add up to one: the hypothesis of the trace-preservation theorems holds for every `0 ≤ p ≤ 1` -/
theorem cEnv_weights (p : ℝ) (h0 : 0 ≤ p) (h1 : p ≤ 1) :
    cEnv.sqrt (cEnv.oneA - p) * cEnv.sqrt (cEnv.oneA - p) + cEnv.sqrt p * cEnv.sqrt p = 1 := by
  simp only [cEnv]
  rw [← Complex.ofReal_mul, ← Complex.ofReal_mul, Real.mul_self_sqrt (by linarith), Real.mul_self_sqrt h0]
  push_cast; ring

end CirqVerif.NonVacuity
