import CirqVerif.Generated.C13.R_z_1p5
/-! GENERATED obligation (re-decided on every run). -/
namespace CirqVerif.Generated.C13
open CirqVerif CirqVerif.C13

/-- the tableau update of `z_1p5` maps every row Pauli `P` to `U P U†` for the matrix `U` that `cirq.unitary` reports -/
theorem tableau_rule_z_1p5 : (isUnitary u_z_1p5 && ruleIsConjugation u_z_1p5 rule_z_1p5) = true := by decide +kernel

end CirqVerif.Generated.C13
