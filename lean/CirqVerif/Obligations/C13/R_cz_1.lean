import CirqVerif.Generated.C13.R_cz_1
/-! GENERATED obligation (re-decided on every run). -/
namespace CirqVerif.Generated.C13
open CirqVerif CirqVerif.C13

/-- the tableau update of `cz_1` maps every row Pauli `P` to `U P U†` for the matrix `U` that `cirq.unitary` reports -/
theorem tableau_rule_cz_1 : (isUnitary u_cz_1 && ruleIsConjugation u_cz_1 rule_cz_1) = true := by decide +kernel

end CirqVerif.Generated.C13
