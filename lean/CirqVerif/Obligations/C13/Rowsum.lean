import CirqVerif.Generated.C13.Rowsum
/-! GENERATED obligation (re-decided on every run). -/
namespace CirqVerif.Generated.C13
open CirqVerif CirqVerif.C13

/-- `_rowsum` multiplies the row Paulis: whenever the product of two single-qubit row Paulis is a real multiple
of a Pauli (they commute), the new bits are the product Pauli and the sign bit is its sign -/
theorem rowsum_is_product : rowsumTable.all (fun (x1, z1, x2, z2, r, x, z) =>
    let m := QMat.mul (pauliMat x1 z1) (pauliMat x2 z2)
    let commute := QMat.mul (pauliMat x1 z1) (pauliMat x2 z2) == QMat.mul (pauliMat x2 z2) (pauliMat x1 z1)
    !commute || (m == rowMat [(x, z)] r)) = true ∧ rowsumTable.length = 16 := by decide +kernel

end CirqVerif.Generated.C13
