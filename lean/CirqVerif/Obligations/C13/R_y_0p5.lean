import CirqVerif.Generated.C13.R_y_0p5
/-! GENERATED obligation (re-decided on every run). -/
namespace CirqVerif.Generated.C13
open CirqVerif CirqVerif.C13

/-- the tableau update of `y_0p5` maps every row Pauli `P` to `U P U†` for the matrix `U` that `cirq.unitary` reports -/
theorem tableau_rule_y_0p5 : (isUnitary u_y_0p5 && ruleIsConjugation u_y_0p5 rule_y_0p5) = true := by decide +kernel

end CirqVerif.Generated.C13
