import CirqVerif.Generated.C20
/-! GENERATED obligation (re-decided on every run). -/
namespace CirqVerif.Generated.C20
open CirqVerif.C20

/-- the retry decisions of the running code are exactly the table the theorems of Props.C20 are about -/
theorem retry_table_matches : retryRows.all (fun (c, r, o) => retryTable c r == o) = true := by decide +kernel

end CirqVerif.Generated.C20
