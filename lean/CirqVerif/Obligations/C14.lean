import CirqVerif.Generated.C14
/-! GENERATED obligations (re-decided on every run): the extracted kernels are the Pauli product table. -/
namespace CirqVerif.Generated.C14
open CirqVerif.Pauli

/-- `_imul_atom_helper` with sign +1 is the left product `lhs · old`, with sign -1 the right product `old · lhs`,
both in the Pauli reached and in the power of i -/
theorem imul_atom_is_product : imulAtomTable.all (fun (old, lhs, sign, ph, new) =>
    let r := if sign = 1 then (ofStrInt lhs).mul (ofStrInt old) else (ofStrInt old).mul (ofStrInt lhs)
    toStrInt r.2 == new && ((ph % 4).toNat == r.1)) = true ∧ imulAtomTable.length = 32 := by decide +kernel

/-- the dense phase kernel is the phase of the product `lhs · rhs` -/
theorem dense_phase_is_product : densePhaseTable.all (fun (l, r, s) =>
    ((ofDenseInt l).mul (ofDenseInt r)).1 == s) = true ∧ densePhaseTable.length = 16 := by decide +kernel

end CirqVerif.Generated.C14
