import CirqVerif.Generated.C03.cirq_ZPowGate
import CirqVerif.Proofs.GateDocs
/-! GENERATED obligations about the extracted eigen-components (re-checked on every run). -/
namespace CirqVerif.Generated.C03
open CirqVerif CirqVerif.Eigen CirqVerif.GateDocs

theorem cirq_ZPowGate_projector_laws : projectorLaws cirq_ZPowGate = true := by decide +kernel
/-- the eigen-components the code carries are the ones the documentation theorem is about -/
theorem cirq_ZPowGate_matches_doc : cirq_ZPowGate = zpowComps (R := Q8) (0 : Rat) 1 := by decide +kernel
end CirqVerif.Generated.C03
