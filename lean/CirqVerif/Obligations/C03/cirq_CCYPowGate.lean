import CirqVerif.Generated.C03.cirq_CCYPowGate
import CirqVerif.Proofs.GateDocs
/-! GENERATED obligations about the extracted eigen-components (re-checked on every run). -/
namespace CirqVerif.Generated.C03
open CirqVerif CirqVerif.Eigen CirqVerif.GateDocs

theorem cirq_CCYPowGate_projector_laws : projectorLaws cirq_CCYPowGate = true := by decide +kernel
end CirqVerif.Generated.C03
