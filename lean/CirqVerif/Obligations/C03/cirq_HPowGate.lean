import CirqVerif.Generated.C03.cirq_HPowGate
import CirqVerif.Proofs.GateDocs
/-! GENERATED obligations about the extracted eigen-components (re-checked on every run). -/
namespace CirqVerif.Generated.C03
open CirqVerif CirqVerif.Eigen CirqVerif.GateDocs

theorem cirq_HPowGate_projector_laws : projectorLaws cirq_HPowGate = true := by decide +kernel
/-- the eigen-components the code carries are the ones the documentation theorem is about -/
theorem cirq_HPowGate_matches_doc : cirq_HPowGate = hpowComps envQ8 0 1 := by decide +kernel
end CirqVerif.Generated.C03
