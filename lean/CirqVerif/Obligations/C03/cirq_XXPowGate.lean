import CirqVerif.Generated.C03.cirq_XXPowGate
import CirqVerif.Proofs.GateDocs
/-! GENERATED obligations about the extracted eigen-components (re-checked on every run). -/
namespace CirqVerif.Generated.C03
open CirqVerif CirqVerif.Eigen CirqVerif.GateDocs

theorem cirq_XXPowGate_projector_laws : projectorLaws cirq_XXPowGate = true := by decide +kernel
/-- the eigen-components the code carries are the ones the documentation theorem is about -/
theorem cirq_XXPowGate_matches_doc : cirq_XXPowGate = xxpowComps envQ8 0 1 := by decide +kernel
end CirqVerif.Generated.C03
