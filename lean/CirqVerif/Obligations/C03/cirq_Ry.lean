import CirqVerif.Generated.C03.cirq_Ry
import CirqVerif.Proofs.GateDocs
/-! GENERATED obligations about the extracted eigen-components (re-checked on every run). -/
namespace CirqVerif.Generated.C03
open CirqVerif CirqVerif.Eigen CirqVerif.GateDocs

theorem cirq_Ry_projector_laws : projectorLaws cirq_Ry = true := by decide +kernel
/-- the eigen-components the code carries are the ones the documentation theorem is about -/
theorem cirq_Ry_matches_doc : cirq_Ry = ypowComps envQ8 0 1 := by decide +kernel
end CirqVerif.Generated.C03
