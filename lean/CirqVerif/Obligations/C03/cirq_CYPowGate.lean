import CirqVerif.Generated.C03.cirq_CYPowGate
import CirqVerif.Proofs.GateDocs
/-! GENERATED obligations about the extracted eigen-components (re-checked on every run). -/
namespace CirqVerif.Generated.C03
open CirqVerif CirqVerif.Eigen CirqVerif.GateDocs

theorem cirq_CYPowGate_projector_laws : projectorLaws cirq_CYPowGate = true := by decide +kernel
end CirqVerif.Generated.C03
