import CirqVerif.Generated.C03.cirq_ISwapPowGate
import CirqVerif.Proofs.GateDocs
/-! GENERATED obligations about the extracted eigen-components (re-checked on every run). -/
namespace CirqVerif.Generated.C03
open CirqVerif CirqVerif.Eigen CirqVerif.GateDocs

theorem cirq_ISwapPowGate_projector_laws : projectorLaws cirq_ISwapPowGate = true := by decide +kernel
end CirqVerif.Generated.C03
