import CirqVerif.Base.Q8
/-!
Eigen-component tables of `EigenGate` subclasses (half-turn angle θₖ, projector Pₖ) and the laws that make
`Σₖ e^{iπ t (θₖ+s)} Pₖ` a one-parameter group: projectors idempotent, mutually orthogonal, complete.
-/
namespace CirqVerif.Eigen
open CirqVerif

abbrev Components := List (Rat × QMat)

def dim (c : Components) : Nat := match c.head? with | some p => p.2.length | none => 0

/-- every matrix is square of the common dimension -/
def shapesOK (c : Components) : Bool :=
  c.all (fun p => p.2.length == dim c && p.2.all (fun r => r.length == dim c))

def idempotent (c : Components) : Bool := c.all (fun p => QMat.mul p.2 p.2 == p.2)

def orthogonal (c : Components) : Bool :=
  c.zipIdx.all (fun (p, i) => c.zipIdx.all (fun (q, j) => i == j || QMat.mul p.2 q.2 == QMat.zero (dim c)))

def complete (c : Components) : Bool :=
  c.foldl (fun acc p => QMat.add acc p.2) (QMat.zero (dim c)) == QMat.eye (dim c)

/-- projectors are Hermitian (so the sum is a unitary for real t) -/
def hermitian (c : Components) : Bool := c.all (fun p => QMat.dagger p.2 == p.2)

def projectorLaws (c : Components) : Bool :=
  shapesOK c && idempotent c && orthogonal c && complete c && hermitian c

end CirqVerif.Eigen
