/-!
Model of `cirq/circuits/circuit.py` / `moment.py` editing (core Lean only, executable).

Operations are abstracted to (id, qubits, measurement keys written, control keys read); a moment is
the tuple of its operations; a circuit is the list of its moments.  Every function mirrors the
control flow of the Python method named in its doc comment.
-/
namespace CirqVerif.C05

structure Op where
  id : Nat
  qubits : List Nat
  mkeys : List Nat
  ckeys : List Nat
  deriving DecidableEq, Repr

abbrev Moment := List Op
abbrev Circuit := List Moment

inductive Mop where
  | op (o : Op)
  | mom (m : Moment)
  deriving DecidableEq, Repr

inductive Strategy where
  | earliest | new | inline | newThenInline | latest
  deriving DecidableEq, Repr

inductive Err where
  | value | index | type
  deriving DecidableEq, Repr

/-- `a.isdisjoint(b)` -/
def disj (a b : List Nat) : Bool := a.all (fun x => !b.contains x)

def mQubits (m : Moment) : List Nat := m.flatMap (·.qubits)
def mMkeys (m : Moment) : List Nat := m.flatMap (·.mkeys)
def mCkeys (m : Moment) : List Nat := m.flatMap (·.ckeys)

/-- `Moment.operates_on(qubits)` -/
def operatesOn (m : Moment) (qs : List Nat) : Bool := !disj qs (mQubits m)

/-- the key part of the conflict test used by `earliest_available_moment`, `_latest_available_moment`
and (in an equivalent form) `_can_add_op_at`. -/
def keyConflict (m : Moment) (op : Op) : Bool :=
  !disj op.mkeys (mMkeys m) || !disj op.ckeys (mMkeys m) || !disj (mCkeys m) op.mkeys

def conflicts (m : Moment) (op : Op) : Bool := operatesOn m op.qubits || keyConflict m op

/-- `Moment.with_operation(op)`: ValueError on overlapping qubits. -/
def withOperation (m : Moment) (op : Op) : Except Err Moment :=
  if operatesOn m op.qubits then .error .value else .ok (m ++ [op])

/-- `Moment.with_operations(*ops)` -/
def withOperations (m : Moment) : List Op → Except Err Moment
  | [] => .ok m
  | o :: os => do withOperations (← withOperation m o) os

/-- `Moment(ops)`: ValueError when a qubit appears twice. -/
def mkMoment (ops : List Op) : Except Err Moment := withOperations [] ops

/-- `Circuit._can_add_op_at(i, op)` -/
def canAddOpAt (c : Circuit) (i : Int) (op : Op) : Bool :=
  if i < 0 ∨ i ≥ c.length then true
  else match c[i.toNat]? with
    | some m => !conflicts m op
    | none => true

/-- `Circuit.earliest_available_moment(op, end_moment_index=e)` -/
def earliestAvailable (c : Circuit) (op : Op) (e : Nat) : Nat :=
  let e' := min e c.length
  e' - (((c.take e').reverse).takeWhile (fun m => !conflicts m op)).length

/-- `Circuit._latest_available_moment(op, start_moment_index=s)` (can be `s - 1`). -/
def latestAvailable (c : Circuit) (op : Op) (s : Nat) : Int :=
  if s = c.length then s
  else (s : Int) + (((c.drop s).takeWhile (fun m => !conflicts m op)).length : Int) - 1

/-- `list.insert(k, x)` -/
def listInsert (l : List α) (k : Nat) (x : α) : List α := l.take k ++ x :: l.drop k

def setAt (l : List α) (k : Nat) (x : α) : List α := l.set k x

/-! ### `_group_into_moment_compatible` -/

structure Batch where
  items : List Mop := []
  qubits : List Nat := []
  mkeys : List Nat := []
  ckeys : List Nat := []

def groupStep (acc : List (List Mop) × Batch) (mop : Mop) : List (List Mop) × Batch :=
  let (out, b) := acc
  match mop with
  | .mom m =>
    let out := if b.items.isEmpty then out else out ++ [b.items]
    (out ++ [[.mom m]], {})
  | .op o =>
    let clash := !disj b.qubits o.qubits || !disj b.mkeys o.mkeys || !disj b.mkeys o.ckeys
      || !disj b.ckeys o.mkeys
    let (out, b) := if clash then (out ++ [b.items], ({} : Batch)) else (out, b)
    (out, { items := b.items ++ [.op o], qubits := b.qubits ++ o.qubits,
            mkeys := b.mkeys ++ o.mkeys, ckeys := b.ckeys ++ o.ckeys })

def groupIntoMomentCompatible (mops : List Mop) : List (List Mop) :=
  let (out, b) := mops.foldl groupStep ([], {})
  if b.items.isEmpty then out else out ++ [b.items]

/-! ### placement cache -/

structure Cache where
  qidx : List (Nat × Nat) := []
  midx : List (Nat × Nat) := []
  cidx : List (Nat × Nat) := []
  length : Nat := 0
  deriving Repr

def lookupI (tbl : List (Nat × Nat)) (k : Nat) : Int :=
  match tbl.find? (fun p => p.1 == k) with
  | some p => p.2
  | none => -1

def setI (tbl : List (Nat × Nat)) (k v : Nat) : List (Nat × Nat) :=
  (k, v) :: tbl.filter (fun p => p.1 != k)

def maxOver (tbl : List (Nat × Nat)) (ks : List Nat) (init : Int) : Int :=
  ks.foldl (fun acc k => max acc (lookupI tbl k)) init

def mopQubits : Mop → List Nat | .op o => o.qubits | .mom m => mQubits m
def mopMkeys : Mop → List Nat | .op o => o.mkeys | .mom m => mMkeys m
def mopCkeys : Mop → List Nat | .op o => o.ckeys | .mom m => mCkeys m

/-- `_PlacementCache.append` = `get_earliest_accommodating_moment_index` + length update -/
def Cache.append (c : Cache) (mop : Mop) : Nat × Cache :=
  let qs := mopQubits mop; let mk := mopMkeys mop; let ck := mopCkeys mop
  let lastConflict : Int :=
    match mop with
    | .mom _ => (c.length : Int) - 1
    | .op _ =>
      let a := maxOver c.qidx qs (-1)
      let a := maxOver c.midx mk a
      let a := maxOver c.cidx mk a
      maxOver c.midx ck a
  let idx := (lastConflict + 1).toNat
  let qidx := qs.foldl (fun t q => setI t q idx) c.qidx
  let midx := mk.foldl (fun t k => setI t k idx) c.midx
  let cidx := ck.foldl (fun t k => setI t k (max idx (lookupI t k).toNat)) c.cidx
  (idx, { qidx, midx, cidx, length := max c.length (idx + 1) })

structure CState where
  moments : Circuit := []
  cache : Option Cache := some {}
  deriving Repr

/-! ### `Circuit._load_contents_with_earliest_strategy` -/

def placeAll (mops : List Mop) : List (Nat × Mop) × Cache :=
  mops.foldl (fun (acc : List (Nat × Mop) × Cache) mop =>
      let r := acc.2.append mop
      (acc.1 ++ [(r.1, mop)], r.2)) ([], ({} : Cache))

def buildMoment (placed : List (Nat × Mop)) (i : Nat) : Except Err Moment :=
  let opsHere := placed.filterMap (fun p => match p with | (j, .op o) => if j = i then some o else none | _ => none)
  let momHere := placed.filterMap (fun p => match p with | (j, .mom m) => if j = i then some m else none | _ => none)
  match momHere.getLast? with
  | some m => withOperations m opsHere
  | none => mkMoment opsHere

def loadEarliest (mops : List Mop) : Except Err CState :=
  let r := placeAll mops
  match (List.range r.2.length).mapM (buildMoment r.1) with
  | .error e => .error e
  | .ok ms => .ok { moments := ms, cache := some r.2 }

/-! ### `Circuit._insert_latest` -/

def insertLatestOne (ms : Circuit) (k : Nat) (maxIdx : Int) (mop : Mop) : Except Err (Circuit × Int) :=
  match mop with
  | .mom m => .ok (listInsert ms k m, max (k : Int) (maxIdx + 1))
  | .op o =>
    let endIdx := ms.length
    let p := latestAvailable ms o k
    if p < k then .ok (listInsert ms k [o], max (k : Int) (maxIdx + 1))
    else if p < endIdx then
      match ms[p.toNat]? with
      | some m => (withOperation m o).map (fun m' => (ms.set p.toNat m', max p maxIdx))
      | none => .error .index
    else .ok (ms ++ [[o]], endIdx)

def insertLatest (ms : Circuit) (k : Nat) (batches : List (List Mop)) : Except Err (Circuit × Nat) :=
  match batches.reverse.flatten.foldlM (fun (st : Circuit × Int) mop => insertLatestOne st.1 k st.2 mop) (ms, -1) with
  | .error e => .error e
  | .ok st => .ok (st.1, if st.2 = -1 then k else (st.2 + 1).toNat)

/-! ### `Circuit.insert` -/

def isMom : Mop → Bool | .mom _ => true | .op _ => false

structure Loop where
  ms : Circuit
  cache : Option Cache
  k : Nat
  strategy : Strategy

/-- "Determine Placement" of one `moment_or_op` of the inner loop of `Circuit.insert` -/
def determinePlacement (s : Loop) (mop : Mop) : Except Err (Nat × Loop) :=
  match s.cache with
  | some c =>
    let r := c.append mop
    .ok (r.1, { s with cache := some r.2 })
  | none =>
    match mop with
    | .mom _ => .ok (s.k, s)
    | .op o =>
      match s.strategy with
      | .new | .newThenInline => .ok (s.k, { s with ms := listInsert s.ms s.k [] })
      | .inline => if s.k = 0 then .error .index else .ok (s.k - 1, s)
      | .earliest => .ok (earliestAvailable s.ms o s.k, s)
      | .latest => .error .value

/-- "Place" -/
def place (ms : Circuit) (p : Nat) (mop : Mop) : Except Err Circuit :=
  match mop with
  | .mom m => .ok (listInsert ms p m)
  | .op o =>
    if p = ms.length then .ok (ms ++ [[o]])
    else match ms[p]? with
      | some m => (withOperation m o).map (fun m' => ms.set p m')
      | none => .error .index

/-- "Iterate" -/
def iterate (s : Loop) : Loop :=
  if s.strategy = .newThenInline then { s with strategy := .inline, k := s.k + 1 } else s

/-- one `moment_or_op` of the inner loop (placement + place + iterate); returns the new state and `p` -/
def placeOne (s : Loop) (mop : Mop) : Except Err (Loop × Nat) :=
  match determinePlacement s mop with
  | .error e => .error e
  | .ok (p, s1) =>
    match place s1.ms p mop with
    | .error e => .error e
    | .ok ms => .ok (iterate { s1 with ms := ms }, p)

/-- "Insert a moment if inline/earliest and _any_ op in the batch requires it." -/
def needNewMoment (s : Loop) (batch : List Mop) : Bool :=
  let firstIsMom := match batch.head? with | some m => isMom m | none => false
  s.cache.isNone && !firstIsMom && (s.strategy = .inline || s.strategy = .earliest) &&
    !(batch.all (fun mop => match mop with
      | .op o => (s.strategy = .earliest && canAddOpAt s.ms s.k o)
                  || (s.k > 0 && canAddOpAt s.ms ((s.k : Int) - 1) o)
      | .mom _ => true))

def openBatch (s : Loop) (batch : List Mop) : Loop :=
  if needNewMoment s batch then
    { s with ms := listInsert s.ms s.k [], k := if s.strategy = .inline then s.k + 1 else s.k }
  else s

def batchStep (acc : Loop × Nat) (mop : Mop) : Except Err (Loop × Nat) :=
  match placeOne acc.1 mop with
  | .error e => .error e
  | .ok (s', p) => .ok (s', max p acc.2)

def insertBatch (s : Loop) (batch : List Mop) : Except Err Loop :=
  match batch.foldlM batchStep (openBatch s batch, 0) with
  | .error e => .error e
  | .ok (s, maxP) => .ok { s with k := max s.k (maxP + 1) }

/-- normalisation of the insertion index: `max(min(index if index >= 0 else len + index, len), 0)` -/
def normIndex (len : Nat) (index : Int) : Nat :=
  (max (min (if index ≥ 0 then index else (len : Int) + index) (len : Int)) 0).toNat

def batchesOf (cached : Bool) (strategy : Strategy) (mops : List Mop) : List (List Mop) :=
  if cached then [mops]   -- also for an empty tree: one empty batch (the code returns max(k, 1) then)
  else if strategy = .new then mops.map (fun m => [m]) else groupIntoMomentCompatible mops

def insert (st : CState) (index : Int) (mops : List Mop) (strategy : Strategy) : Except Err (CState × Nat) :=
  let k := normIndex st.moments.length index
  let cache := if strategy ≠ .earliest || k ≠ st.moments.length then none else st.cache
  let batches := batchesOf cache.isSome strategy mops
  if strategy = .latest then
    match insertLatest st.moments k batches with
    | .error e => .error e
    | .ok (ms, pos) => .ok ({ moments := ms, cache := none }, pos)
  else
    match batches.foldlM insertBatch { ms := st.moments, cache := cache, k := k, strategy := strategy } with
    | .error e => .error e
    | .ok s => .ok ({ moments := s.ms, cache := s.cache }, s.k)

/-- `Circuit.append` -/
def append (st : CState) (mops : List Mop) (strategy : Strategy) : Except Err CState := do
  let (st', _) ← insert st st.moments.length mops strategy
  return st'

/-- `Circuit(*contents, strategy=…)` -/
def newCircuit (mops : List Mop) (strategy : Strategy) : Except Err CState :=
  if mops.isEmpty then .ok {}
  else if mops.all isMom then
    .ok { moments := mops.filterMap (fun m => match m with | .mom x => some x | _ => none), cache := none }
  else if strategy = .earliest then loadEarliest mops
  else append {} mops strategy

/-! ### other mutators (each ends in `_mutated()`: the cache is dropped) -/

/-- Python list index normalisation for `l[i]` -/
def pyIndex (len : Nat) (i : Int) : Except Err Nat :=
  let j := if i < 0 then i + len else i
  if j < 0 ∨ j ≥ len then .error .index else .ok j.toNat

/-- the `while` loop of `insert_into_range`: returns the circuit and the operations left over -/
def intoRangeLoop (stop : Nat) : Circuit → Nat → List Op → Except Err (Circuit × List Op)
  | ms, _, [] => .ok (ms, [])
  | ms, i, o :: os =>
    let skipped := ((ms.drop i).take (stop - i)).takeWhile (fun m => conflicts m o)
    let i := i + skipped.length
    if i ≥ stop then .ok (ms, o :: os)
    else match ms[i]? with
      | some m =>
        match withOperation m o with
        | .error e => .error e
        | .ok m' => intoRangeLoop stop (ms.set i m') i os
      | none => .error .index

/-- `Circuit.insert_into_range(ops, start, end)` -/
def insertIntoRange (st : CState) (ops : List Op) (start stop : Int) : Except Err (CState × Nat) :=
  if ¬ (0 ≤ start ∧ start ≤ stop ∧ stop ≤ st.moments.length) then .error .index
  else match intoRangeLoop stop.toNat st.moments start.toNat ops with
    | .error e => .error e
    | .ok (ms, rest) =>
      let st' : CState := { moments := ms, cache := none }
      if rest.isEmpty then .ok (st', stop.toNat)
      else insert st' stop (rest.map Mop.op) .earliest

def removeStep (ms : Circuit) (r : Int × Op) : Except Err Circuit :=
  match pyIndex ms.length r.1 with
  | .error e => .error e
  | .ok j =>
    let m := ms[j]?.getD []
    if !m.contains r.2 then .error .value
    else (mkMoment (m.filter (fun x => x != r.2))).map (fun m' => ms.set j m')

/-- `Circuit.batch_remove` (all-or-nothing) -/
def batchRemove (st : CState) (removals : List (Int × Op)) : Except Err CState :=
  (removals.foldlM removeStep st.moments).map (fun ms => { moments := ms, cache := none })

def replaceStep (ms : Circuit) (r : Int × Op × Op) : Except Err Circuit :=
  match pyIndex ms.length r.1 with
  | .error e => .error e
  | .ok j =>
    let m := ms[j]?.getD []
    if !m.contains r.2.1 then .error .value
    else (mkMoment (m.map (fun x => if x != r.2.1 then x else r.2.2))).map (fun m' => ms.set j m')

/-- `Circuit.batch_replace` -/
def batchReplace (st : CState) (reps : List (Int × Op × Op)) : Except Err CState :=
  (reps.foldlM replaceStep st.moments).map (fun ms => { moments := ms, cache := none })

def insertIntoStep (ms : Circuit) (r : Int × List Op) : Except Err Circuit :=
  match pyIndex ms.length r.1 with
  | .error e => .error e
  | .ok j => (withOperations (ms[j]?.getD []) r.2).map (fun m' => ms.set j m')

/-- `Circuit.batch_insert_into` -/
def batchInsertInto (st : CState) (ins : List (Int × List Op)) : Except Err CState :=
  (ins.foldlM insertIntoStep st.moments).map (fun ms => { moments := ms, cache := none })

/-- stable insertion sort by key (Python `sorted(key=…)`) -/
def stableSort (l : List (Int × List Mop)) : List (Int × List Mop) :=
  l.foldl (fun acc x =>
    acc.takeWhile (fun y => y.1 ≤ x.1) ++ x :: acc.dropWhile (fun y => y.1 ≤ x.1)) []

/-- `_group_until_different` on sorted (index, tree) pairs -/
def groupByIndex : List (Int × List Mop) → List (Int × List (List Mop))
  | [] => []
  | (i, t) :: rest =>
    match groupByIndex rest with
    | (j, ts) :: more => if i = j then (i, t :: ts) :: more else (i, [t]) :: (j, ts) :: more
    | [] => [(i, [t])]

def batchInsertStep (acc : CState × Int) (g : Int × List (List Mop)) : Except Err (CState × Int) :=
  let insertIndex := g.1 + acc.2
  match insert acc.1 insertIndex (g.2.reverse.flatten) .earliest with
  | .error e => .error e
  | .ok (cur', _) =>
    -- only the moments the insert created move the later insertion points
    .ok (cur', acc.2 + ((cur'.moments.length : Int) - acc.1.moments.length))

/-- `Circuit.batch_insert` -/
def batchInsert (st : CState) (ins : List (Int × List Mop)) : Except Err CState :=
  ((groupByIndex (stableSort ins)).foldlM batchInsertStep ({ moments := st.moments, cache := none }, (0 : Int))).map
    (fun r => { moments := r.1.moments, cache := none })

/-- `Circuit.clear_operations_touching` -/
def clearOperationsTouching (st : CState) (qubits : List Nat) (idxs : List Int) : CState :=
  let ms := idxs.foldl (fun (ms : Circuit) (k : Int) =>
    if 0 ≤ k ∧ k < (ms.length : Int) then
      match ms[k.toNat]? with
      | some m => ms.set k.toNat (m.filter (fun o => disj qubits o.qubits))
      | none => ms
    else ms) st.moments
  { moments := ms, cache := none }

/-- `circuit[i] = moment` -/
def setItem (st : CState) (i : Int) (m : Moment) : Except Err CState := do
  let j ← pyIndex st.moments.length i
  return { moments := st.moments.set j m, cache := none }

/-- `del circuit[i]` -/
def delItem (st : CState) (i : Int) : Except Err CState := do
  let j ← pyIndex st.moments.length i
  return { moments := st.moments.eraseIdx j, cache := none }

/-- `circuit *= n` -/
def imul (st : CState) (n : Int) : CState :=
  { moments := (List.replicate n.toNat st.moments).flatten, cache := none }

/-! ### histories of mutating calls -/

inductive Call where
  | new (mops : List Mop) (s : Strategy)
  | append (mops : List Mop) (s : Strategy)
  | insert (index : Int) (mops : List Mop) (s : Strategy)
  | insertIntoRange (ops : List Op) (start stop : Int)
  | batchRemove (items : List (Int × Op))
  | batchReplace (items : List (Int × Op × Op))
  | batchInsertInto (items : List (Int × List Op))
  | batchInsert (items : List (Int × List Mop))
  | clear (qubits : List Nat) (idxs : List Int)
  | setItem (i : Int) (m : Moment)
  | delItem (i : Int)
  | imul (n : Int)

/-- one public mutating call; returns the new state and the call's integer return value (if any) -/
def applyCall (st : CState) : Call → Except Err (CState × Option Nat)
  | .new mops s => (newCircuit mops s).map (·, none)
  | .append mops s => (append st mops s).map (·, none)
  | .insert i mops s => (insert st i mops s).map (fun r => (r.1, some r.2))
  | .insertIntoRange ops a b => (insertIntoRange st ops a b).map (fun r => (r.1, some r.2))
  | .batchRemove items => (batchRemove st items).map (·, none)
  | .batchReplace items => (batchReplace st items).map (·, none)
  | .batchInsertInto items => (batchInsertInto st items).map (·, none)
  | .batchInsert items => (batchInsert st items).map (·, none)
  | .clear qs idxs => .ok (clearOperationsTouching st qs idxs, none)
  | .setItem i m => (setItem st i m).map (·, none)
  | .delItem i => (delItem st i).map (·, none)
  | .imul n => .ok (imul st n, none)

def runCalls (st : CState) (calls : List Call) : Except Err CState :=
  calls.foldlM (fun st c => (applyCall st c).map (·.1)) st

/-! ### queries -/

def allQubits (c : Circuit) : List Nat := (c.flatMap mQubits).eraseDups

/-- `next_moment_operating_on(qubits, start, max_distance=None)` -/
def nextMomentOperatingOn (c : Circuit) (qs : List Nat) (start : Nat) : Option Nat :=
  match ((c.drop start).findIdx? (fun m => operatesOn m qs)) with
  | some i => some (start + i)
  | none => none

/-- `prev_moment_operating_on(qubits, end_moment_index=e)` with the default `max_distance` (no limit): the latest
moment before `e` (clamped to the length) that touches one of the qubits -/
def prevMomentOperatingOn (c : Circuit) (qs : List Nat) (e : Nat) : Option Nat :=
  let e' := min e c.length
  match ((c.take e').reverse.findIdx? (fun m => operatesOn m qs)) with
    | some i => some (e' - 1 - i)
    | none => none

/-- `next_moment_operating_on(qubits, start, max_distance=d)`: only the moments `start ≤ m < start + d` are looked at -/
def nextMomentWithin (c : Circuit) (qs : List Nat) (start d : Nat) : Option Nat :=
  match nextMomentOperatingOn c qs start with
  | some m => if m < start + d then some m else none
  | none => none

/-- `prev_moment_operating_on(qubits, end_moment_index=e, max_distance=d)`: only the moments `e - d ≤ m < e` are looked at
(indices past the end of the circuit use up distance like any other) -/
def prevMomentWithin (c : Circuit) (qs : List Nat) (e d : Nat) : Option Nat :=
  match prevMomentOperatingOn c qs e with
  | some m => if e ≤ m + d then some m else none
  | none => none

def allMkeys (c : Circuit) : List Nat := (c.flatMap mMkeys).eraseDups

/-! ### specification predicates evaluated on implementation outputs -/

/-- every moment's operations act on pairwise disjoint qubits -/
def momentWF : Moment → Bool
  | [] => true
  | o :: os => disj o.qubits (mQubits os) && o.qubits.eraseDups.length == o.qubits.length && momentWF os

def circuitWF (c : Circuit) : Bool := c.all momentWF

def allOps (c : Circuit) : List Op := c.flatten

/-- position (moment index) of the first occurrence of an op id -/
def momentOf (c : Circuit) (id : Nat) : Option Nat := c.findIdx? (fun m => m.any (fun o => o.id == id))

def opConflict (a b : Op) : Bool :=
  !disj a.qubits b.qubits || !disj a.mkeys b.mkeys || !disj a.mkeys b.ckeys || !disj a.ckeys b.mkeys

/-- conflicting pairs `(a before b)` listed in `pairs` are in strictly increasing moments -/
def orderedPairs (c : Circuit) (pairs : List (Op × Op)) : Bool :=
  pairs.all (fun (a, b) =>
    if opConflict a b then
      match momentOf c a.id, momentOf c b.id with
      | some i, some j => i < j
      | _, _ => false
    else true)

/-- conflicting pairs `(a, b)`: `a` does not sit in a later moment than `b` (they may share one) -/
def notAfterPairs (c : Circuit) (pairs : List (Op × Op)) : Bool :=
  pairs.all (fun (a, b) =>
    if opConflict a b then
      match momentOf c a.id, momentOf c b.id with
      | some i, some j => i ≤ j
      | _, _ => false
    else true)

end CirqVerif.C05
