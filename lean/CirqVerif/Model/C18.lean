import CirqVerif.Base.Digits
/-!
Model of `cirq/study/result.py` (views of measurement records) — core Lean only, executable.
A record table is `reps × instances × qubits` natural-number digits per key.
-/
namespace CirqVerif.C18
open CirqVerif.Digits

abbrev Row := List Nat               -- one measurement instance: digits in qubit order
abbrev Records := List (List Row)    -- repetitions × instances

inductive RErr where
  | repeatedKey         -- 'Cannot extract 2D measurements for repeated keys'
  | shapeMismatch       -- 'Cannot add results with different measurement shapes'
  | fold (e : Err)
  deriving DecidableEq, Repr

/-- `ResultDict.measurements` for one key: `data.reshape((reps, qubits))`, only when instances = 1.
`instances` is passed explicitly because a 0-repetition array still has a shape. -/
def measurements (instances : Nat) (recs : Records) : Except RErr (List Row) :=
  if instances ≠ 1 then .error .repeatedKey else .ok (recs.map (fun r => r.flatten))

/-- `ResultDict.records` from measurements: `data[:, np.newaxis, :]`. -/
def recordsOfMeasurements (ms : List Row) : Records := ms.map (fun r => [r])

/-- `dataframe_from_measurements`: `np.sum(2 ** arange(n)[::-1] * row)`. -/
def dataframeCell (row : Row) : Nat :=
  let n := row.length
  (List.zipWith (fun i d => 2 ^ (n - 1 - i) * d) (List.range n) row).foldl (· + ·) 0

/-- counting fold results in first-seen order (a `collections.Counter`) -/
def counterAdd [DecidableEq α] (c : List (α × Nat)) (x : α) : List (α × Nat) :=
  match c with
  | [] => [(x, 1)]
  | (y, k) :: rest => if y = x then (y, k + 1) :: rest else (y, k) :: counterAdd rest x

def counter [DecidableEq α] (xs : List α) : List (α × Nat) := xs.foldl counterAdd []

/-- default fold: `big_endian_bits_to_int` (truthiness of each entry). -/
def foldBits (row : Row) : Nat := bitsToInt (row.map (· ≠ 0))

/-- `fold_base` fold: `big_endian_digits_to_int(digits, base=fold_base)` with per-digit bases. -/
def foldBase (bases : List Nat) (row : Row) : Except Err Nat :=
  match digitsToInt (row.map Int.ofNat) (bases.map Int.ofNat) with
  | .ok v => .ok v.toNat
  | .error e => .error e

/-- `Result.histogram(key=…)` with the default fold, as a counter in first-seen order. -/
def histogramBits (ms : List Row) : List (Nat × Nat) := counter (ms.map foldBits)

def histogramBase (bases : List Nat) (ms : List Row) : Except RErr (List (Nat × Nat)) := do
  let vs ← (ms.mapM (foldBase bases)).mapError RErr.fold
  return counter vs

/-- `multi_measurement_histogram(keys=…)` with the default fold (tuple of big-endian ints). -/
def multiHistogram (cols : List (List Row)) (reps : Nat) : List (List Nat × Nat) :=
  let rows : List (List Nat) := (List.range reps).map (fun r => cols.map (fun c => foldBits (c.getD r [])))
  counter rows

/-- `Result.__add__` per key: same per-repetition shape required, then `np.append(axis=0)`. -/
def addRecords (shapeA shapeB : Nat × Nat) (a b : Records) : Except RErr Records :=
  if shapeA ≠ shapeB then .error .shapeMismatch else .ok (a ++ b)

/-! bit packing: `np.packbits(bits).tobytes().hex()` and `_unpack_bits` -/

def byteOfBits (bs : List Bool) : Nat := bitsToInt (bs ++ List.replicate (8 - bs.length) false)

def chunk8 : Nat → List Bool → List (List Bool)
  | 0, _ => []
  | _, [] => []
  | fuel + 1, bs => bs.take 8 :: chunk8 fuel (bs.drop 8)

def packBits (bits : List Bool) : List Nat := (chunk8 bits.length bits).map byteOfBits

def unpackBits (bytes : List Nat) (count : Nat) : List Bool :=
  ((bytes.map (fun b => intToBits b 8)).flatten).take count

def hexDigit (n : Nat) : Char := "0123456789abcdef".toList.getD n '?'
def hexOfBytes (bs : List Nat) : String :=
  String.ofList (bs.flatMap (fun b => [hexDigit (b / 16), hexDigit (b % 16)]))

/-- `_bitstring` / `_keyed_repeated_bitstrings` for one key: digits of each qubit over repetitions. -/
def bitstring (vals : List Nat) : String :=
  let strs := vals.map toString
  let sep := if strs.all (fun s => s.length = 1) then "" else " "
  sep.intercalate strs

end CirqVerif.C18
