import CirqVerif.Model.C12
/-!
# C12 — which measurements are terminal (`Circuit.are_all_measurements_terminal`, `are_any_measurements_terminal`)

On the unrolled form the questions are about the flat list of operations: an operation is *terminal* when no later
operation shares a qubit with it (definitions only; the theorems are in `Props/C12Terminal.lean`).
-/
namespace CirqVerif.C12

variable {α : Type}

/-- the two operations share no qubit -/
def disj (qs : α → List Nat) (a b : α) : Bool := (qs a).all (fun q => !(qs b).contains q)

/-- every matching operation of `l` is followed, in `l ++ tail`, only by operations on other qubits -/
def allTerm (qs : α → List Nat) (m : α → Bool) : List α → List α → Bool
  | [], _ => true
  | o :: rest, tail => (!m o || (rest ++ tail).all (disj qs o)) && allTerm qs m rest tail

/-- some matching operation of `l` is followed, in `l ++ tail`, only by operations on other qubits -/
def anyTerm (qs : α → List Nat) (m : α → Bool) : List α → List α → Bool
  | [], _ => false
  | o :: rest, tail => (m o && (rest ++ tail).all (disj qs o)) || anyTerm qs m rest tail

/-- `n` copies of a body, one after the other -/
def rep : Nat → List α → List α
  | 0, _ => []
  | n + 1, b => b ++ rep n b

/-- the two questions asked of the unrolled form of a circuit, for measurements -/
def measurementsTerminal (fuel : Nat) (moments : List (List Node)) : Bool × Bool :=
  let flat := unrollCircuit fuel moments
  (allTerm FlatOp.qubits (fun o => o.mkey.isSome) flat [], anyTerm FlatOp.qubits (fun o => o.mkey.isSome) flat [])

/-- how often a key is recorded by a flat list of operations (the `instances` axis of its record array) -/
def instances {κ : Type} [BEq κ] (keyOf : α → Option κ) (k : κ) (l : List α) : Nat :=
  (l.filter (fun o => keyOf o == some k)).length

/-- the shape a sampler must report for every key of a circuit: (key, instances per repetition, measured qubits) in order
of first appearance, read off the unrolled form -/
def recordShapes (fuel : Nat) (moments : List (List Node)) : List (Key × Nat × Nat) :=
  let flat := unrollCircuit fuel moments
  let keys := (flat.filterMap (·.mkey)).eraseDups
  keys.map (fun k => (k, instances FlatOp.mkey k flat,
    ((flat.find? (fun o => o.mkey == some k)).map (·.qubits.length)).getD 0))

end CirqVerif.C12
