/-!
Model of the routing bookkeeping (`MappingManager`) and of what a routed circuit means (core Lean only, executable).

Logical and physical qubits are numbered `0 … n-1`.  The manager keeps two arrays, `l2p` (logical → physical) and `p2l`
(physical → logical); `applySwap l1 l2` exchanges the physical places of two logical qubits in both arrays.  A router
performs *actions*: it emits a logical operation at the current physical places of its qubits, or it inserts a SWAP of two
logical qubits.  The routed circuit is the list of physical *events*; `replay` reads such a list back: an operation is
un-mapped with the current `p2l`, a SWAP event updates the mapping.
-/
namespace CirqVerif.C07

structure Mapping where
  l2p : List Nat
  p2l : List Nat
  deriving DecidableEq, Repr

def swapAt (l : List Nat) (i j : Nat) : List Nat :=
  (l.set i (l.getD j 0)).set j (l.getD i 0)

/-- `MappingManager.apply_swap(lq1, lq2)` -/
def applySwap (m : Mapping) (l1 l2 : Nat) : Mapping :=
  let p1 := m.l2p.getD l1 0
  let p2 := m.l2p.getD l2 0
  { l2p := swapAt m.l2p l1 l2, p2l := swapAt m.p2l p1 p2 }

/-- the two arrays are mutually inverse permutations of `0 … n-1` -/
def Inv (n : Nat) (m : Mapping) : Prop :=
  m.l2p.length = n ∧ m.p2l.length = n ∧
  (∀ i, i < n → m.l2p.getD i 0 < n ∧ m.p2l.getD (m.l2p.getD i 0) 0 = i) ∧
  (∀ j, j < n → m.p2l.getD j 0 < n ∧ m.l2p.getD (m.p2l.getD j 0) 0 = j)

/-- a logical operation: identity and the logical qubits it acts on -/
structure LOp where
  id : Nat
  qubits : List Nat
  deriving DecidableEq, Repr

inductive Action where
  | emit (op : LOp)            -- place a logical operation
  | swap (l1 l2 : Nat)         -- insert a SWAP of two logical qubits
  deriving Repr

inductive Event where
  | op (id : Nat) (physical : List Nat)
  | swap (p1 p2 : Nat)
  deriving DecidableEq, Repr

/-- the router: physical events produced by a sequence of actions, and the final mapping -/
def route : Mapping → List Action → List Event × Mapping
  | m, [] => ([], m)
  | m, .emit op :: rest =>
    let r := route m rest
    (.op op.id (op.qubits.map (fun q => m.l2p.getD q 0)) :: r.1, r.2)
  | m, .swap l1 l2 :: rest =>
    let r := route (applySwap m l1 l2) rest
    (.swap (m.l2p.getD l1 0) (m.l2p.getD l2 0) :: r.1, r.2)

/-- reading a routed circuit back: logical operations in order, and the mapping after all SWAPs -/
def replay : Mapping → List Event → List LOp × Mapping
  | m, [] => ([], m)
  | m, .op id ps :: rest =>
    let r := replay m rest
    ({ id := id, qubits := ps.map (fun p => m.p2l.getD p 0) } :: r.1, r.2)
  | m, .swap p1 p2 :: rest => replay (applySwap m (m.p2l.getD p1 0) (m.p2l.getD p2 0)) rest

def logicalOps : List Action → List LOp
  | [] => []
  | .emit op :: rest => op :: logicalOps rest
  | .swap _ _ :: rest => logicalOps rest

/-- operations only on qubits `< n` and swaps of two different such qubits -/
def actionsValid (n : Nat) : List Action → Prop
  | [] => True
  | .emit op :: rest => (∀ q ∈ op.qubits, q < n) ∧ actionsValid n rest
  | .swap l1 l2 :: rest => l1 < n ∧ l2 < n ∧ l1 ≠ l2 ∧ actionsValid n rest

end CirqVerif.C07
