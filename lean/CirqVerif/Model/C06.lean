/-!
Reordering of operations (core Lean only): the dependency structure that structure-only circuit transformers
(alignment, stratification, dropping empty moments, synchronising terminal measurements …) must respect.

An operation is abstracted to an identity and the list of *wires* it touches (qubits; measurement and control keys
are wires too).  Two operations are independent when they share no wire.
-/
namespace CirqVerif.C06

structure TOp where
  id : Nat
  wires : List Nat
  deriving DecidableEq, Repr

def indep (a b : TOp) : Bool := a.wires.all (fun w => !b.wires.contains w)

/-- the operations touching wire `w`, in order -/
def proj (w : Nat) (l : List TOp) : List TOp := l.filter (fun o => o.wires.contains w)

/-- `l2` is reached from `l1` by exchanging adjacent independent operations -/
inductive Swaps : List TOp → List TOp → Prop where
  | refl (l : List TOp) : Swaps l l
  | step (pre post : List TOp) (a b : TOp) (l' : List TOp) (h : indep a b = true) :
      Swaps (pre ++ b :: a :: post) l' → Swaps (pre ++ a :: b :: post) l'

/-- executable check used on the output of real transformers: same operations, and the same order on every wire -/
def sameDependencyOrder (l1 l2 : List TOp) : Bool :=
  decide l1.Nodup && decide l2.Nodup &&
  l1.all (fun o => l2.contains o) && l2.all (fun o => l1.contains o) &&
  ((l1 ++ l2).flatMap (·.wires)).all (fun w => proj w l1 == proj w l2)

end CirqVerif.C06
