/-!
Model of the pure cores of the Quantum Engine wire formats (core Lean only, executable):

* `packLE` / `unpackLE` — `cirq_google.api.v2.results.pack_bits / unpack_bits`: bits are padded to a multiple of
  eight and every byte holds eight consecutive bits, the first one in the least significant position;
* `toCols` / `fromCols` — the result layout: a key's records (repetitions × qubits) are stored per qubit as one
  packed column over the repetitions;
* `intern` / `internAll` / `resolve` — the shared constants table of the program format: a constant is stored
  once, operations refer to it by position.
-/
namespace CirqVerif.C16

/-! ### bit packing -/

def byteLE : List Bool → Nat
  | [] => 0
  | b :: bs => (if b then 1 else 0) + 2 * byteLE bs

def bitsLE : Nat → Nat → List Bool
  | 0, _ => []
  | k + 1, n => (n % 2 == 1) :: bitsLE k (n / 2)

def packLE : Nat → List Bool → List Nat
  | 0, _ => []
  | fuel + 1, bs => if bs.isEmpty then [] else byteLE (bs.take 8) :: packLE fuel (bs.drop 8)

/-- `pack_bits`: (fuel = number of bits is always enough) -/
def pack (bits : List Bool) : List Nat := packLE bits.length bits

/-- `unpack_bits(data, repetitions)` -/
def unpack (bytes : List Nat) (count : Nat) : List Bool := (bytes.flatMap (bitsLE 8)).take count

/-! ### result layout -/

def column (rows : List (List Bool)) (i : Nat) : List Bool := rows.map (fun r => r.getD i false)
def toCols (nq : Nat) (rows : List (List Bool)) : List (List Bool) := (List.range nq).map (column rows)
def fromCols (reps : Nat) (cols : List (List Bool)) : List (List Bool) :=
  (List.range reps).map (fun r => cols.map (fun c => c.getD r false))

/-- one key's records as stored: per qubit the packed column -/
def encodeKey (nq : Nat) (rows : List (List Bool)) : List (List Nat) := (toCols nq rows).map pack
def decodeKey (reps : Nat) (packed : List (List Nat)) : List (List Bool) := fromCols reps (packed.map (fun p => unpack p reps))

/-! ### constants table -/

variable {α : Type} [DecidableEq α]

/-- position of a constant, appending it when new -/
def intern (table : List α) (c : α) : List α × Nat :=
  match table.idxOf? c with
  | some i => (table, i)
  | none => (table ++ [c], table.length)

/-- intern a sequence of constants left to right (one per operation argument) -/
def internAll : List α → List α → List α × List Nat
  | table, [] => (table, [])
  | table, c :: cs =>
    let r := intern table c
    let rest := internAll r.1 cs
    (rest.1, r.2 :: rest.2)

def resolve (table : List α) (idxs : List Nat) : List (Option α) := idxs.map (fun i => table[i]?)

end CirqVerif.C16
