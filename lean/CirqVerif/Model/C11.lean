/-!
Model of the shared-object mechanism of `cirq.to_json` / `cirq.read_json` (core Lean only, executable).

`CirqEncoder.default` writes an object that is `SerializableByKey` (a `FrozenCircuit`) the first time it meets it as
`{"cirq_type": "VAL", "key": k, "val": …}` where `k` is the number of such objects met so far — the key is taken
*before* the contents are written — and every later occurrence of an equal object as `{"cirq_type": "REF", "key": k}`.
`ObjectHook` is called when a JSON object closes (contents first, in document order): a `VAL` registers its decoded
contents under its key, a `REF` looks the key up.

Values are abstracted to binary trees: atoms, pairs (lists and dictionaries are nested pairs in document order),
ordinary typed objects, and shared objects.
-/
namespace CirqVerif.C11

inductive Val where
  | atom (s : String)
  | pair (a b : Val)
  | obj (tag : String) (body : Val)
  | shared (body : Val)            -- a SerializableByKey object (identified by its contents: equal objects are shared)
  deriving DecidableEq, Repr, Inhabited

inductive Enc where
  | atom (s : String)
  | pair (a b : Enc)
  | obj (tag : String) (body : Enc)
  | val (key : Nat) (body : Enc)
  | ref (key : Nat)
  deriving DecidableEq, Repr

/-- `CirqEncoder`: the memo lists the shared objects met so far, position = key -/
def enc : List Val → Val → List Val × Enc
  | m, .atom s => (m, .atom s)
  | m, .pair a b =>
    let ra := enc m a
    let rb := enc ra.1 b
    (rb.1, .pair ra.2 rb.2)
  | m, .obj t v =>
    let r := enc m v
    (r.1, .obj t r.2)
  | m, .shared v =>
    match m.idxOf? (Val.shared v) with
    | some k => (m, .ref k)
    | none =>
      let r := enc (m ++ [Val.shared v]) v
      (r.1, .val m.length r.2)

/-- `ObjectHook`: the memo maps keys to decoded shared objects; a `VAL` registers after its contents are decoded -/
def dec : List (Nat × Val) → Enc → Option (List (Nat × Val) × Val)
  | m, .atom s => some (m, .atom s)
  | m, .pair a b =>
    match dec m a with
    | none => none
    | some (m1, va) =>
      match dec m1 b with
      | none => none
      | some (m2, vb) => some (m2, .pair va vb)
  | m, .obj t e =>
    match dec m e with
    | none => none
    | some (m1, v) => some (m1, .obj t v)
  | m, .val k e =>
    match dec m e with
    | none => none
    | some (m1, v) => some ((k, Val.shared v) :: m1, Val.shared v)
  | m, .ref k => (m.lookup k).map (fun v => (m, v))

def toJson (v : Val) : Enc := (enc [] v).2
def readJson (e : Enc) : Option Val := (dec [] e).map (·.2)

/-- the keys of the `VAL` / `REF` markers in document order (what the correspondence check compares) -/
def skeleton : Enc → List (Bool × Nat)
  | .atom _ => []
  | .pair a b => skeleton a ++ skeleton b
  | .obj _ e => skeleton e
  | .val k e => (true, k) :: skeleton e
  | .ref k => [(false, k)]

end CirqVerif.C11
