/-!
Specification of unrolling (nested) circuit operations with measurement-key scoping (core Lean only,
executable; recursion on nesting depth by fuel).

Operations are abstracted to (id, qubits, optional measurement key, conditions `KeyCondition(key, index)`,
inverted flag); keys are (path, name) as `cirq.MeasurementKey`.  The unrolled form is defined
compositionally: a circuit operation stands for its body, repeated, with qubits and key names mapped,
measurement keys prefixed by the scopes it sits in (parent path, repetition id), and every condition bound
to the measurement of that name in the innermost enclosing scope in which one has already been recorded
(otherwise it refers to the unscoped key).
-/
namespace CirqVerif.C12

structure Key where
  path : List String
  name : String
  deriving DecidableEq, Repr

def Key.prefixed (k : Key) (p : List String) : Key := { path := p ++ k.path, name := k.name }

mutual
  inductive Node where
    | op (id : Nat) (qubits : List Nat) (mkey : Option Key) (conds : List (Key × Int)) (inverted : Bool)
    | sub (c : CircOp) (conds : List (Key × Int))
  inductive CircOp where
    | mk (body : List (List Node)) (reps : Int) (qmap : List (Nat × Nat)) (kmap : List (String × String))
        (repIds : Option (List String)) (parentPath : List String)
end

def assocD [DecidableEq α] (m : List (α × α)) (x : α) : α := ((m.find? (·.1 == x)).map (·.2)).getD x

def Key.mapName (m : List (String × String)) (k : Key) : Key := { path := k.path, name := assocD m k.name }

/-- one enclosing circuit-operation instance: (position path of the circuit operation in the syntax tree, iteration
index, number of scopes this instance adds to the key paths of its body: its parent path plus its repetition id) -/
abbrev Stamp := List Nat × Nat × Nat

/-- a condition before scoping, with the scopes and the chain of circuit-operation instances enclosing the place it was
written at (a condition put on a whole sub-circuit is written outside of it) -/
structure RawCond where
  key : Key
  index : Int
  scope : List String := []
  stamps : List Stamp := []
  deriving DecidableEq, Repr

/-- an operation of the unrolled body before scoping: conditions still carry the scope they were written in -/
structure RawOp where
  id : Nat
  qubits : List Nat
  mkey : Option Key
  conds : List RawCond
  inverted : Bool
  scope : List String          -- path of the enclosing scopes, outermost first
  stamps : List Stamp := []   -- chain of enclosing instances, outermost first
  deriving DecidableEq, Repr

mutual
  /-- does the body contain a measurement (decides whether repetition ids are used as scopes) -/
  def nodeHasMeas : Nat → Node → Bool
    | _, .op _ _ mk _ _ => mk.isSome
    | 0, .sub _ _ => false
    | fuel + 1, .sub (.mk body _ _ _ _ _) _ => body.flatten.any (nodeHasMeas fuel)

  /-- raw unrolling: maps applied, scopes recorded, conditions not yet bound.  `pos` is the position path of
  the circuit operation in the syntax tree (it identifies the loop in the iteration stamps). -/
  def rawCO : Nat → List Nat → CircOp → List RawOp
    | 0, _, _ => []
    | fuel + 1, pos, .mk body reps qmap kmap repIds parentPath =>
      if reps = 0 then []
      else
        let invert := decide (reps < 0)
        -- the inverse of a circuit runs the inverses of its (fully unrolled) operations in reverse order
        let fwd : List RawOp := (body.flatten.zipIdx).flatMap (fun (n, i) => rawNode fuel (pos ++ [i]) n)
        let inner : List RawOp := if invert then fwd.reverse else fwd
        let mapped : List RawOp := inner.map (fun o =>
          { o with qubits := o.qubits.map (assocD qmap),
                   mkey := o.mkey.map (Key.mapName kmap),
                   conds := o.conds.map (fun c => { c with key := c.key.mapName kmap }),
                   inverted := o.inverted != invert })
        let hasMeas := body.flatten.any (nodeHasMeas fuel)
        let inScope (extra : List String) (iter : Nat) : List RawOp :=
          let st : Stamp := (pos, iter, (parentPath ++ extra).length)
          mapped.map (fun o => { o with scope := parentPath ++ extra ++ o.scope, stamps := st :: o.stamps,
                                        conds := o.conds.map (fun c => { c with scope := parentPath ++ extra ++ c.scope, stamps := st :: c.stamps }) })
        match repIds with
        | some ids => if hasMeas then (ids.zipIdx).flatMap (fun (r, k) => inScope [r] k)
                      else (List.range reps.natAbs).flatMap (fun k => inScope [] k)
        | none => (List.range reps.natAbs).flatMap (fun k => inScope [] k)
  def rawNode : Nat → List Nat → Node → List RawOp
    | _, _, .op id qs mk conds inv =>
      [{ id := id, qubits := qs, mkey := mk, conds := conds.map (fun (k, i) => { key := k, index := i }), inverted := inv, scope := [] }]
    -- a classically controlled sub-circuit: every operation it unrolls to carries the outer conditions first
    -- (`ClassicallyControlledOperation` merges them in front of the operation's own), written in the enclosing body
    | fuel, pos, .sub c conds =>
      (rawCO fuel pos c).map (fun o => { o with conds := conds.map (fun (k, i) => ({ key := k, index := i } : RawCond)) ++ o.conds })
end

structure FlatOp where
  id : Nat
  qubits : List Nat
  mkey : Option Key
  conds : List (Key × Int)
  inverted : Bool
  deriving DecidableEq, Repr

/-- bind a condition written in scope `scope`: innermost enclosing scope in which the key has been measured -/
def bindCond (scope : List String) (measured : List Key) (k : Key) : Key :=
  let cands := (List.range (scope.length + 1)).map (fun i => k.prefixed (scope.take (scope.length - i)))
  (cands.find? (fun c => measured.contains c)).getD k

/-- walk down the two instance chains while they agree, adding up the scopes of the shared instances in `acc` -/
def visibleAux (len : Nat) : Nat → List Stamp → List Stamp → Bool
  | _, _, [] => true                                   -- the condition stands in the body of the shared instance
  | acc, [], _ :: _ => decide (len ≤ acc)              -- measured directly in an enclosing body
  | acc, a :: as, b :: bs =>
    if a = b then visibleAux len (acc + a.2.2) as bs
    else if a.1 = b.1 then false                       -- another iteration of the same loop
    else decide (len ≤ acc)                            -- inside a sibling sub-circuit

/-- Lexical visibility, as `Circuit._with_rescoped_keys_` and `CircuitOperation._with_rescoped_keys_` implement it.
Walking through a body, every measurement key recorded by an earlier moment (directly, or anywhere inside a sub-circuit
of that moment) is a binding candidate for what follows *in that body*.  Candidates are handed down into a
sub-circuit only when their path is not longer than the path of the body the sub-circuit stands in
(`len(k.path) <= len(path)`), and the body of a loop is scoped once per iteration from what was recorded outside the
loop.  So a measurement with instance chain `m` is visible to a condition written in instance chain `c` when the condition
stands in the body of the deepest instance the two share, or when the chains part at two different sub-circuits and the
measurement's key path is no longer than the scope path of the shared instance.  That admits measurements made directly
in an enclosing body and measurements made inside earlier sibling sub-circuits which add no scope of their own; it
excludes measurements of siblings that have repetition ids or a parent path, and the other iterations of a loop. -/
def visible (mkey : Key) (m c : List Stamp) : Bool := visibleAux mkey.path.length 0 m c

/-- scoping pass over the raw stream in execution order, binding among the visible recorded measurements -/
def scopePassS : List (Key × List Stamp) → List RawOp → List FlatOp
  | _, [] => []
  | measured, o :: os =>
    let mk := o.mkey.map (fun k => k.prefixed o.scope)
    let conds := o.conds.map (fun c =>
      (bindCond c.scope ((measured.filter (fun m => visible m.1 m.2 c.stamps)).map (·.1)) c.key, c.index))
    { id := o.id, qubits := o.qubits, mkey := mk, conds := conds, inverted := o.inverted }
      :: scopePassS (measured ++ (mk.toList.map (fun k => (k, o.stamps)))) os

/-- the scoping pass when every recorded measurement is visible (a circuit without sub-circuits) -/
def scopePass : List Key → List RawOp → List FlatOp
  | _, [] => []
  | measured, o :: os =>
    let mk := o.mkey.map (fun k => k.prefixed o.scope)
    let conds := o.conds.map (fun c => (bindCond c.scope measured c.key, c.index))
    { id := o.id, qubits := o.qubits, mkey := mk, conds := conds, inverted := o.inverted }
      :: scopePass (measured ++ mk.toList) os

/-- the unrolled form of a circuit (moments of nodes, possibly containing circuit operations) -/
def unrollCircuit (fuel : Nat) (moments : List (List Node)) : List FlatOp :=
  scopePassS [] ((moments.flatten.zipIdx).flatMap (fun (n, i) => rawNode fuel [i] n))

/-- the measurement keys a circuit reports without unrolling (`_measurement_key_objs_`): body keys prefixed by
every repetition id (when used) and the parent path, names mapped -/
def coMkeys : Nat → CircOp → List Key
  | 0, _ => []
  | fuel + 1, .mk body _ _ kmap repIds parentPath =>
    let inner : List Key := (body.flatten.flatMap (fun n => match n with
      | .op _ _ mk _ _ => mk.toList
      | .sub c _ => coMkeys fuel c)).eraseDups
    let withReps := match repIds with
      | some ids => if inner.isEmpty then inner else ids.flatMap (fun r => inner.map (fun (k : Key) => k.prefixed [r]))
      | none => inner
    (withReps.map (fun (k : Key) => (k.prefixed parentPath).mapName kmap)).eraseDups

end CirqVerif.C12
