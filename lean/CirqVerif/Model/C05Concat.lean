import CirqVerif.Model.C05
/-!
Model of `Circuit.concat_ragged` (`_concat_ragged_helper`, `_overlap_collision_time`) on the abstraction of Model/C05: the overlap
is written in closed form (the implementation finds the same number by scanning inward from both ends with an early exit); the
correspondence check compares the resulting moment layout with the implementation, for every alignment and entry point.
-/
namespace CirqVerif.C05

inductive Align where | left | right | first
  deriving DecidableEq, Repr

abbrev Wire := Nat × Nat

/-- the wires `_overlap_collision_time` tracks: qubits, and measurement / control keys in one name space -/
def wires (o : Op) : List Wire := o.qubits.map (fun q => (0, q)) ++ o.mkeys.map (fun k => (1, k)) ++ o.ckeys.map (fun k => (1, k))
def mWires (m : Moment) : List Wire := m.flatMap wires

/-- index of the first moment that uses the wire -/
def firstUse : Circuit → Wire → Option Nat
  | [], _ => none
  | m :: c, w => if (mWires m).contains w then some 0 else (firstUse c w).map (· + 1)

/-- for a wire used on both sides: (moments after its last use in `c1`) + (moments before its first use in `c2`) -/
def collision (c1 c2 : Circuit) (w : Wire) : Option Nat :=
  match firstUse c1.reverse w, firstUse c2 w with
  | some d1, some d2 => some (d1 + d2)
  | _, _ => none

def alignBound (n1 n2 : Nat) : Align → Nat
  | .left => n1
  | .right => n2
  | .first => min n1 n2

/-- `_overlap_collision_time(c1, c2, align)` in closed form: how many moments the two circuits overlap -/
def overlapTime (c1 c2 : Circuit) (a : Align) : Nat :=
  ((c2.flatMap mWires).filterMap (collision c1 c2)).foldl min (alignBound c1.length c2.length a)

def pad (k : Nat) (c : Circuit) : Circuit := List.replicate k [] ++ c

/-- moment-wise union (`buf[k] + c2[k]`) -/
def overlay : Circuit → Circuit → Circuit
  | [], b => b
  | a, [] => a
  | x :: a, y :: b => (x ++ y) :: overlay a b

/-- `_concat_ragged_helper`: fold `c2` into `c1` -/
def concat2 (a : Align) (c1 c2 : Circuit) : Circuit :=
  let s := overlapTime c1 c2 a
  overlay (pad (s - c1.length) c1) (pad (c1.length - s) c2)

/-- `Circuit.concat_ragged(*circuits, align=a)` -/
def concatRagged (a : Align) : List Circuit → Circuit
  | [] => []
  | c :: rest => rest.foldl (concat2 a) c

/-- `Circuit.zip(*circuits, align=a)`: moment `k` of the result holds moment `k` of every circuit, the shorter circuits padded with
empty moments at the end (`LEFT`) or at the start (`RIGHT`, `FIRST`); ValueError when two operations of one moment share a qubit -/
def padTo (a : Align) (n : Nat) (c : Circuit) : Circuit :=
  match a with
  | .left => c ++ List.replicate (n - c.length) []
  | _ => List.replicate (n - c.length) [] ++ c

def zipCircuits (a : Align) (cs : List Circuit) : Except Err Circuit :=
  let n := (cs.map List.length).foldl max 0
  (List.range n).mapM (fun k => mkMoment ((cs.map (padTo a n)).flatMap (fun c => c[k]?.getD [])))

end CirqVerif.C05
