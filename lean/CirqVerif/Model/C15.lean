/-!
Model of `cirq.kak_canonicalize_vector` — the normalisation of the interaction coefficients (x, y, z) of
`exp(i(x·XX + y·YY + z·ZZ))` into the Weyl chamber (core Lean only, executable).

Angles are integers in a unit such that π/4 = `q` units (`q > 0` arbitrary: every rational multiple of π/4 is
representable for a suitable `q`).  The symmetry moves are those of the code: shifting one coefficient by π/2
(= 2q), negating two coefficients, swapping two coefficients; `canonical_shift`'s two while-loops compute the
unique representative in (−π/4, π/4], written here in closed form.
-/
namespace CirqVerif.C15

structure V3 where
  x : Int
  y : Int
  z : Int
  deriving DecidableEq, Repr

/-- the representative of `v` modulo π/2 in (−π/4, π/4] -/
def cshift (q v : Int) : Int := (v + q - 1) % (2 * q) - q + 1

def absI (a : Int) : Int := if a < 0 then -a else a

/-- one conditional swap of `sort()`: the coefficient of larger magnitude first -/
def cswap (a b : Int) : Int × Int := if absI a < absI b then (b, a) else (a, b)

/-- `sort()`: three conditional swaps ordering the coefficients by decreasing magnitude -/
def sort3 (v : V3) : V3 :=
  let p := cswap v.x v.y
  let r := cswap p.2 v.z
  let t := cswap p.1 r.1
  { x := t.1, y := t.2, z := r.2 }

def shift3 (q : Int) (v : V3) : V3 := { x := cshift q v.x, y := cshift q v.y, z := cshift q v.z }
/-- `if v[0] < 0: negate(0, 2)` -/
def negXZIf (v : V3) : V3 := if v.x < 0 then { x := -v.x, y := v.y, z := -v.z } else v
/-- `if v[1] < 0: negate(1, 2)` -/
def negYZIf (v : V3) : V3 := if v.y < 0 then { x := v.x, y := -v.y, z := -v.z } else v
def shiftZ (q : Int) (v : V3) : V3 := { x := v.x, y := v.y, z := cshift q v.z }
/-- `if v[0] > π/4 − atol and v[2] < 0: shift(0, −1); negate(0, 2)` (exact arithmetic: `atol = 0`) -/
def fixBoundary (q : Int) (v : V3) : V3 :=
  if v.x = q ∧ v.z < 0 then { x := -(v.x - 2 * q), y := v.y, z := -v.z } else v

/-- the whole routine -/
def canonicalize (q : Int) (v : V3) : V3 :=
  fixBoundary q (shiftZ q (negYZIf (negXZIf (sort3 (shift3 q v)))))

/-- the canonical region: 0 ≤ |z| ≤ y ≤ x ≤ π/4, and z ≥ 0 when x = π/4 -/
def Canonical (q : Int) (v : V3) : Prop :=
  absI v.z ≤ v.y ∧ v.y ≤ v.x ∧ v.x ≤ q ∧ (v.x = q → 0 ≤ v.z)

/-- the symmetry moves of the code (each preserves the two-qubit gate up to local gates and a global phase):
shifting one coefficient by a multiple of π/2, negating two coefficients, swapping two coefficients -/
inductive Move (q : Int) : V3 → V3 → Prop where
  | refl (v : V3) : Move q v v
  | shiftX (k : Int) (v w : V3) : Move q { v with x := v.x + 2 * q * k } w → Move q v w
  | shiftY (k : Int) (v w : V3) : Move q { v with y := v.y + 2 * q * k } w → Move q v w
  | shiftZ (k : Int) (v w : V3) : Move q { v with z := v.z + 2 * q * k } w → Move q v w
  | negXZ (v w : V3) : Move q { v with x := -v.x, z := -v.z } w → Move q v w
  | negYZ (v w : V3) : Move q { v with y := -v.y, z := -v.z } w → Move q v w
  | swapXY (v w : V3) : Move q { v with x := v.y, y := v.x } w → Move q v w
  | swapYZ (v w : V3) : Move q { v with y := v.z, z := v.y } w → Move q v w

end CirqVerif.C15
