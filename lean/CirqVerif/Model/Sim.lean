import CirqVerif.Base.Tensor
/-!
Executable register simulation on flat arrays (core Lean only).  The array at flat position `p`
holds the amplitude of the basis index `unflatten shape p`; each step evaluates the reference
semantics `applyOp` on the function read off the array and re-materialises it.
-/
namespace CirqVerif

section
variable {R : Type} [Add R] [Mul R] [OfNat R 0] [Inhabited R]

def shapeSize (shape : List Nat) : Nat := shape.foldr (· * ·) 1

/-- read an array as a state function -/
def stateOfArray (shape : List Nat) (arr : Array R) : State R :=
  fun idx => arr.getD (flatIndex shape idx) 0

/-- tabulate a state function over all indices of `shape` (big-endian order) -/
def materialize (shape : List Nat) (ψ : State R) : Array R :=
  Array.ofFn (n := shapeSize shape) (fun p => ψ (unflatten shape p.val))

/-- square matrix given row-major over the big-endian digits of `dims` -/
def matOfArray (dims : List Nat) (m : Array R) : Mat R :=
  let n := shapeSize dims
  fun r c => m.getD (flatIndex dims r * n + flatIndex dims c) 0

structure ArrOp (R : Type) where
  matrix : Array R
  axes : List Nat

/-- one operation on the array state -/
def stepArr (shape : List Nat) (arr : Array R) (op : ArrOp R) : Array R :=
  let dims := op.axes.map (fun a => shape.getD a 1)
  materialize shape (applyOp (matOfArray dims op.matrix) dims op.axes (stateOfArray shape arr))

def runArr (shape : List Nat) (arr : Array R) (ops : List (ArrOp R)) : Array R :=
  ops.foldl (stepArr shape) arr

end
end CirqVerif
