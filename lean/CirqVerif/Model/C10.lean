/-!
Model of `cirq/study/sweeps.py` (core Lean only, executable).  n-ary `Product`/`Zip`/`ZipLongest`/`Concat`
are folded into binary nodes by the harness (they are associative in every observable: keys, length, tuples).
Values are rationals (`Linspace` points are compared with the floats of the implementation up to rounding).
-/
namespace CirqVerif.C10

abbrev Params := List (String × Rat)

inductive Sweep where
  | unit                                                   -- UnitSweep / Product(): one empty assignment
  | empty                                                  -- Zip(): no assignments
  | points (key : String) (vals : List Rat)
  | linspace (key : String) (start stop : Rat) (length : Nat)
  | list (rs : List Params)                                -- ListSweep
  | product (a b : Sweep)
  | zip (a b : Sweep)
  | zipLongest (a b : Sweep)
  | concat (a b : Sweep)
  deriving Repr

/-- `Linspace._values` -/
def linspaceValues (start stop : Rat) (length : Nat) : List Rat :=
  if length = 1 then [start]
  else (List.range length).map (fun (i : Nat) =>
    let p : Rat := (i : Rat) / ((length : Rat) - 1)
    start * (1 - p) + stop * p)

/-- `__len__` as each class computes it -/
def len : Sweep → Nat
  | .unit => 1
  | .empty => 0
  | .points _ vs => vs.length
  | .linspace _ _ _ n => n
  | .list rs => rs.length
  | .product a b => len a * len b
  | .zip a b => min (len a) (len b)
  | .zipLongest a b => max (len a) (len b)
  | .concat a b => len a + len b

/-- repeat-last extension used by `ZipLongest.param_tuples` -/
def extendTo (n : Nat) (l : List Params) : List Params :=
  match l.getLast? with
  | some last => l ++ List.replicate (n - l.length) last
  | none => l

/-- `param_tuples()` as a list -/
def tuples : Sweep → List Params
  | .unit => [[]]
  | .empty => []
  | .points k vs => vs.map (fun v => [(k, v)])
  | .linspace k a b n => (linspaceValues a b n).map (fun v => [(k, v)])
  | .list rs => rs
  | .product a b => (tuples a).flatMap (fun x => (tuples b).map (fun y => x ++ y))
  | .zip a b => List.zipWith (· ++ ·) (tuples a) (tuples b)
  | .zipLongest a b =>
    let n := max (len a) (len b)
    (List.zipWith (· ++ ·) (extendTo n (tuples a)) (extendTo n (tuples b))).take n
  | .concat a b => tuples a ++ tuples b

def keys : Sweep → List String
  | .unit => []
  | .empty => []
  | .points k _ => [k]
  | .linspace k _ _ _ => [k]
  | .list rs => match rs with | [] => [] | r :: _ => r.map (·.1)
  | .product a b => keys a ++ keys b
  | .zip a b => keys a ++ keys b
  | .zipLongest a b => keys a ++ keys b
  | .concat a _ => keys a

inductive Err where | index | value
  deriving DecidableEq, Repr

/-- `Sweep.__getitem__(int)` -/
def getItem (s : Sweep) (i : Int) : Except Err Params :=
  let n : Int := len s
  if i < -n ∨ i ≥ n then .error .index
  else
    let j := if i < 0 then i + n else i
    match (tuples s)[j.toNat]? with
    | some p => .ok p
    | none => .error .index

/-- Python `range(n)[start:stop:step]` for a slice with explicit (possibly none) fields -/
def sliceIndices (n : Nat) (start stop : Option Int) (step : Int) : List Nat :=
  if step = 0 then []
  else
    let nI : Int := n
    let clamp (v : Int) (lo hi : Int) : Int := max lo (min hi v)
    let norm (v : Int) : Int := if v < 0 then v + nI else v
    if step > 0 then
      let s := match start with | some v => clamp (norm v) 0 nI | none => 0
      let e := match stop with | some v => clamp (norm v) 0 nI | none => nI
      (List.range n).filter (fun (k : Nat) => (k : Int) ≥ s ∧ (k : Int) < e ∧ ((k : Int) - s) % step = 0)
    else
      let s := match start with | some v => clamp (norm v) (-1) (nI - 1) | none => nI - 1
      let e := match stop with | some v => clamp (norm v) (-1) (nI - 1) | none => -1
      ((List.range n).filter (fun (k : Nat) => (k : Int) ≤ s ∧ (k : Int) > e ∧ (s - (k : Int)) % (-step) = 0)).reverse

/-- `Sweep.__getitem__(slice)`: a `ListSweep` of the selected assignments in slice order -/
def getSlice (s : Sweep) (start stop : Option Int) (step : Int) : List Params :=
  (sliceIndices (len s) start stop step).filterMap (fun k => (tuples s)[k]?)

/-- well-formedness required by the constructors: `ZipLongest` rejects empty operands -/
def WF : Sweep → Prop
  | .product a b => WF a ∧ WF b
  | .zip a b => WF a ∧ WF b
  | .zipLongest a b => WF a ∧ WF b ∧ 0 < len a ∧ 0 < len b
  | .concat a b => WF a ∧ WF b
  | _ => True

end CirqVerif.C10

/-! ### parameter resolution -/
namespace CirqVerif.C10

inductive Expr where
  | num (r : Rat)
  | sym (name : String)
  | add (a b : Expr)
  | mul (a b : Expr)
  deriving Repr, DecidableEq

abbrev Resolver := List (String × Expr)

def lookup (r : Resolver) (n : String) : Option Expr := (r.find? (·.1 == n)).map (·.2)

/-- smart constructors: constant folding (what evaluating sums / products of numbers does) -/
def mkAdd : Expr → Expr → Expr
  | .num a, .num b => .num (a + b)
  | a, b => .add a b
def mkMul : Expr → Expr → Expr
  | .num a, .num b => .num (a * b)
  | a, b => .mul a b

/-- one simultaneous substitution pass (`value_of(..., recursive=False)`) -/
def subst (r : Resolver) : Expr → Expr
  | .num q => .num q
  | .sym n => (lookup r n).getD (.sym n)
  | .add a b => mkAdd (subst r a) (subst r b)
  | .mul a b => mkMul (subst r a) (subst r b)

/-- recursive resolution (`value_of(..., recursive=True)`): a symbol bound by the resolver is replaced by
the recursive value of its binding; `visiting` are the symbols currently being expanded — meeting one of
them again is the loop the implementation reports as `RecursionError`.  `fuel` bounds the nesting depth
(the number of bindings suffices: `visiting` grows strictly). -/
def resolveRec (r : Resolver) : Nat → List String → Expr → Option Expr
  | 0, _, _ => none
  | _, _, .num q => some (.num q)
  | fuel + 1, visiting, .sym n =>
    match lookup r n with
    | none => some (.sym n)
    | some e =>
      if e == .sym n then some (.sym n)          -- bound to itself: returned unchanged
      else if visiting.contains n then none
      else resolveRec r fuel (n :: visiting) e
  | fuel + 1, visiting, .add a b => do
    let x ← resolveRec r fuel.succ visiting a
    let y ← resolveRec r fuel.succ visiting b
    pure (mkAdd x y)
  | fuel + 1, visiting, .mul a b => do
    let x ← resolveRec r fuel.succ visiting a
    let y ← resolveRec r fuel.succ visiting b
    pure (mkMul x y)
termination_by fuel _ e => (fuel, sizeOf e)

def freeSyms : Expr → List String
  | .num _ => []
  | .sym n => [n]
  | .add a b => freeSyms a ++ freeSyms b
  | .mul a b => freeSyms a ++ freeSyms b

/-- `cirq.resolve_parameters(r1, r2, recursive=False)` on resolvers: the resolver that first applies `r1`, then `r2`
(bindings of `r1` with `r2` substituted into them, then the bindings of `r2` for symbols `r1` does not bind) -/
def compose (r1 r2 : Resolver) : Resolver :=
  r1.map (fun (kv : String × Expr) => (kv.1, subst r2 kv.2)) ++ r2.filter (fun (kv : String × Expr) => (lookup r1 kv.1).isNone)

/-- numeric value under a total assignment of the remaining symbols -/
def evalAt (env : String → Rat) : Expr → Rat
  | .num q => q
  | .sym n => env n
  | .add a b => evalAt env a + evalAt env b
  | .mul a b => evalAt env a * evalAt env b

end CirqVerif.C10
