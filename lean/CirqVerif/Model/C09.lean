/-!
Models for C09 (core Lean only): the Kraus-branch selection loop of the state-vector trajectory simulator
and the index reshuffling between Choi and superoperator matrices.
-/
namespace CirqVerif.C09

/-- `StateVectorSimulationState.apply_channel`: `p = prng.random(); for index …: p -= weight; if p < 0: break`.
Returns the selected index, or `none` when the loop runs out (the code then falls back to the most likely
operator; this only happens through rounding when the weights sum to 1). -/
def selectKraus : List Rat → Rat → Nat → Option Nat
  | [], _, _ => none
  | w :: ws, p, i => if p - w < 0 then some i else selectKraus ws (p - w) (i + 1)

def cumulative : List Rat → Nat → Rat
  | _, 0 => 0
  | [], _ => 0
  | w :: ws, k + 1 => w + cumulative ws k

/-- `choi_to_superoperator` / `superoperator_to_choi` on flat row-major indices of a `d²×d²` matrix:
`reshape(d,d,d,d).transpose(0,2,1,3).reshape(d²,d²)` -/
def reshuffle (d : Nat) (m : Nat → Nat → α) : Nat → Nat → α :=
  fun r c => m ((r / d) * d + c / d) ((r % d) * d + c % d)

end CirqVerif.C09
