/-!
Transition-system models for C20 (core Lean only, executable):
* `Collector.collect_async` — the dispatch loop, driven by completion events chosen by the environment;
* the Quantum Engine stream client — request kinds, the retry table, a model server and a fault alphabet.
-/
namespace CirqVerif.C20

/-! ### Collector -/

structure Job where
  tag : Nat
  reps : Nat
  deriving DecidableEq, Repr

inductive Ev where
  | nextJob (returned : Nat)      -- `next_job()` was called and yielded this many jobs (after flattening)
  | start (tag reps : Nat)        -- `sampler.run_async` started
  | result (tag : Nat)            -- `on_job_result(job, result)`
  | halt                          -- `collect` returned
  | raised                        -- `collect` raised the job's error
  deriving DecidableEq, Repr

structure CState where
  queued : List Job := []
  running : List Job := []
  remaining : Option Int := none      -- `none` = no sample budget (np.inf)
  source : List (List Job) := []      -- what successive `next_job()` calls return; exhausted ⇒ `None`
  delivered : List Nat := []
  started : List Nat := []
  failed : Bool := false
  halted : Bool := false
  deriving Repr

def budgetLeft (s : CState) : Bool := match s.remaining with | none => true | some r => r > 0

/-- ask the collector for work when the queue is empty (`next_job()`, flattened) -/
def askWork (s : CState) : CState × List Ev :=
  if s.queued.isEmpty then
    match s.source with
    | [] => (s, [Ev.nextJob 0])
    | js :: rest => ({ s with queued := js, source := rest }, [Ev.nextJob js.length])
  else (s, [])

/-- start the job at the head of the queue -/
def startJob (s : CState) (j : Job) (q : List Job) : CState :=
  { s with queued := q, running := s.running ++ [j], started := s.started ++ [j.tag],
           remaining := s.remaining.map (fun r => r - j.reps) }

/-- "Fill up the work pool": at most `fuel` iterations (each one starts a job or stops) -/
def fill (conc : Nat) : Nat → CState → CState × List Ev
  | 0, s => (s, [])
  | fuel + 1, s =>
    if budgetLeft s && s.running.length < conc then
      match (askWork s).1.queued with
      | [] => askWork s          -- "If no jobs were given, stop asking until something completes."
      | j :: q =>
        let r := fill conc fuel (startJob (askWork s).1 j q)
        (r.1, (askWork s).2 ++ [Ev.start j.tag j.reps] ++ r.2)
    else (s, [])

/-- after filling: halt when nothing runs -/
def settle (conc : Nat) (s : CState) : CState × List Ev :=
  let r := fill conc (conc + 1) s
  if r.1.running.isEmpty then ({ r.1 with halted := true }, r.2 ++ [Ev.halt]) else r

def initC (conc : Nat) (budget : Option Int) (source : List (List Job)) : CState × List Ev :=
  settle conc { remaining := budget, source := source }

/-- a running job completes successfully (environment's choice) -/
def complete (conc : Nat) (s : CState) (tag : Nat) : Option (CState × List Ev) :=
  if s.halted || s.failed then none
  else match s.running.find? (·.tag == tag) with
    | none => none
    | some j =>
      let r := settle conc { s with running := s.running.filter (· != j), delivered := s.delivered ++ [tag] }
      some (r.1, Ev.result tag :: r.2)

/-- a running job fails: the first error surfaces, nothing more is delivered -/
def fail (s : CState) (tag : Nat) : Option (CState × List Ev) :=
  if s.halted || s.failed then none
  else match s.running.find? (·.tag == tag) with
    | none => none
    | some _ => some ({ s with failed := true }, [Ev.raised])

/-! ### Quantum Engine stream client -/

inductive Req where
  | createProgramAndJob | createJob | getResult
  deriving DecidableEq, Repr

inductive Code where
  | programDoesNotExist | programAlreadyExists | jobDoesNotExist | jobAlreadyExists | other
  deriving DecidableEq, Repr

/-- `_get_retry_request_or_raise`: the request to send next, or `none` = raise StreamError -/
def retryTable : Code → Req → Option Req
  | .programDoesNotExist, .createJob => some .createProgramAndJob
  | .programAlreadyExists, .createProgramAndJob => some .getResult
  | .jobDoesNotExist, .getResult => some .createJob
  | .jobAlreadyExists, .createProgramAndJob => some .getResult
  | .jobAlreadyExists, .createJob => some .getResult
  | _, _ => none

structure Server where
  program : Bool := false
  job : Bool := false
  jobsCreated : Nat := 0
  deriving DecidableEq, Repr

inductive Reply where
  | result
  | error (c : Code)
  deriving DecidableEq, Repr

/-- the server processes one request -/
def serve (sv : Server) : Req → Server × Reply
  | .createProgramAndJob =>
    if sv.program then (sv, .error .programAlreadyExists)
    else ({ program := true, job := true, jobsCreated := sv.jobsCreated + 1 }, .result)
  | .createJob =>
    if !sv.program then (sv, .error .programDoesNotExist)
    else if sv.job then (sv, .error .jobAlreadyExists)
    else ({ sv with job := true, jobsCreated := sv.jobsCreated + 1 }, .result)
  | .getResult =>
    if sv.job then (sv, .result) else (sv, .error .jobDoesNotExist)

inductive Fault where
  | none            -- the exchange goes through
  | breakBefore     -- retryable stream break before the server saw the request
  | breakAfter      -- retryable stream break after the server processed it (response lost)
  | fatal           -- non-retryable error
  deriving DecidableEq, Repr

inductive Outcome where
  | running (req : Req)
  | done
  | raisedStreamError
  | raisedFatal
  deriving DecidableEq, Repr

structure Client where
  server : Server
  state : Outcome
  sent : List Req := []
  deriving Repr

/-- one exchange of `_manage_execution` under a fault -/
def exchange (table : Code → Req → Option Req) (c : Client) (f : Fault) : Client :=
  match c.state with
  | .running req =>
    let c := { c with sent := c.sent ++ [req] }
    match f with
    | .fatal => { c with state := .raisedFatal }
    | .breakBefore => { c with state := .running .getResult }
    | .breakAfter => { c with server := (serve c.server req).1, state := .running .getResult }
    | .none =>
      let (sv, reply) := serve c.server req
      match reply with
      | .result => { c with server := sv, state := .done }
      | .error code =>
        match table code req with
        | some next => { c with server := sv, state := .running next }
        | none => { c with server := sv, state := .raisedStreamError }
  | _ => c

/-- a server that checks the job name before the program name: answers a create-program-and-job request for an
existing job with `jobAlreadyExists` (the other flavour of `serve`; exercises the remaining row of the retry table) -/
def serveJobFirst (sv : Server) : Req → Server × Reply
  | .createProgramAndJob => if sv.job then (sv, .error .jobAlreadyExists) else serve sv .createProgramAndJob
  | r => serve sv r

/-- `exchange` against the job-first server -/
def exchangeJobFirst (table : Code → Req → Option Req) (c : Client) (f : Fault) : Client :=
  match c.state with
  | .running req =>
    let c := { c with sent := c.sent ++ [req] }
    match f with
    | .fatal => { c with state := .raisedFatal }
    | .breakBefore => { c with state := .running .getResult }
    | .breakAfter => { c with server := (serveJobFirst c.server req).1, state := .running .getResult }
    | .none =>
      let (sv, reply) := serveJobFirst c.server req
      match reply with
      | .result => { c with server := sv, state := .done }
      | .error code =>
        match table code req with
        | some next => { c with server := sv, state := .running next }
        | none => { c with server := sv, state := .raisedStreamError }
  | _ => c

def runClient (table : Code → Req → Option Req) (sv : Server) (faults : List Fault) : Client :=
  faults.foldl (exchange table) { server := sv, state := .running .createProgramAndJob }

end CirqVerif.C20
