import CirqVerif.Base.Tensor
/-!
Model of `cirq/ops/control_values.py` and of the matrix of a controlled operation (core Lean only).
-/
namespace CirqVerif.C08
open CirqVerif

/-- `ProductOfSums`: one collection of allowed values per control qubit -/
abbrev PoS := List (List Nat)
/-- `SumOfProducts`: the allowed control tuples -/
abbrev SoP := List (List Nat)

/-- `itertools.product(*qubit_sums)` -/
def product : PoS → SoP
  | [] => [[]]
  | vs :: rest => vs.flatMap (fun v => (product rest).map (v :: ·))

/-- `ProductOfSums.expand()` -/
def expandPoS (p : PoS) : SoP := product p

/-- meaning of a product of sums: the i-th control digit is one of the i-th allowed values -/
def satPoS : PoS → List Nat → Bool
  | [], [] => true
  | vs :: rest, c :: cs => vs.contains c && satPoS rest cs
  | _, _ => false

def satSoP (s : SoP) (ctrl : List Nat) : Bool := s.contains ctrl

/-- `ProductOfSums.validate(qid_shapes)` / `SumOfProducts.validate` -/
def validatePoS (p : PoS) (shape : List Nat) : Bool :=
  (List.zip p shape).all (fun (vs, d) => vs.all (fun v => v < d))

def validateSoP (s : SoP) (shape : List Nat) : Bool :=
  s.all (fun prod => prod.length == shape.length && (List.zip prod shape).all (fun (v, d) => v < d))

/-- `a & b` on expanded forms: all concatenations -/
def andSoP (a b : SoP) : SoP := a.flatMap (fun x => b.map (x ++ ·))

section
variable {R : Type} [OfNat R 0] [OfNat R 1]

/-- matrix of a controlled operation on (controls ++ targets): the target matrix `U` on the rows whose
control digits are selected, the identity elsewhere.  `k` = number of controls. -/
def controlledMat (sat : List Nat → Bool) (k : Nat) (U : Mat R) : Mat R :=
  fun r c =>
    if sat (r.take k) then (if r.take k = c.take k then U (r.drop k) (c.drop k) else 0)
    else (if r = c then 1 else 0)

end
end CirqVerif.C08
