import CirqVerif.Model.C05
/-!
Model of `RouteCQC._get_one_and_two_qubit_ops_as_timesteps` (cirq/transformers/routing/route_circuit_cqc.py) on the operation
abstraction of Model/C05: the circuit is factored into timesteps of two-qubit operations (the skeleton the router works on) and the
one-qubit operations that go with each timestep; a timestep is written out as its one-qubit operations followed by its two-qubit ones.
-/
namespace CirqVerif.C07
open CirqVerif.C05

abbrev Wire := Nat × Nat
def wiresOf (o : Op) : List Wire := o.qubits.map (fun q => (0, q)) ++ o.mkeys.map (fun k => (1, k)) ++ o.ckeys.map (fun k => (1, k))

/-- `last_single_op_timestep.get(w, 0)` (newest entry first) -/
def lastOf (tbl : List (Wire × Nat)) (w : Wire) : Nat :=
  match tbl.find? (fun p => p.1 == w) with
  | some p => p.2
  | none => 0

structure TS where
  two : Circuit := []
  single : List (List Op) := []
  last : List (Wire × Nat) := []

def padTo (l : List (List Op)) (n : Nat) : List (List Op) := l ++ List.replicate (n - l.length) []

/-- the timestep of the next operation: where the two-qubit skeleton allows it, but not before the last one-qubit operation on any of
its wires -/
def timestepOf (s : TS) (o : Op) : Nat :=
  (wiresOf o).foldl (fun acc w => max acc (lastOf s.last w)) (earliestAvailable s.two o s.two.length)

def isTwo (o : Op) : Bool := o.qubits.length == 2

def stepTS (s : TS) (o : Op) : TS :=
  let t := timestepOf s o
  let two := padTo s.two (t + 1)
  let single := padTo s.single (t + 1)
  if isTwo o then { two := two.set t (two[t]?.getD [] ++ [o]), single := single, last := s.last }
  else { two := two, single := single.set t (single[t]?.getD [] ++ [o]), last := (wiresOf o).map (fun w => (w, t)) ++ s.last }

def runTS (ops : List Op) : TS := ops.foldl stepTS {}

/-- the timesteps assigned to the operations, in input order: (operation, timestep, is two-qubit) -/
def assign : TS → List Op → List (Op × Nat × Bool)
  | _, [] => []
  | s, o :: os => (o, timestepOf s o, isTwo o) :: assign (stepTS s o) os

/-- the order requirement between an earlier entry and a later one: strictly later than a conflicting two-qubit operation, not before a
one-qubit operation on a shared wire (within one timestep the one-qubit operations come first, in input order) -/
def Rel (e e' : Op × Nat × Bool) : Prop :=
  (e.2.2 = true → conflicts [e.1] e'.1 = true → e.2.1 < e'.2.1)
  ∧ (e.2.2 = false → (∃ w, w ∈ wiresOf e.1 ∧ w ∈ wiresOf e'.1) → e.2.1 ≤ e'.2.1)

/-- the entries of `assign` say where the operations are in the state that `runTS` builds -/
structure Placed (s : TS) (done : List (Op × Nat × Bool)) : Prop where
  two_at : ∀ a t, (a, t, true) ∈ done → ∃ m, s.two[t]? = some m ∧ a ∈ m
  single_at : ∀ a t, (a, t, false) ∈ done → ∃ m, s.single[t]? = some m ∧ a ∈ m

end CirqVerif.C07
