import CirqVerif.Base.Q8
/-!
Stabilizer tableau rows as signed Pauli operators, and the check that a tableau update rule is conjugation
by a given (exact) unitary: `U · P · U† = P'` for every row pattern.  Core Lean only.
-/
namespace CirqVerif.C13
open CirqVerif

/-- matrix of the single-qubit factor of a tableau row with bits `(x, z)` (`x ∧ z` is `Y`, as in
`CliffordTableau._row_to_dense_pauli`) -/
def pauliMat (x z : Bool) : QMat :=
  match x, z with
  | false, false => [[1, 0], [0, 1]]
  | true, false => [[0, 1], [1, 0]]
  | false, true => [[1, 0], [0, -1]]
  | true, true => [[0, -Q8.I], [Q8.I, 0]]

def kron (a b : QMat) : QMat :=
  a.flatMap (fun ra => b.map (fun rb => ra.flatMap (fun x => rb.map (fun y => x * y))))

/-- matrix of a row: sign `(-1)^r` times the tensor product of its factors -/
def rowMat (bits : List (Bool × Bool)) (r : Bool) : QMat :=
  let m := bits.foldl (fun acc (x, z) => kron acc (pauliMat x z)) [[1]]
  if r then QMat.smul (-1) m else m

structure RuleEntry where
  inBits : List (Bool × Bool)
  inR : Bool
  outBits : List (Bool × Bool)
  outR : Bool
  deriving Repr

/-- every tabulated row update is conjugation by `u` -/
def ruleIsConjugation (u : QMat) (entries : List RuleEntry) : Bool :=
  entries.all (fun e =>
    QMat.mul (QMat.mul u (rowMat e.inBits e.inR)) (QMat.dagger u) == rowMat e.outBits e.outR)

def isUnitary (u : QMat) : Bool := QMat.mul u (QMat.dagger u) == QMat.eye u.length

end CirqVerif.C13
