/-!
Pauli operators and Pauli strings with exact phases (core Lean only).

A single-qubit Pauli acts on a computational basis bit as `P|b⟩ = i^k |b'⟩`; a string acts qubit-wise.
This faithful action is the specification against which products are proved: no matrices are needed.
-/
namespace CirqVerif.Pauli

inductive P where
  | I | X | Y | Z
  deriving DecidableEq, Repr, Inhabited

/-- action on a basis bit: (power of `i`, new bit) -/
def P.act : P → Bool → Nat × Bool
  | .I, b => (0, b)
  | .X, b => (0, !b)
  | .Y, b => (if b then 3 else 1, !b)     -- Y|0⟩ = i|1⟩, Y|1⟩ = -i|0⟩
  | .Z, b => (if b then 2 else 0, b)

/-- product of two Paulis: `p · q = i^k · r` -/
def P.mul : P → P → Nat × P
  | .I, q => (0, q)
  | p, .I => (0, p)
  | .X, .X => (0, .I) | .Y, .Y => (0, .I) | .Z, .Z => (0, .I)
  | .X, .Y => (1, .Z) | .Y, .Z => (1, .X) | .Z, .X => (1, .Y)
  | .Y, .X => (3, .Z) | .Z, .Y => (3, .X) | .X, .Z => (3, .Y)

def P.commutes (p q : P) : Bool := p == .I || q == .I || p == q

/-- a Pauli string: power of `i` in front, one Pauli per qubit -/
structure PStr where
  k : Nat
  ps : List P
  deriving DecidableEq, Repr

/-- action of a string on a basis state: (power of i, new bits) -/
def actList : List P → List Bool → Nat × List Bool
  | p :: ps, b :: bs =>
    let (k1, b') := p.act b
    let (k2, bs') := actList ps bs
    (k1 + k2, b' :: bs')
  | _, bs => (0, bs)

def PStr.act (s : PStr) (bits : List Bool) : Nat × List Bool :=
  let (k, bs) := actList s.ps bits
  ((s.k + k) % 4, bs)

def mulList : List P → List P → Nat × List P
  | p :: ps, q :: qs =>
    let (k1, r) := p.mul q
    let (k2, rs) := mulList ps qs
    (k1 + k2, r :: rs)
  | _, _ => (0, [])

/-- product of two strings on the same qubits -/
def PStr.mul (s t : PStr) : PStr :=
  let (k, rs) := mulList s.ps t.ps
  { k := (s.k + t.k + k) % 4, ps := rs }

/-- two strings commute iff they anticommute on an even number of qubits -/
def commutesList (a b : List P) : Bool :=
  ((List.zip a b).filter (fun (p, q) => !p.commutes q)).length % 2 == 0

/-- Cirq integer codes: `PauliString` and `DensePauliString.pauli_mask` both use I=0, X=1, Y=2, Z=3 (the
docstring of `_vectorized_pauli_mul_phase` says "I=0, X=1, Z=2, Y=3", which is not what `pauli_mask` holds) -/
def ofStrInt : Nat → P | 1 => .X | 2 => .Y | 3 => .Z | _ => .I
def toStrInt : P → Nat | .I => 0 | .X => 1 | .Y => 2 | .Z => 3
def ofDenseInt : Nat → P | 1 => .X | 2 => .Y | 3 => .Z | _ => .I
def toDenseInt : P → Nat | .I => 0 | .X => 1 | .Y => 2 | .Z => 3

end CirqVerif.Pauli
