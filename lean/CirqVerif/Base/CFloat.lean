/-!
Complex numbers over Lean's `Float` — an *execution vehicle only* (not a lawful ring): the same
polymorphic definitions the theorems are about are run on `CFloat` to compare with the implementation's
floating-point output.  No theorem mentions `Float`.
-/
namespace CirqVerif

structure CFloat where
  re : Float
  im : Float
  deriving Inhabited

namespace CFloat
instance : Add CFloat := ⟨fun a b => ⟨a.re + b.re, a.im + b.im⟩⟩
instance : Sub CFloat := ⟨fun a b => ⟨a.re - b.re, a.im - b.im⟩⟩
instance : Neg CFloat := ⟨fun a => ⟨-a.re, -a.im⟩⟩
instance : Mul CFloat := ⟨fun a b => ⟨a.re * b.re - a.im * b.im, a.re * b.im + a.im * b.re⟩⟩
instance : OfNat CFloat 0 := ⟨⟨0, 0⟩⟩
instance : OfNat CFloat 1 := ⟨⟨1, 0⟩⟩
instance : OfNat CFloat 2 := ⟨⟨2, 0⟩⟩
def conj (a : CFloat) : CFloat := ⟨a.re, -a.im⟩
def ofReal (x : Float) : CFloat := ⟨x, 0⟩
def I : CFloat := ⟨0, 1⟩
def normSq (a : CFloat) : Float := a.re * a.re + a.im * a.im
def abs (a : CFloat) : Float := Float.sqrt a.normSq
def scale (c : Float) (a : CFloat) : CFloat := ⟨c * a.re, c * a.im⟩
def inv (a : CFloat) : CFloat := let n := a.normSq; ⟨a.re / n, -a.im / n⟩
instance : Div CFloat := ⟨fun a b => a * inv b⟩
/-- `e^{iπx}` -/
def phase (halfTurns : Float) : CFloat :=
  let t := 3.141592653589793 * halfTurns
  ⟨Float.cos t, Float.sin t⟩
/-- `e^{iθ}` -/
def cis (theta : Float) : CFloat := ⟨Float.cos theta, Float.sin theta⟩
def pi : Float := 3.141592653589793
end CFloat

end CirqVerif
