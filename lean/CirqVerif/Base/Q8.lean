/-!
`Q8 = ℚ(ζ₈)`: exact arithmetic for the entries that occur in Pauli / Clifford / Clifford+T tables and in
the eigen-projectors of the gate library (`i = ζ²`, `1/√2 = (ζ - ζ³)/2`).  Core Lean only; used for
`decide +kernel` obligations about tables extracted from the running code.
-/
namespace CirqVerif

structure Q8 where
  a : Rat  -- coefficient of 1
  b : Rat  -- coefficient of ζ
  c : Rat  -- coefficient of ζ² = i
  d : Rat  -- coefficient of ζ³
  deriving DecidableEq, Repr

namespace Q8
instance : Add Q8 := ⟨fun x y => ⟨x.a + y.a, x.b + y.b, x.c + y.c, x.d + y.d⟩⟩
instance : Sub Q8 := ⟨fun x y => ⟨x.a - y.a, x.b - y.b, x.c - y.c, x.d - y.d⟩⟩
instance : Neg Q8 := ⟨fun x => ⟨-x.a, -x.b, -x.c, -x.d⟩⟩
instance : Mul Q8 := ⟨fun x y =>
  ⟨x.a * y.a - x.b * y.d - x.c * y.c - x.d * y.b,
   x.a * y.b + x.b * y.a - x.c * y.d - x.d * y.c,
   x.a * y.c + x.b * y.b + x.c * y.a - x.d * y.d,
   x.a * y.d + x.b * y.c + x.c * y.b + x.d * y.a⟩⟩
instance : OfNat Q8 0 := ⟨⟨0, 0, 0, 0⟩⟩
instance : OfNat Q8 1 := ⟨⟨1, 0, 0, 0⟩⟩
instance : Inhabited Q8 := ⟨0⟩
def ofRat (q : Rat) : Q8 := ⟨q, 0, 0, 0⟩
def I : Q8 := ⟨0, 0, 1, 0⟩
def half : Q8 := ⟨1/2, 0, 0, 0⟩
def isq2 : Q8 := ⟨0, 1/2, 0, -1/2⟩
def zeta : Q8 := ⟨0, 1, 0, 0⟩
/-- complex conjugation: ζ ↦ ζ⁻¹ = -ζ³ -/
def conj (x : Q8) : Q8 := ⟨x.a, -x.d, -x.c, -x.b⟩
/-- `e^{iπ k/4}` -/
def zetaPow (k : Nat) : Q8 :=
  match k % 8 with
  | 0 => 1 | 1 => zeta | 2 => I | 3 => ⟨0, 0, 0, 1⟩
  | 4 => -1 | 5 => -zeta | 6 => -I | _ => ⟨0, 0, 0, -1⟩
end Q8

abbrev QMat := List (List Q8)

namespace QMat
def zero (n : Nat) : QMat := List.replicate n (List.replicate n 0)
def eye (n : Nat) : QMat := (List.range n).map (fun i => (List.range n).map (fun j => if i = j then 1 else 0))
def entry (m : QMat) (i j : Nat) : Q8 := (m.getD i []).getD j 0
def mul (a b : QMat) : QMat :=
  let n := a.length
  (List.range n).map (fun i => (List.range n).map (fun j =>
    (List.range n).foldl (fun acc k => acc + entry a i k * entry b k j) 0))
def add (a b : QMat) : QMat := List.zipWith (fun r s => List.zipWith (· + ·) r s) a b
def smul (c : Q8) (a : QMat) : QMat := a.map (fun r => r.map (c * ·))
def dagger (a : QMat) : QMat :=
  let n := a.length
  (List.range n).map (fun i => (List.range n).map (fun j => (entry a j i).conj))
end QMat

end CirqVerif
