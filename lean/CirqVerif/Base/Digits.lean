/-
Model of cirq-core/cirq/value/digits.py (core Lean only, executable).

Python integers are unbounded, so values are `Nat`/`Int`.  `digits`/`bases` are `Int` so that the
range checks (`0 <= d < b`) of the real code are modelled, not assumed.
-/
namespace CirqVerif.Digits

inductive Err where
  | lenMismatch      -- 'len(digits) != len(base)'
  | digitRange       -- 'Out of range digit'
  | inconsistent     -- 'Inconsistent digit count'
  | leftover         -- 'Out of range. ... left behind'
  | zeroDiv          -- Python ZeroDivisionError (a base of 0)
  deriving DecidableEq, Repr

/-- `big_endian_bits_to_int`: `result <<= 1; if e: result |= 1`. -/
def bitsToInt (bits : List Bool) : Nat :=
  bits.foldl (fun r b => 2 * r + (if b then 1 else 0)) 0

/-- `big_endian_int_to_bits(val, bit_count=n)` for non-negative `val`:
`[(val >> i) & 1 for i in range(n)[::-1]]`. -/
def intToBits (val : Nat) (n : Nat) : List Bool :=
  (List.range n).reverse.map (fun i => val.testBit i)

/-- the loop of `big_endian_digits_to_int` (after the length check). -/
def digitsToIntLoop : List Int → List Int → Int → Except Err Int
  | [], _, acc => .ok acc
  | _, [], acc => .ok acc           -- zip stops at the shorter list (lengths are equal when called)
  | d :: ds, b :: bs, acc =>
      if 0 ≤ d ∧ d < b then digitsToIntLoop ds bs (acc * b + d) else .error .digitRange

/-- `big_endian_digits_to_int(digits, base=bases)` with a per-digit base list. -/
def digitsToInt (digits bases : List Int) : Except Err Int :=
  if digits.length ≠ bases.length then .error .lenMismatch
  else digitsToIntLoop digits bases 0

/-- the loop of `big_endian_int_to_digits`: consumes the bases least-significant first and returns
(the digits least-significant first, what is left of `val`). Python `%` and `//` are floor division;
for `b > 0` and `val ≥ 0` they coincide with `Nat` division. -/
def intToDigitsLoop : List Nat → Nat → Except Err (List Nat × Nat)
  | [], v => .ok ([], v)
  | b :: bs, v =>
      if b = 0 then .error .zeroDiv
      else match intToDigitsLoop bs (v / b) with
        | .ok (ds, r) => .ok (v % b :: ds, r)
        | .error e => .error e

/-- `big_endian_int_to_digits(val, base=bases)` (general path, per-digit bases, `digit_count`
optional and checked against `len(base)` by the caller). -/
def intToDigits (bases : List Nat) (val : Nat) : Except Err (List Nat) :=
  match intToDigitsLoop bases.reverse val with
  | .ok (ds, r) => if r ≠ 0 then .error .leftover else .ok ds.reverse
  | .error e => .error e

/-- binary digits of `v`, most significant first, no leading zeros (`bin(v)[2:]`; `bin(0) = '0'`). -/
def binDigits (v : Nat) : List Nat :=
  if h : v = 0 then [] else binDigits (v / 2) ++ [v % 2]
decreasing_by omega

def binChars (v : Nat) : List Nat := if v = 0 then [0] else binDigits v

/-- The `digit_count and base == 2` fast path: `none` means it falls through to the general path. -/
def binFastPath (v digitCount : Nat) : Option (List Nat) :=
  if digitCount = 0 then none
  else
    let cs := binChars v
    if cs.length ≤ digitCount then some (List.replicate (digitCount - cs.length) 0 ++ cs) else none

/-- `big_endian_int_to_digits(val, digit_count=n, base=b)` with an integer base. -/
def intToDigitsUniform (v n b : Nat) : Except Err (List Nat) :=
  match (if b = 2 then binFastPath v n else none) with
  | some ds => .ok ds
  | none => intToDigits (List.replicate n b) v

end CirqVerif.Digits
