/-!
Reference semantics of applying a local operator to a register of qudits (core Lean only).

A basis index of an n-qudit register is the list of its digits, most significant (first qudit) first —
Cirq's big-endian convention.  A state is a function from indices to amplitudes; an operator on k
target axes is a function from (row digits, column digits) to entries.  Everything is polymorphic in
the scalar type: theorems are proved for every commutative ring (so for ℂ), execution uses `CFloat`.
-/
namespace CirqVerif

abbrev Idx := List Nat

section
variable {R : Type} [Add R] [Mul R] [OfNat R 0]

/-- finite sum over a list of indices -/
def sumL {α : Type} (l : List α) (f : α → R) : R := l.foldr (fun a acc => f a + acc) 0

/-- all digit lists for the given per-axis dimensions, in big-endian (lexicographic) order -/
def allIdx : List Nat → List Idx
  | [] => [[]]
  | d :: ds => (List.range d).flatMap (fun x => (allIdx ds).map (x :: ·))

/-- digits of `idx` at the listed axes -/
def getAxes (idx : Idx) (axes : List Nat) : Idx := axes.map (fun a => idx.getD a 0)

/-- overwrite the digits at the listed axes -/
def setAxes (idx : Idx) : List Nat → Idx → Idx
  | a :: as, b :: bs => setAxes (idx.set a b) as bs
  | _, _ => idx

abbrev Mat (R : Type) := Idx → Idx → R
abbrev State (R : Type) := Idx → R

/-- action of an operator `U` (on target axes `axes` of dimensions `dims`) on a state:
`(Uψ)(i) = Σ_b U(i|axes, b) · ψ(i[axes := b])` -/
def applyOp (U : Mat R) (dims axes : List Nat) (ψ : State R) : State R :=
  fun idx => sumL (allIdx dims) (fun b => U (getAxes idx axes) b * ψ (setAxes idx axes b))

/-- matrix product of two operators on the same axes -/
def matMul (dims : List Nat) (U V : Mat R) : Mat R :=
  fun r c => sumL (allIdx dims) (fun m => U r m * V m c)

/-- a circuit of local operators applied in order -/
def applyOps (ops : List (Mat R × List Nat × List Nat)) (ψ : State R) : State R :=
  ops.foldl (fun ψ op => applyOp op.1 op.2.1 op.2.2 ψ) ψ

end

/-- flat big-endian position of a digit list -/
def flatIndex : List Nat → Idx → Nat
  | d :: ds, x :: xs => x * ds.foldr (· * ·) 1 + flatIndex ds xs
  | _, _ => 0

/-- digits of a flat position (inverse of `flatIndex` on valid indices) -/
def unflatten : List Nat → Nat → Idx
  | [], _ => []
  | _ :: ds, i => let p := ds.foldr (· * ·) 1; (i / p) :: unflatten ds (i % p)

end CirqVerif
