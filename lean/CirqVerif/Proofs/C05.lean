import CirqVerif.Model.C05
/-! Lemmas about the circuit-editing model (all circuits, all op trees, all strategies). -/
namespace CirqVerif.C05

def opsOfMop : Mop → List Op
  | .op o => [o]
  | .mom m => m

def opsOfMops (mops : List Mop) : List Op := mops.flatMap opsOfMop

@[simp] theorem opsOfMops_nil : opsOfMops [] = [] := rfl
@[simp] theorem opsOfMops_cons (m : Mop) (ms : List Mop) : opsOfMops (m :: ms) = opsOfMop m ++ opsOfMops ms := by
  simp [opsOfMops]
theorem opsOfMops_append (a b : List Mop) : opsOfMops (a ++ b) = opsOfMops a ++ opsOfMops b := by
  simp [opsOfMops]

/-! ### list surgery and flatten -/

theorem flatten_listInsert (l : List (List α)) (k : Nat) (x : List α) :
    (listInsert l k x).flatten.Perm (l.flatten ++ x) := by
  unfold listInsert
  have h : l.flatten = (l.take k).flatten ++ (l.drop k).flatten := by
    rw [← List.flatten_append, List.take_append_drop]
  rw [h]
  simp only [List.flatten_append, List.flatten_cons, List.append_assoc]
  exact List.Perm.append_left _ List.perm_append_comm

theorem flatten_set_append (l : List (List α)) (p : Nat) (m : List α) (o : α) (h : l[p]? = some m) :
    (l.set p (m ++ [o])).flatten.Perm (l.flatten ++ [o]) := by
  induction l generalizing p with
  | nil => simp at h
  | cons x xs ih =>
    cases p with
    | zero =>
      simp only [List.getElem?_cons_zero, Option.some.injEq] at h
      subst h
      simp only [List.set_cons_zero, List.flatten_cons, List.append_assoc]
      exact List.Perm.append_left _ List.perm_append_comm
    | succ p =>
      simp only [List.getElem?_cons_succ] at h
      simp only [List.set_cons_succ, List.flatten_cons, List.append_assoc]
      exact List.Perm.append_left _ (ih p h)

theorem flatten_listInsert_nil (l : List (List α)) (k : Nat) :
    (listInsert l k []).flatten = l.flatten := by
  unfold listInsert
  simp only [List.flatten_append, List.flatten_cons, List.nil_append]
  rw [← List.flatten_append, List.take_append_drop]

/-! ### `Except` folds -/

theorem foldlM_except_inv {α β ε : Type} (f : β → α → Except ε β) (P : β → List α → Prop)
    (step : ∀ b a b' done, P b done → f b a = .ok b' → P b' (done ++ [a])) :
    ∀ (xs : List α) (b b' : β) (done : List α), P b done → xs.foldlM f b = .ok b' → P b' (done ++ xs) := by
  intro xs
  induction xs with
  | nil =>
    intro b b' done hP h
    simp only [List.foldlM_nil, pure, Except.pure, Except.ok.injEq] at h
    subst h; simpa using hP
  | cons x xs ih =>
    intro b b' done hP h
    simp only [List.foldlM_cons, bind, Except.bind] at h
    cases hf : f b x with
    | error e => rw [hf] at h; cases h
    | ok b1 =>
      rw [hf] at h
      have := ih b1 b' (done ++ [x]) (step b x b1 done hP hf) h
      simpa using this

end CirqVerif.C05

namespace CirqVerif.C05

theorem withOperation_ok {m m' : Moment} {o : Op} (h : withOperation m o = .ok m') :
    m' = m ++ [o] ∧ operatesOn m o.qubits = false := by
  unfold withOperation at h
  split at h
  · cases h
  · rename_i hn
    simp only [Except.ok.injEq] at h
    exact ⟨h.symm, by simpa using hn⟩


theorem determinePlacement_ops (s s1 : Loop) (mop : Mop) (p : Nat)
    (h : determinePlacement s mop = .ok (p, s1)) : allOps s1.ms = allOps s.ms := by
  unfold determinePlacement at h
  split at h
  · simp only [Except.ok.injEq, Prod.mk.injEq] at h; rw [← h.2]
  · split at h
    · simp only [Except.ok.injEq, Prod.mk.injEq] at h; rw [← h.2]
    · split at h
      · simp only [Except.ok.injEq, Prod.mk.injEq] at h; rw [← h.2]; exact flatten_listInsert_nil _ _
      · simp only [Except.ok.injEq, Prod.mk.injEq] at h; rw [← h.2]; exact flatten_listInsert_nil _ _
      · split at h
        · cases h
        · simp only [Except.ok.injEq, Prod.mk.injEq] at h; rw [← h.2]
      · simp only [Except.ok.injEq, Prod.mk.injEq] at h; rw [← h.2]
      · cases h

theorem place_ops (ms ms' : Circuit) (p : Nat) (mop : Mop) (h : place ms p mop = .ok ms') :
    (allOps ms').Perm (allOps ms ++ opsOfMop mop) := by
  unfold place at h
  cases mop with
  | mom m =>
    simp only [Except.ok.injEq] at h
    subst h
    exact flatten_listInsert ms p m
  | op o =>
    simp only at h
    split at h
    · simp only [Except.ok.injEq] at h
      subst h
      simp [allOps, opsOfMop]
    · split at h
      · rename_i m hm
        cases hw : withOperation m o with
        | error e => rw [hw] at h; cases h
        | ok m' =>
          rw [hw] at h
          simp only [Except.map, Except.ok.injEq] at h
          subst h
          obtain ⟨rfl, _⟩ := withOperation_ok hw
          exact flatten_set_append ms p m o hm
      · cases h

theorem iterate_ms (s : Loop) : (iterate s).ms = s.ms := by
  unfold iterate; split <;> rfl

/-- placing one moment-or-operation adds exactly its operations -/
theorem placeOne_conserve (s s' : Loop) (mop : Mop) (p : Nat) (h : placeOne s mop = .ok (s', p)) :
    (allOps s'.ms).Perm (allOps s.ms ++ opsOfMop mop) := by
  unfold placeOne at h
  split at h
  · cases h
  · rename_i p1 s1 hd
    split at h
    · cases h
    · rename_i ms hp
      simp only [Except.ok.injEq, Prod.mk.injEq] at h
      rw [← h.1, iterate_ms, ← determinePlacement_ops s s1 mop p1 hd]
      exact place_ops _ _ _ _ hp

theorem openBatch_ops (s : Loop) (batch : List Mop) : allOps (openBatch s batch).ms = allOps s.ms := by
  unfold openBatch
  split
  · exact flatten_listInsert_nil _ _
  · rfl

theorem insertBatch_conserve (s s' : Loop) (batch : List Mop) (h : insertBatch s batch = .ok s') :
    (allOps s'.ms).Perm (allOps s.ms ++ opsOfMops batch) := by
  unfold insertBatch at h
  split at h
  · cases h
  · rename_i sf maxP hf
    simp only [Except.ok.injEq] at h
    subst h
    have key := foldlM_except_inv batchStep
      (fun (acc : Loop × Nat) done => (allOps acc.1.ms).Perm (allOps s.ms ++ opsOfMops done))
      (by
        intro b a b' done hP hstep
        unfold batchStep at hstep
        split at hstep
        · cases hstep
        · rename_i s2 p2 hpo
          simp only [Except.ok.injEq] at hstep
          subst hstep
          have := placeOne_conserve _ _ _ _ hpo
          simp only [opsOfMops_append, opsOfMops_cons, opsOfMops_nil, List.append_nil]
          exact this.trans (by rw [← List.append_assoc]; exact List.Perm.append_right _ hP))
      batch (openBatch s batch, 0) (sf, maxP) [] (by simp [openBatch_ops]) hf
    simpa using key


/-! ### `_group_into_moment_compatible`: "the output, if flattened, will equal the input" -/

theorem groupStep_inv (acc : List (List Mop) × Batch) (mop : Mop) :
    (groupStep acc mop).1.flatten ++ (groupStep acc mop).2.items = acc.1.flatten ++ acc.2.items ++ [mop] := by
  obtain ⟨out, b⟩ := acc
  cases mop with
  | mom m =>
    simp only [groupStep]
    by_cases he : b.items.isEmpty
    · have : b.items = [] := List.isEmpty_iff.mp he
      simp [he, this]
    · simp [he]
  | op o =>
    simp only [groupStep]
    split <;> simp

theorem group_foldl_inv (mops : List Mop) (acc : List (List Mop) × Batch) :
    (mops.foldl groupStep acc).1.flatten ++ (mops.foldl groupStep acc).2.items
      = acc.1.flatten ++ acc.2.items ++ mops := by
  induction mops generalizing acc with
  | nil => simp
  | cons m ms ih => rw [List.foldl_cons, ih, groupStep_inv]; simp

theorem groupIntoMomentCompatible_flatten (mops : List Mop) :
    (groupIntoMomentCompatible mops).flatten = mops := by
  unfold groupIntoMomentCompatible
  have h := group_foldl_inv mops ([], {})
  simp only [List.flatten_nil, List.nil_append] at h
  generalize mops.foldl groupStep ([], {}) = r at h
  obtain ⟨out, b⟩ := r
  simp only at h ⊢
  by_cases he : b.items.isEmpty
  · have : b.items = [] := List.isEmpty_iff.mp he
    simp [he] ; simpa [this] using h
  · simp [he]; exact h

theorem batchesOf_flatten (cached : Bool) (st : Strategy) (mops : List Mop) :
    (batchesOf cached st mops).flatten = mops := by
  unfold batchesOf
  split
  · simp
  · split
    · induction mops with
      | nil => rfl
      | cons m ms ih => simp [ih]
    · exact groupIntoMomentCompatible_flatten mops

theorem opsOfMops_flatten (bs : List (List Mop)) :
    opsOfMops bs.flatten = (bs.map opsOfMops).flatten := by
  induction bs with
  | nil => rfl
  | cons b bs ih => simp [opsOfMops_append, ih]

/-! ### LATEST -/

theorem insertLatestOne_conserve (ms ms' : Circuit) (k : Nat) (mi mi' : Int) (mop : Mop)
    (h : insertLatestOne ms k mi mop = .ok (ms', mi')) :
    (allOps ms').Perm (allOps ms ++ opsOfMop mop) := by
  unfold insertLatestOne at h
  cases mop with
  | mom m =>
    simp only [Except.ok.injEq, Prod.mk.injEq] at h
    rw [← h.1]; exact flatten_listInsert ms k m
  | op o =>
    simp only at h
    split at h
    · simp only [Except.ok.injEq, Prod.mk.injEq] at h
      rw [← h.1]; exact flatten_listInsert ms k [o]
    · split at h
      · split at h
        · rename_i m hm
          cases hw : withOperation m o with
          | error e => rw [hw] at h; cases h
          | ok m' =>
            rw [hw] at h
            simp only [Except.map, Except.ok.injEq, Prod.mk.injEq] at h
            rw [← h.1]
            obtain ⟨rfl, _⟩ := withOperation_ok hw
            exact flatten_set_append ms _ m o hm
        · cases h
      · simp only [Except.ok.injEq, Prod.mk.injEq] at h
        rw [← h.1]; simp [allOps, opsOfMop]

theorem insertLatest_conserve (ms ms' : Circuit) (k pos : Nat) (batches : List (List Mop))
    (h : insertLatest ms k batches = .ok (ms', pos)) :
    (allOps ms').Perm (allOps ms ++ opsOfMops batches.flatten) := by
  unfold insertLatest at h
  split at h
  · cases h
  · rename_i st hf
    simp only [Except.ok.injEq, Prod.mk.injEq] at h
    have key := foldlM_except_inv (fun (st : Circuit × Int) mop => insertLatestOne st.1 k st.2 mop)
      (fun (acc : Circuit × Int) done => (allOps acc.1).Perm (allOps ms ++ opsOfMops done))
      (by
        intro b a b' done hP hstep
        have := insertLatestOne_conserve b.1 b'.1 k b.2 b'.2 a (by simpa using hstep)
        simp only [opsOfMops_append, opsOfMops_cons, opsOfMops_nil, List.append_nil]
        exact this.trans (by rw [← List.append_assoc]; exact List.Perm.append_right _ hP))
      batches.reverse.flatten (ms, -1) st [] (by simp) hf
    rw [← h.1]
    simp only [List.nil_append] at key
    refine key.trans (List.Perm.append_left _ ?_)
    -- ops of the reversed batch list are a permutation of the ops of the batch list
    rw [opsOfMops_flatten, opsOfMops_flatten, List.map_reverse]
    exact (List.reverse_perm _).flatten


/-! ### well-formedness -/

theorem disj_iff (a b : List Nat) : disj a b = true ↔ ∀ x ∈ a, x ∉ b := by
  simp [disj, List.all_eq_true]

theorem disj_comm (a b : List Nat) : disj a b = disj b a := by
  rw [Bool.eq_iff_iff, disj_iff, disj_iff]
  constructor <;> intro h x hx hb <;> exact h x hb hx

theorem disj_append_right (a b c : List Nat) : disj a (b ++ c) = (disj a b && disj a c) := by
  rw [Bool.eq_iff_iff, Bool.and_eq_true, disj_iff, disj_iff, disj_iff]
  constructor
  · intro h
    exact ⟨fun x hx hb => h x hx (List.mem_append_left _ hb), fun x hx hc => h x hx (List.mem_append_right _ hc)⟩
  · rintro ⟨h1, h2⟩ x hx hbc
    rcases List.mem_append.mp hbc with hb | hc
    · exact h1 x hx hb
    · exact h2 x hx hc

def opWF (o : Op) : Bool := o.qubits.eraseDups.length == o.qubits.length

def mopWF : Mop → Bool
  | .op o => opWF o
  | .mom m => momentWF m

theorem mQubits_append (a b : Moment) : mQubits (a ++ b) = mQubits a ++ mQubits b := by
  simp [mQubits]

theorem momentWF_append_op (m : Moment) (o : Op) (hm : momentWF m = true)
    (hd : operatesOn m o.qubits = false) (ho : opWF o = true) : momentWF (m ++ [o]) = true := by
  induction m with
  | nil => simp [momentWF, mQubits, disj, opWF] at *; exact ho
  | cons x xs ih =>
    simp only [momentWF, Bool.and_eq_true] at hm
    have hd' : disj o.qubits (mQubits (x :: xs)) = true := by
      unfold operatesOn at hd; simpa using hd
    have hq : mQubits (x :: xs) = x.qubits ++ mQubits xs := by simp [mQubits]
    rw [hq, disj_append_right, Bool.and_eq_true] at hd'
    have ih' := ih hm.2 (by unfold operatesOn; simp [hd'.2])
    simp only [List.cons_append, momentWF, Bool.and_eq_true]
    refine ⟨⟨?_, hm.1.2⟩, ih'⟩
    rw [mQubits_append, disj_append_right, Bool.and_eq_true]
    refine ⟨hm.1.1, ?_⟩
    have : mQubits [o] = o.qubits := by simp [mQubits]
    rw [this, disj_comm]; exact hd'.1

theorem circuitWF_listInsert (ms : Circuit) (k : Nat) (m : Moment) (h : circuitWF ms = true)
    (hm : momentWF m = true) : circuitWF (listInsert ms k m) = true := by
  unfold circuitWF listInsert at *
  rw [List.all_append, List.all_cons, Bool.and_eq_true, Bool.and_eq_true]
  have h' : (ms.take k ++ ms.drop k).all momentWF = true := by rw [List.take_append_drop]; exact h
  rw [List.all_append, Bool.and_eq_true] at h'
  exact ⟨h'.1, hm, h'.2⟩

theorem circuitWF_set (ms : Circuit) (p : Nat) (m : Moment) (h : circuitWF ms = true)
    (hm : momentWF m = true) : circuitWF (ms.set p m) = true := by
  unfold circuitWF at *
  rw [List.all_eq_true] at *
  intro x hx
  rcases List.mem_or_eq_of_mem_set hx with h1 | h1
  · exact h x h1
  · rw [h1]; exact hm

theorem circuitWF_getElem (ms : Circuit) (p : Nat) (m : Moment) (h : circuitWF ms = true)
    (hp : ms[p]? = some m) : momentWF m = true := by
  unfold circuitWF at h
  rw [List.all_eq_true] at h
  exact h m (List.mem_of_getElem? hp)

theorem circuitWF_append_single (ms : Circuit) (o : Op) (h : circuitWF ms = true) (ho : opWF o = true) :
    circuitWF (ms ++ [[o]]) = true := by
  unfold circuitWF at *
  rw [List.all_append, Bool.and_eq_true]
  refine ⟨h, ?_⟩
  simp [momentWF, mQubits, disj]
  simpa [opWF] using ho

theorem determinePlacement_wf (s s1 : Loop) (mop : Mop) (p : Nat)
    (h : determinePlacement s mop = .ok (p, s1)) (hwf : circuitWF s.ms = true) : circuitWF s1.ms = true := by
  unfold determinePlacement at h
  split at h
  · simp only [Except.ok.injEq, Prod.mk.injEq] at h; rw [← h.2]; exact hwf
  · split at h
    · simp only [Except.ok.injEq, Prod.mk.injEq] at h; rw [← h.2]; exact hwf
    · split at h
      · simp only [Except.ok.injEq, Prod.mk.injEq] at h; rw [← h.2]
        exact circuitWF_listInsert _ _ _ hwf rfl
      · simp only [Except.ok.injEq, Prod.mk.injEq] at h; rw [← h.2]
        exact circuitWF_listInsert _ _ _ hwf rfl
      · split at h
        · cases h
        · simp only [Except.ok.injEq, Prod.mk.injEq] at h; rw [← h.2]; exact hwf
      · simp only [Except.ok.injEq, Prod.mk.injEq] at h; rw [← h.2]; exact hwf
      · cases h

theorem place_wf (ms ms' : Circuit) (p : Nat) (mop : Mop) (h : place ms p mop = .ok ms')
    (hwf : circuitWF ms = true) (hm : mopWF mop = true) : circuitWF ms' = true := by
  unfold place at h
  cases mop with
  | mom m =>
    simp only [Except.ok.injEq] at h
    subst h
    exact circuitWF_listInsert ms p m hwf hm
  | op o =>
    simp only at h
    split at h
    · simp only [Except.ok.injEq] at h
      subst h
      exact circuitWF_append_single ms o hwf hm
    · split at h
      · rename_i m hmp
        cases hw : withOperation m o with
        | error e => rw [hw] at h; cases h
        | ok m' =>
          rw [hw] at h
          simp only [Except.map, Except.ok.injEq] at h
          subst h
          obtain ⟨rfl, hno⟩ := withOperation_ok hw
          exact circuitWF_set ms p _ hwf
            (momentWF_append_op m o (circuitWF_getElem ms p m hwf hmp) hno hm)
      · cases h

theorem placeOne_wf (s s' : Loop) (mop : Mop) (p : Nat) (h : placeOne s mop = .ok (s', p))
    (hwf : circuitWF s.ms = true) (hm : mopWF mop = true) : circuitWF s'.ms = true := by
  unfold placeOne at h
  split at h
  · cases h
  · rename_i p1 s1 hd
    split at h
    · cases h
    · rename_i ms hp
      simp only [Except.ok.injEq, Prod.mk.injEq] at h
      rw [← h.1, iterate_ms]
      exact place_wf _ _ _ _ hp (determinePlacement_wf s s1 mop p1 hd hwf) hm

theorem openBatch_wf (s : Loop) (batch : List Mop) (hwf : circuitWF s.ms = true) :
    circuitWF (openBatch s batch).ms = true := by
  unfold openBatch
  split
  · exact circuitWF_listInsert _ _ _ hwf rfl
  · exact hwf

theorem foldlM_except_inv' {α β ε : Type} (f : β → α → Except ε β) (P : β → Prop) (Q : α → Prop)
    (step : ∀ b a b', P b → Q a → f b a = .ok b' → P b') :
    ∀ (xs : List α) (b b' : β), P b → (∀ a ∈ xs, Q a) → xs.foldlM f b = .ok b' → P b' := by
  intro xs
  induction xs with
  | nil =>
    intro b b' hP _ h
    simp only [List.foldlM_nil, pure, Except.pure, Except.ok.injEq] at h
    subst h; exact hP
  | cons x xs ih =>
    intro b b' hP hQ h
    simp only [List.foldlM_cons, bind, Except.bind] at h
    cases hf : f b x with
    | error e => rw [hf] at h; cases h
    | ok b1 =>
      rw [hf] at h
      exact ih b1 b' (step b x b1 hP (hQ x (by simp)) hf) (fun a ha => hQ a (by simp [ha])) h

theorem insertBatch_wf (s s' : Loop) (batch : List Mop) (h : insertBatch s batch = .ok s')
    (hwf : circuitWF s.ms = true) (hm : ∀ mop ∈ batch, mopWF mop = true) : circuitWF s'.ms = true := by
  unfold insertBatch at h
  split at h
  · cases h
  · rename_i sf maxP hf
    simp only [Except.ok.injEq] at h
    subst h
    exact foldlM_except_inv' batchStep (fun acc => circuitWF acc.1.ms = true) (fun mop => mopWF mop = true)
      (by
        intro b a b' hP hQ hstep
        unfold batchStep at hstep
        split at hstep
        · cases hstep
        · rename_i s2 p2 hpo
          simp only [Except.ok.injEq] at hstep
          subst hstep
          exact placeOne_wf _ _ _ _ hpo hP hQ)
      batch (openBatch s batch, 0) (sf, maxP) (openBatch_wf s batch hwf) hm hf

theorem insertLatestOne_wf (ms ms' : Circuit) (k : Nat) (mi mi' : Int) (mop : Mop)
    (h : insertLatestOne ms k mi mop = .ok (ms', mi')) (hwf : circuitWF ms = true)
    (hm : mopWF mop = true) : circuitWF ms' = true := by
  unfold insertLatestOne at h
  cases mop with
  | mom m =>
    simp only [Except.ok.injEq, Prod.mk.injEq] at h
    rw [← h.1]; exact circuitWF_listInsert ms k m hwf hm
  | op o =>
    simp only at h
    split at h
    · simp only [Except.ok.injEq, Prod.mk.injEq] at h
      rw [← h.1]
      refine circuitWF_listInsert ms k [o] hwf ?_
      simp [momentWF, mQubits, disj]; simpa [opWF, mopWF] using hm
    · split at h
      · split at h
        · rename_i m hmp
          cases hw : withOperation m o with
          | error e => rw [hw] at h; cases h
          | ok m' =>
            rw [hw] at h
            simp only [Except.map, Except.ok.injEq, Prod.mk.injEq] at h
            rw [← h.1]
            obtain ⟨rfl, hno⟩ := withOperation_ok hw
            exact circuitWF_set ms _ _ hwf
              (momentWF_append_op m o (circuitWF_getElem ms _ m hwf hmp) hno hm)
        · cases h
      · simp only [Except.ok.injEq, Prod.mk.injEq] at h
        rw [← h.1]; exact circuitWF_append_single ms o hwf hm


/-! ### the other mutators preserve well-formedness -/

theorem withOperations_wf (m m' : Moment) (ops : List Op) (h : withOperations m ops = .ok m')
    (hm : momentWF m = true) (ho : ∀ o ∈ ops, opWF o = true) : momentWF m' = true := by
  induction ops generalizing m with
  | nil => simp only [withOperations, Except.ok.injEq] at h; subst h; exact hm
  | cons o os ih =>
    simp only [withOperations, bind, Except.bind] at h
    cases hw : withOperation m o with
    | error e => rw [hw] at h; cases h
    | ok m1 =>
      rw [hw] at h
      obtain ⟨rfl, hno⟩ := withOperation_ok hw
      exact ih _ h (momentWF_append_op m o hm hno (ho o (by simp))) (fun x hx => ho x (by simp [hx]))

theorem mkMoment_wf (ops : List Op) (m : Moment) (h : mkMoment ops = .ok m) (ho : ∀ o ∈ ops, opWF o = true) :
    momentWF m = true := withOperations_wf [] m ops h rfl ho

theorem momentWF_ops (m : Moment) (h : momentWF m = true) : ∀ o ∈ m, opWF o = true := by
  induction m with
  | nil => simp
  | cons x xs ih =>
    simp only [momentWF, Bool.and_eq_true] at h
    intro o ho
    rcases List.mem_cons.mp ho with rfl | ho
    · exact h.1.2
    · exact ih h.2 o ho

theorem circuitWF_mem (ms : Circuit) (h : circuitWF ms = true) : ∀ m ∈ ms, momentWF m = true := by
  unfold circuitWF at h; exact List.all_eq_true.mp h

theorem circuitWF_of_mem (ms : Circuit) (h : ∀ m ∈ ms, momentWF m = true) : circuitWF ms = true := by
  unfold circuitWF; exact List.all_eq_true.mpr h

theorem getD_wf (ms : Circuit) (j : Nat) (h : circuitWF ms = true) : momentWF (ms[j]?.getD []) = true := by
  cases hj : ms[j]? with
  | none => rfl
  | some m => exact circuitWF_mem ms h m (List.mem_of_getElem? hj)

theorem mQubits_filter_sub (m : Moment) (p : Op → Bool) : ∀ q ∈ mQubits (m.filter p), q ∈ mQubits m := by
  intro q hq
  simp only [mQubits, List.mem_flatMap, List.mem_filter] at *
  obtain ⟨o, ⟨ho, _⟩, hq⟩ := hq
  exact ⟨o, ho, hq⟩

theorem momentWF_filter (m : Moment) (p : Op → Bool) (h : momentWF m = true) : momentWF (m.filter p) = true := by
  induction m with
  | nil => rfl
  | cons x xs ih =>
    simp only [momentWF, Bool.and_eq_true] at h
    simp only [List.filter_cons]
    split
    · simp only [momentWF, Bool.and_eq_true]
      refine ⟨⟨?_, h.1.2⟩, ih h.2⟩
      rw [disj_iff] at *
      intro q hq hmem
      exact h.1.1 q hq (mQubits_filter_sub xs p q hmem)
    · exact ih h.2

theorem removeStep_wf (ms ms' : Circuit) (r : Int × Op) (h : removeStep ms r = .ok ms')
    (hwf : circuitWF ms = true) : circuitWF ms' = true := by
  unfold removeStep at h
  split at h
  · cases h
  · rename_i j _
    simp only at h
    split at h
    · cases h
    · cases hk : mkMoment (List.filter (fun x => x != r.2) (ms[j]?.getD [])) with
      | error e => rw [hk] at h; cases h
      | ok m' =>
        rw [hk] at h
        simp only [Except.map, Except.ok.injEq] at h
        subst h
        refine circuitWF_set ms j m' hwf (mkMoment_wf _ _ hk ?_)
        exact momentWF_ops _ (momentWF_filter _ _ (getD_wf ms j hwf))

theorem replaceStep_wf (ms ms' : Circuit) (r : Int × Op × Op) (h : replaceStep ms r = .ok ms')
    (hwf : circuitWF ms = true) (hn : opWF r.2.2 = true) : circuitWF ms' = true := by
  unfold replaceStep at h
  split at h
  · cases h
  · rename_i j _
    simp only at h
    split at h
    · cases h
    · cases hk : mkMoment (List.map (fun x => if (x != r.2.1) = true then x else r.2.2) (ms[j]?.getD [])) with
      | error e => rw [hk] at h; cases h
      | ok m' =>
        rw [hk] at h
        simp only [Except.map, Except.ok.injEq] at h
        subst h
        refine circuitWF_set ms j m' hwf (mkMoment_wf _ _ hk ?_)
        intro o ho
        obtain ⟨x, hx, rfl⟩ := List.mem_map.mp ho
        split
        · exact momentWF_ops _ (getD_wf ms j hwf) x hx
        · exact hn

theorem insertIntoStep_wf (ms ms' : Circuit) (r : Int × List Op) (h : insertIntoStep ms r = .ok ms')
    (hwf : circuitWF ms = true) (ho : ∀ o ∈ r.2, opWF o = true) : circuitWF ms' = true := by
  unfold insertIntoStep at h
  split at h
  · cases h
  · rename_i j _
    cases hk : withOperations (ms[j]?.getD []) r.2 with
    | error e => rw [hk] at h; cases h
    | ok m' =>
      rw [hk] at h
      simp only [Except.map, Except.ok.injEq] at h
      subst h
      exact circuitWF_set ms j m' hwf (withOperations_wf _ _ _ hk (getD_wf ms j hwf) ho)

theorem intoRangeLoop_wf (stop : Nat) (ms ms' : Circuit) (i : Nat) (ops rest : List Op)
    (h : intoRangeLoop stop ms i ops = .ok (ms', rest)) (hwf : circuitWF ms = true)
    (ho : ∀ o ∈ ops, opWF o = true) : circuitWF ms' = true ∧ ∀ o ∈ rest, opWF o = true := by
  induction ops generalizing ms i with
  | nil =>
    simp only [intoRangeLoop, Except.ok.injEq, Prod.mk.injEq] at h
    rw [← h.1, ← h.2]; exact ⟨hwf, by simp⟩
  | cons o os ih =>
    simp only [intoRangeLoop] at h
    split at h
    · simp only [Except.ok.injEq, Prod.mk.injEq] at h
      rw [← h.1, ← h.2]; exact ⟨hwf, ho⟩
    · split at h
      · rename_i m hm
        split at h
        · cases h
        · rename_i m' hw
          obtain ⟨rfl, hno⟩ := withOperation_ok hw
          exact ih _ _ h (circuitWF_set ms _ _ hwf
            (momentWF_append_op m o (circuitWF_getElem ms _ m hwf hm) hno (ho o (by simp))))
            (fun x hx => ho x (by simp [hx]))
      · cases h

theorem clear_wf (st : CState) (qs : List Nat) (idxs : List Int) (hwf : circuitWF st.moments = true) :
    circuitWF (clearOperationsTouching st qs idxs).moments = true := by
  unfold clearOperationsTouching
  simp only
  suffices h : ∀ (l : List Int) (ms : Circuit), circuitWF ms = true →
      circuitWF (l.foldl (fun (ms : Circuit) (k : Int) =>
        if 0 ≤ k ∧ k < (ms.length : Int) then
          match ms[k.toNat]? with
          | some m => ms.set k.toNat (m.filter (fun o => disj qs o.qubits))
          | none => ms
        else ms) ms) = true from h idxs st.moments hwf
  intro l
  induction l with
  | nil => intro ms h; exact h
  | cons k ks ih =>
    intro ms h
    simp only [List.foldl_cons]
    apply ih
    split
    · split
      · rename_i m hm
        exact circuitWF_set ms _ _ h (momentWF_filter m _ (circuitWF_getElem ms _ m h hm))
      · exact h
    · exact h

theorem circuitWF_sub (a b : Circuit) (h : circuitWF b = true) (hs : ∀ m ∈ a, m ∈ b) : circuitWF a = true :=
  circuitWF_of_mem a (fun m hm => circuitWF_mem b h m (hs m hm))

theorem mapM_except_mem {α β ε : Type} (f : α → Except ε β) (P : β → Prop)
    (hf : ∀ a b, f a = .ok b → P b) : ∀ (l : List α) (r : List β), l.mapM f = .ok r → ∀ b ∈ r, P b := by
  intro l
  induction l with
  | nil => intro r h; simp only [List.mapM_nil, pure, Except.pure, Except.ok.injEq] at h; subst h; simp
  | cons a as ih =>
    intro r h
    simp only [List.mapM_cons, bind, Except.bind, pure, Except.pure] at h
    cases ha : f a with
    | error e => rw [ha] at h; cases h
    | ok b =>
      rw [ha] at h
      cases hr : as.mapM f with
      | error e => rw [hr] at h; cases h
      | ok bs =>
        rw [hr] at h
        simp only [Except.ok.injEq] at h
        subst h
        intro x hx
        rcases List.mem_cons.mp hx with rfl | hx
        · exact hf a _ ha
        · exact ih bs hr x hx

theorem placeAll_mem (mops : List Mop) : ∀ p ∈ (placeAll mops).1, p.2 ∈ mops := by
  unfold placeAll
  suffices h : ∀ (l : List Mop) (acc : List (Nat × Mop) × Cache) (S : List Mop),
      (∀ p ∈ acc.1, p.2 ∈ S) → (∀ m ∈ l, m ∈ S) →
      ∀ p ∈ (l.foldl (fun (acc : List (Nat × Mop) × Cache) mop =>
        let r := acc.2.append mop
        (acc.1 ++ [(r.1, mop)], r.2)) acc).1, p.2 ∈ S from
    h mops ([], {}) mops (by simp) (fun m hm => hm)
  intro l
  induction l with
  | nil => intro acc S h _; exact h
  | cons m ms ih =>
    intro acc S h hl
    simp only [List.foldl_cons]
    apply ih
    · intro p hp
      rcases List.mem_append.mp hp with hp | hp
      · exact h p hp
      · simp only [List.mem_singleton] at hp; subst hp; exact hl m (by simp)
    · intro x hx; exact hl x (by simp [hx])

theorem buildMoment_wf (placed : List (Nat × Mop)) (i : Nat) (m : Moment)
    (h : buildMoment placed i = .ok m) (hp : ∀ p ∈ placed, mopWF p.2 = true) : momentWF m = true := by
  unfold buildMoment at h
  simp only at h
  have hops : ∀ o ∈ placed.filterMap (fun p => match p with
      | (j, .op o) => if j = i then some o else none | _ => none), opWF o = true := by
    intro o ho
    obtain ⟨p, hpm, hpo⟩ := List.mem_filterMap.mp ho
    obtain ⟨j, mop⟩ := p
    cases mop with
    | op o' =>
      simp only at hpo
      split at hpo
      · simp only [Option.some.injEq] at hpo; subst hpo; exact hp _ hpm
      · cases hpo
    | mom _ => simp at hpo
  split at h
  · rename_i m0 hlast
    refine withOperations_wf _ _ _ h ?_ hops
    have hm0 := List.mem_of_getLast? hlast
    obtain ⟨p, hpm, hpo⟩ := List.mem_filterMap.mp hm0
    obtain ⟨j, mop⟩ := p
    cases mop with
    | op _ => simp at hpo
    | mom m1 =>
      simp only at hpo
      split at hpo
      · simp only [Option.some.injEq] at hpo; subst hpo; exact hp _ hpm
      · cases hpo
  · exact mkMoment_wf _ _ h hops

theorem loadEarliest_wf (mops : List Mop) (st : CState) (h : loadEarliest mops = .ok st)
    (hm : ∀ mop ∈ mops, mopWF mop = true) : circuitWF st.moments = true := by
  unfold loadEarliest at h
  simp only at h
  split at h
  · cases h
  · rename_i ms hms
    simp only [Except.ok.injEq] at h
    subst h
    refine circuitWF_of_mem ms ?_
    exact mapM_except_mem (buildMoment (placeAll mops).1) (fun m => momentWF m = true)
      (fun a b hb => buildMoment_wf _ a b hb (fun p hp => hm _ (placeAll_mem mops p hp))) _ ms hms


theorem takeWhile_next_fails {α : Type} (p : α → Bool) (l : List α) (m : α)
    (h : l[(l.takeWhile p).length]? = some m) : p m = false := by
  induction l with
  | nil => simp at h
  | cons x xs ih =>
    by_cases hx : p x
    · rw [List.takeWhile_cons_of_pos hx] at h
      simp only [List.length_cons, List.getElem?_cons_succ] at h
      exact ih h
    · rw [List.takeWhile_cons_of_neg hx] at h
      simp only [List.length_nil, List.getElem?_cons_zero, Option.some.injEq] at h
      subst h; simpa using hx

theorem mem_takeWhile_holds {α : Type} (p : α → Bool) (l : List α) (m : α) (h : m ∈ l.takeWhile p) : p m = true := by
  have := List.all_takeWhile (p := p) (l := l)
  exact List.all_eq_true.mp this m h

end CirqVerif.C05
