import CirqVerif.Model.C05Concat
import CirqVerif.Proofs.C05
/-! helper lemmas for Props/C05Concat -/
namespace CirqVerif.C05

theorem foldl_min_le (l : List Nat) (b : Nat) : l.foldl min b ≤ b ∧ ∀ x ∈ l, l.foldl min b ≤ x := by
  induction l generalizing b with
  | nil => simp
  | cons y ys ih =>
    obtain ⟨h1, h2⟩ := ih (min b y)
    refine ⟨by simp only [List.foldl_cons]; omega, ?_⟩
    intro x hx
    simp only [List.foldl_cons]
    rcases List.mem_cons.mp hx with rfl | hx
    · omega
    · exact h2 x hx

theorem foldl_min_mem (l : List Nat) (b : Nat) : l.foldl min b = b ∨ l.foldl min b ∈ l := by
  induction l generalizing b with
  | nil => simp
  | cons y ys ih =>
    simp only [List.foldl_cons]
    rcases ih (min b y) with h | h
    · rw [h]
      by_cases hb : b ≤ y
      · left; omega
      · right; simp; left; omega
    · right; exact List.mem_cons_of_mem _ h

theorem firstUse_le (c : Circuit) (w : Wire) (j : Nat) (m : Moment) (hm : c[j]? = some m) (hw : w ∈ mWires m) :
    ∃ d, firstUse c w = some d ∧ d ≤ j := by
  induction c generalizing j with
  | nil => simp at hm
  | cons x xs ih =>
    unfold firstUse
    by_cases hx : w ∈ mWires x
    · exact ⟨0, by simp [hx], by omega⟩
    · cases j with
      | zero =>
        simp at hm; subst hm
        exact absurd hw hx
      | succ j =>
        simp at hm
        obtain ⟨d, hd, hle⟩ := ih j hm
        exact ⟨d + 1, by simp [hx, hd], by omega⟩

theorem firstUse_spec (c : Circuit) (w : Wire) (d : Nat) (h : firstUse c w = some d) :
    ∃ m, c[d]? = some m ∧ w ∈ mWires m := by
  induction c generalizing d with
  | nil => simp [firstUse] at h
  | cons x xs ih =>
    unfold firstUse at h
    by_cases hx : w ∈ mWires x
    · simp [hx] at h; subst h
      exact ⟨x, by simp, hx⟩
    · simp [hx] at h
      obtain ⟨d', hd', rfl⟩ := h
      obtain ⟨m, hm, hw⟩ := ih d' hd'
      exact ⟨m, by simpa using hm, hw⟩

/-- the overlap never exceeds what any shared wire allows … -/
theorem overlapTime_le_collision (c1 c2 : Circuit) (a : Align) (i j : Nat) (m1 m2 : Moment) (w : Wire)
    (h1 : c1[i]? = some m1) (h2 : c2[j]? = some m2) (hw1 : w ∈ mWires m1) (hw2 : w ∈ mWires m2) :
    overlapTime c1 c2 a + i + 1 ≤ c1.length + j := by
  have hi : i < c1.length := by
    rcases Nat.lt_or_ge i c1.length with h | h
    · exact h
    · rw [List.getElem?_eq_none h] at h1; cases h1
  have hr : c1.reverse[c1.length - 1 - i]? = some m1 := by
    rw [List.getElem?_reverse (by omega)]
    rw [show c1.length - 1 - (c1.length - 1 - i) = i by omega]; exact h1
  obtain ⟨d1, hd1, hle1⟩ := firstUse_le c1.reverse w _ m1 hr hw1
  obtain ⟨d2, hd2, hle2⟩ := firstUse_le c2 w j m2 h2 hw2
  have hc : collision c1 c2 w = some (d1 + d2) := by simp [collision, hd1, hd2]
  have hmem : d1 + d2 ∈ (c2.flatMap mWires).filterMap (collision c1 c2) := by
    rw [List.mem_filterMap]
    refine ⟨w, ?_, hc⟩
    rw [List.mem_flatMap]
    exact ⟨m2, List.mem_of_getElem? h2, hw2⟩
  have := (foldl_min_le _ (alignBound c1.length c2.length a)).2 _ hmem
  unfold overlapTime
  omega

/-- … and is as large as the alignment or some shared wire allows (the circuits cannot slide further) -/
theorem overlapTime_tight (c1 c2 : Circuit) (a : Align) :
    overlapTime c1 c2 a = alignBound c1.length c2.length a
    ∨ ∃ w i j m1 m2, c1[i]? = some m1 ∧ c2[j]? = some m2 ∧ w ∈ mWires m1 ∧ w ∈ mWires m2
        ∧ overlapTime c1 c2 a + i + 1 = c1.length + j := by
  unfold overlapTime
  rcases foldl_min_mem ((c2.flatMap mWires).filterMap (collision c1 c2)) (alignBound c1.length c2.length a) with h | h
  · left; exact h
  · right
    generalize List.foldl min (alignBound c1.length c2.length a) ((c2.flatMap mWires).filterMap (collision c1 c2)) = S at h ⊢
    rw [List.mem_filterMap] at h
    obtain ⟨w, _, hc⟩ := h
    unfold collision at hc
    split at hc
    · rename_i d1 d2 hd1 hd2
      obtain ⟨m1, hm1, hw1⟩ := firstUse_spec _ _ _ hd1
      obtain ⟨m2, hm2, hw2⟩ := firstUse_spec _ _ _ hd2
      have hlt : d1 < c1.length := by
        rcases Nat.lt_or_ge d1 c1.reverse.length with h | h
        · simpa using h
        · rw [List.getElem?_eq_none h] at hm1; cases hm1
      rw [List.getElem?_reverse hlt] at hm1
      refine ⟨w, c1.length - 1 - d1, d2, m1, m2, hm1, hm2, hw1, hw2, ?_⟩
      simp at hc
      omega
    · cases hc

theorem overlay_getD (a b : Circuit) (k : Nat) : (overlay a b)[k]?.getD [] = a[k]?.getD [] ++ b[k]?.getD [] := by
  induction a generalizing b k with
  | nil => simp [overlay]
  | cons x xs ih =>
    cases b with
    | nil => simp [overlay]
    | cons y ys =>
      cases k with
      | zero => simp [overlay]
      | succ k => simpa [overlay] using ih ys k

theorem overlay_length (a b : Circuit) : (overlay a b).length = max a.length b.length := by
  induction a generalizing b with
  | nil => simp [overlay]
  | cons x xs ih =>
    cases b with
    | nil => simp [overlay]
    | cons y ys => simp [overlay, ih]

theorem overlay_perm (a b : Circuit) : (allOps (overlay a b)).Perm (allOps a ++ allOps b) := by
  induction a generalizing b with
  | nil => simp [overlay, allOps]
  | cons x xs ih =>
    cases b with
    | nil => simp [overlay, allOps]
    | cons y ys =>
      have := ih ys
      simp only [overlay, allOps, List.flatten_cons, List.append_assoc] at this ⊢
      refine List.Perm.append_left x ?_
      refine (List.Perm.append_left y this).trans ?_
      rw [← List.append_assoc, ← List.append_assoc]
      exact List.Perm.append_right _ List.perm_append_comm

theorem pad_getD (k : Nat) (c : Circuit) (i : Nat) : (pad k c)[i]?.getD [] = if i < k then [] else c[i - k]?.getD [] := by
  unfold pad
  by_cases h : i < k
  · simp [h, List.getElem?_append_left]
  · have hk : (List.replicate k ([] : Moment)).length ≤ i := by simp; omega
    rw [List.getElem?_append_right hk]; simp [h]

theorem pad_allOps (k : Nat) (c : Circuit) : allOps (pad k c) = allOps c := by
  induction k with
  | zero => simp [pad]
  | succ k ih => simp [pad, allOps, List.replicate_succ] at ih ⊢

/-- where the moments of the two circuits end up -/
theorem concat2_getD (a : Align) (c1 c2 : Circuit) (k : Nat) :
    (concat2 a c1 c2)[k]?.getD [] =
      (if k < overlapTime c1 c2 a - c1.length then [] else c1[k - (overlapTime c1 c2 a - c1.length)]?.getD [])
      ++ (if k < c1.length - overlapTime c1 c2 a then [] else c2[k - (c1.length - overlapTime c1 c2 a)]?.getD []) := by
  simp only [concat2, overlay_getD, pad_getD]

theorem mem_mWires_of_qubit (m : Moment) (q : Nat) (h : q ∈ mQubits m) : ((0, q) : Wire) ∈ mWires m := by
  simp only [mQubits, List.mem_flatMap] at h
  obtain ⟨o, ho, hq⟩ := h
  simp only [mWires, List.mem_flatMap]
  exact ⟨o, ho, by simp [wires, hq]⟩

theorem momentWF_append (x y : Moment) (hx : momentWF x = true) (hy : momentWF y = true)
    (hd : ∀ q ∈ mQubits x, q ∉ mQubits y) : momentWF (x ++ y) = true := by
  induction x with
  | nil => simpa using hy
  | cons o os ih =>
    simp only [momentWF, Bool.and_eq_true] at hx
    obtain ⟨⟨h1, h2⟩, h3⟩ := hx
    have hd' : ∀ q ∈ mQubits os, q ∉ mQubits y := fun q hq => hd q (by simp [mQubits] at hq ⊢; right; exact hq)
    simp only [List.cons_append, momentWF, Bool.and_eq_true]
    refine ⟨⟨?_, h2⟩, ih h3 hd'⟩
    rw [mQubits_append, disj_append_right, Bool.and_eq_true]
    refine ⟨h1, ?_⟩
    rw [disj_iff]
    intro q hq
    exact hd q (by simp [mQubits]; left; exact hq)

theorem withOperations_eq (m m' : Moment) (ops : List Op) (h : withOperations m ops = .ok m') : m' = m ++ ops := by
  induction ops generalizing m with
  | nil => simp only [withOperations, Except.ok.injEq] at h; simp [h]
  | cons o os ih =>
    simp only [withOperations, bind, Except.bind] at h
    cases hw : withOperation m o with
    | error e => rw [hw] at h; cases h
    | ok m1 =>
      rw [hw] at h
      obtain ⟨rfl, _⟩ := withOperation_ok hw
      rw [ih _ h]; simp

theorem mapM_except_length {α β ε : Type} (f : α → Except ε β) : ∀ (l : List α) (r : List β), l.mapM f = .ok r → r.length = l.length := by
  intro l
  induction l with
  | nil => intro r h; simp only [List.mapM_nil, pure, Except.pure, Except.ok.injEq] at h; subst h; rfl
  | cons a as ih =>
    intro r h
    simp only [List.mapM_cons, bind, Except.bind, pure, Except.pure] at h
    cases ha : f a with
    | error e => rw [ha] at h; cases h
    | ok b =>
      rw [ha] at h
      cases hr : as.mapM f with
      | error e => rw [hr] at h; cases h
      | ok bs =>
        rw [hr] at h
        simp only [Except.ok.injEq] at h
        subst h
        simp [ih bs hr]

theorem flatMap_append_perm {α β : Type} (l : List α) (f g : α → List β) :
    (l.flatMap (fun x => f x ++ g x)).Perm (l.flatMap f ++ l.flatMap g) := by
  induction l with
  | nil => simp
  | cons x xs ih =>
    simp only [List.flatMap_cons]
    -- f x ++ g x ++ rest ~ f x ++ (xs.flatMap f) ++ (g x ++ xs.flatMap g)
    have h1 : (f x ++ g x ++ xs.flatMap (fun x => f x ++ g x)).Perm (f x ++ g x ++ (xs.flatMap f ++ xs.flatMap g)) :=
      List.Perm.append_left _ ih
    refine h1.trans ?_
    simp only [List.append_assoc]
    refine List.Perm.append_left _ ?_
    rw [← List.append_assoc, ← List.append_assoc]
    exact List.Perm.append_right _ List.perm_append_comm

/-- exchanging two nested concatenations permutes the result -/
theorem flatMap_swap_perm {α β γ : Type} (l : List α) (m : List β) (f : α → β → List γ) :
    (l.flatMap (fun x => m.flatMap (fun y => f x y))).Perm (m.flatMap (fun y => l.flatMap (fun x => f x y))) := by
  induction m with
  | nil => simp
  | cons y ys ih =>
    simp only [List.flatMap_cons]
    exact (flatMap_append_perm l (fun x => f x y) (fun x => ys.flatMap (fun y => f x y))).trans (List.Perm.append_left _ ih)

theorem mapM_except_eq_map {α β ε : Type} (f : α → Except ε β) (g : α → β) (hfg : ∀ a b, f a = .ok b → b = g a) :
    ∀ (l : List α) (r : List β), l.mapM f = .ok r → r = l.map g := by
  intro l
  induction l with
  | nil => intro r h; simp only [List.mapM_nil, pure, Except.pure, Except.ok.injEq] at h; subst h; rfl
  | cons a as ih =>
    intro r h
    simp only [List.mapM_cons, bind, Except.bind, pure, Except.pure] at h
    cases ha : f a with
    | error e => rw [ha] at h; cases h
    | ok b =>
      rw [ha] at h
      cases hr : as.mapM f with
      | error e => rw [hr] at h; cases h
      | ok bs =>
        rw [hr] at h
        simp only [Except.ok.injEq] at h
        subst h
        simp [hfg a b ha, ih bs hr]

theorem range_flatMap_getD (l : List (List Op)) : (List.range l.length).flatMap (fun k => l[k]?.getD []) = l.flatten := by
  induction l with
  | nil => simp
  | cons x xs ih =>
    simp only [List.length_cons, List.range_succ_eq_map, List.flatMap_cons, List.flatMap_map, List.flatten_cons]
    simp only [List.getElem?_cons_zero, Option.getD_some, List.getElem?_cons_succ]
    rw [ih]

theorem foldl_max_ge_mem (l : List Nat) (b : Nat) : b ≤ l.foldl max b ∧ ∀ x ∈ l, x ≤ l.foldl max b := by
  induction l generalizing b with
  | nil => simp
  | cons y ys ih =>
    obtain ⟨h1, h2⟩ := ih (max b y)
    simp only [List.foldl_cons]
    refine ⟨by omega, ?_⟩
    intro x hx
    rcases List.mem_cons.mp hx with rfl | hx
    · omega
    · exact h2 x hx

theorem padTo_length_eq (a : Align) (n : Nat) (c : Circuit) (h : c.length ≤ n) : (padTo a n c).length = n := by
  cases a <;> simp [padTo] <;> omega

theorem padTo_flatten (a : Align) (n : Nat) (c : Circuit) : (padTo a n c).flatten = c.flatten := by
  have hrep : ∀ k, (List.replicate k ([] : Moment)).flatten = [] := by
    intro k; induction k with
    | zero => rfl
    | succ k ih => simp [List.replicate_succ, ih]
  cases a <;> simp [padTo, hrep]

theorem flatMap_congr_mem {α β : Type} (l : List α) (f g : α → List β) (h : ∀ x ∈ l, f x = g x) : l.flatMap f = l.flatMap g := by
  induction l with
  | nil => rfl
  | cons x xs ih =>
    simp only [List.flatMap_cons]
    rw [h x (by simp), ih (fun y hy => h y (by simp [hy]))]

end CirqVerif.C05
