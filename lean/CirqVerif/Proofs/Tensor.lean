import CirqVerif.Base.Tensor
/-! Algebra of local operators on a qudit register, for every commutative ring of scalars. -/
namespace CirqVerif

section sums
variable {R : Type} [Lean.Grind.CommRing R] {α β : Type}

theorem sumL_nil (f : α → R) : sumL [] f = 0 := rfl
theorem sumL_cons (a : α) (l : List α) (f : α → R) : sumL (a :: l) f = f a + sumL l f := rfl

theorem sumL_congr (l : List α) (f g : α → R) (h : ∀ a ∈ l, f a = g a) : sumL l f = sumL l g := by
  induction l with
  | nil => rfl
  | cons x xs ih =>
    rw [sumL_cons, sumL_cons, h x (by simp), ih (fun a ha => h a (by simp [ha]))]

theorem sumL_add (l : List α) (f g : α → R) : sumL l (fun a => f a + g a) = sumL l f + sumL l g := by
  induction l with
  | nil => simp [sumL_nil]; grind
  | cons x xs ih => simp only [sumL_cons]; rw [ih]; grind

theorem sumL_zero (l : List α) : sumL l (fun _ => (0 : R)) = 0 := by
  induction l with
  | nil => rfl
  | cons x xs ih => rw [sumL_cons, ih]; grind

theorem sumL_mul_left (l : List α) (c : R) (f : α → R) : sumL l (fun a => c * f a) = c * sumL l f := by
  induction l with
  | nil => simp [sumL_nil]; grind
  | cons x xs ih => simp only [sumL_cons]; rw [ih]; grind

theorem sumL_mul_right (l : List α) (c : R) (f : α → R) : sumL l (fun a => f a * c) = sumL l f * c := by
  induction l with
  | nil => simp [sumL_nil]; grind
  | cons x xs ih => simp only [sumL_cons]; rw [ih]; grind

theorem sumL_comm (l₁ : List α) (l₂ : List β) (f : α → β → R) :
    sumL l₁ (fun a => sumL l₂ (fun b => f a b)) = sumL l₂ (fun b => sumL l₁ (fun a => f a b)) := by
  induction l₁ with
  | nil => simp [sumL_nil, sumL_zero]
  | cons x xs ih => simp only [sumL_cons]; rw [ih, sumL_add]

theorem sumL_append (l₁ l₂ : List α) (f : α → R) : sumL (l₁ ++ l₂) f = sumL l₁ f + sumL l₂ f := by
  induction l₁ with
  | nil => simp [sumL_nil]; grind
  | cons x xs ih => simp only [List.cons_append, sumL_cons, ih]; grind

theorem sumL_map (l : List β) (g : β → α) (f : α → R) : sumL (l.map g) f = sumL l (fun b => f (g b)) := by
  induction l with
  | nil => rfl
  | cons x xs ih => simp only [List.map_cons, sumL_cons, ih]

end sums

/-! ### index surgery -/

theorem allIdx_length (dims : List Nat) : ∀ b ∈ allIdx dims, b.length = dims.length := by
  induction dims with
  | nil => simp [allIdx]
  | cons d ds ih =>
    intro b hb
    simp only [allIdx, List.mem_flatMap, List.mem_map] at hb
    obtain ⟨x, _, c, hc, rfl⟩ := hb
    simp [ih c hc]

theorem setAxes_length (idx : Idx) (axes b : List Nat) : (setAxes idx axes b).length = idx.length := by
  induction axes generalizing idx b with
  | nil => simp [setAxes]
  | cons a as ih => cases b with
    | nil => simp [setAxes]
    | cons x xs => simp [setAxes, ih]

theorem setAxes_getD_of_not_mem (idx : Idx) (axes b : List Nat) (k : Nat) (hk : k ∉ axes) :
    (setAxes idx axes b).getD k 0 = idx.getD k 0 := by
  induction axes generalizing idx b with
  | nil => simp [setAxes]
  | cons a as ih => cases b with
    | nil => simp [setAxes]
    | cons x xs =>
      simp only [setAxes]
      rw [ih _ _ (fun h => hk (by simp [h]))]
      have : a ≠ k := fun h => hk (by simp [h])
      simp [List.getD_eq_getElem?_getD, List.getElem?_set_ne this]

/-- reading back the digits just written -/
theorem getAxes_setAxes_same (idx : Idx) (axes b : List Nat) (hn : axes.Nodup)
    (hlt : ∀ a ∈ axes, a < idx.length) (hl : b.length = axes.length) :
    getAxes (setAxes idx axes b) axes = b := by
  induction axes generalizing idx b with
  | nil => cases b <;> simp_all [getAxes]
  | cons a as ih => cases b with
    | nil => simp at hl
    | cons x xs =>
      have hn' := List.nodup_cons.mp hn
      simp only [setAxes, getAxes, List.map_cons]
      congr 1
      · rw [setAxes_getD_of_not_mem _ _ _ _ hn'.1]
        have : a < idx.length := hlt a (by simp)
        simp [List.getD_eq_getElem?_getD, this]
      · exact ih (idx.set a x) xs hn'.2 (fun a' ha' => by simpa using hlt a' (by simp [ha']))
          (by simpa using hl)

/-- overwriting twice keeps the last write -/
theorem setAxes_setAxes_same (idx : Idx) (axes b c : List Nat) (hn : axes.Nodup)
    (hb : b.length = axes.length) (hc : c.length = axes.length) :
    setAxes (setAxes idx axes b) axes c = setAxes idx axes c := by
  induction axes generalizing idx b c with
  | nil => simp [setAxes]
  | cons a as ih =>
    cases b with
    | nil => simp at hb
    | cons x xs => cases c with
      | nil => simp at hc
      | cons y ys =>
        have hn' := List.nodup_cons.mp hn
        simp only [setAxes]
        -- move the write at `a` inside: it commutes with writes at the other axes
        have hcomm : ∀ (idx : Idx) (as bs : List Nat) (v : Nat), a ∉ as →
            (setAxes idx as bs).set a v = setAxes (idx.set a v) as bs := by
          intro idx as
          induction as generalizing idx with
          | nil => intro bs v _; simp [setAxes]
          | cons a' as' ih' =>
            intro bs v hna
            cases bs with
            | nil => simp [setAxes]
            | cons z zs =>
              simp only [setAxes]
              rw [ih' _ _ _ (fun h => hna (by simp [h]))]
              have : a' ≠ a := fun h => hna (by simp [h])
              rw [List.set_comm _ _ this]
        rw [hcomm _ _ _ _ hn'.1, List.set_set]
        exact ih _ xs ys hn'.2 (by simpa using hb) (by simpa using hc)

theorem getAxes_setAxes_disjoint (idx : Idx) (A B c : List Nat) (hd : ∀ a ∈ A, a ∉ B) :
    getAxes (setAxes idx B c) A = getAxes idx A := by
  unfold getAxes
  apply List.map_congr_left
  intro a ha
  exact setAxes_getD_of_not_mem idx B c a (hd a ha)

theorem set_setAxes_comm (idx : Idx) (as bs : List Nat) (a v : Nat) (h : a ∉ as) :
    (setAxes idx as bs).set a v = setAxes (idx.set a v) as bs := by
  induction as generalizing idx bs with
  | nil => simp [setAxes]
  | cons a' as' ih =>
    cases bs with
    | nil => simp [setAxes]
    | cons z zs =>
      simp only [setAxes]
      rw [ih _ _ (fun h' => h (by simp [h']))]
      have : a' ≠ a := fun h' => h (by simp [h'])
      rw [List.set_comm _ _ this]

/-- writes on disjoint axis sets commute -/
theorem setAxes_comm (idx : Idx) (A B b c : List Nat) (hd : ∀ a ∈ A, a ∉ B) :
    setAxes (setAxes idx A b) B c = setAxes (setAxes idx B c) A b := by
  induction A generalizing idx b with
  | nil => simp [setAxes]
  | cons a as ih =>
    cases b with
    | nil => simp [setAxes]
    | cons x xs =>
      simp only [setAxes]
      rw [ih _ _ (fun a' ha' => hd a' (by simp [ha'])), set_setAxes_comm _ _ _ _ _ (hd a (by simp))]

/-! ### the two structural laws of local operators -/

section laws
variable {R : Type} [Lean.Grind.CommRing R]

/-- **Functoriality**: applying `V` and then `U` on the same axes is applying the matrix product `U·V`. -/
theorem applyOp_comp (U V : Mat R) (dims axes : List Nat) (ψ : State R) (idx : Idx)
    (hn : axes.Nodup) (hlt : ∀ a ∈ axes, a < idx.length) (hl : dims.length = axes.length) :
    applyOp U dims axes (applyOp V dims axes ψ) idx = applyOp (matMul dims U V) dims axes ψ idx := by
  unfold applyOp matMul
  have step1 : sumL (allIdx dims) (fun b => U (getAxes idx axes) b *
        sumL (allIdx dims) (fun c => V (getAxes (setAxes idx axes b) axes) c * ψ (setAxes (setAxes idx axes b) axes c)))
      = sumL (allIdx dims) (fun b => sumL (allIdx dims) (fun c =>
          U (getAxes idx axes) b * V b c * ψ (setAxes idx axes c))) := by
    apply sumL_congr
    intro b hb
    have hbl : b.length = axes.length := by rw [allIdx_length dims b hb, hl]
    rw [← sumL_mul_left]
    apply sumL_congr
    intro c hc
    have hcl : c.length = axes.length := by rw [allIdx_length dims c hc, hl]
    rw [getAxes_setAxes_same idx axes b hn hlt hbl, setAxes_setAxes_same idx axes b c hn hbl hcl]
    grind
  rw [step1, sumL_comm]
  apply sumL_congr
  intro c _
  rw [← sumL_mul_right]

/-- **Locality**: operators on disjoint sets of axes commute. -/
theorem applyOp_comm (U V : Mat R) (dU aU dV aV : List Nat) (ψ : State R) (idx : Idx)
    (hd : ∀ a ∈ aU, a ∉ aV) :
    applyOp U dU aU (applyOp V dV aV ψ) idx = applyOp V dV aV (applyOp U dU aU ψ) idx := by
  unfold applyOp
  have hd' : ∀ a ∈ aV, a ∉ aU := fun a ha hu => hd a hu ha
  have lhs : sumL (allIdx dU) (fun b => U (getAxes idx aU) b *
        sumL (allIdx dV) (fun c => V (getAxes (setAxes idx aU b) aV) c * ψ (setAxes (setAxes idx aU b) aV c)))
      = sumL (allIdx dU) (fun b => sumL (allIdx dV) (fun c =>
          U (getAxes idx aU) b * V (getAxes idx aV) c * ψ (setAxes (setAxes idx aU b) aV c))) := by
    apply sumL_congr
    intro b _
    rw [← sumL_mul_left]
    apply sumL_congr
    intro c _
    rw [getAxes_setAxes_disjoint idx aV aU b hd']
    grind
  have rhs : sumL (allIdx dV) (fun c => V (getAxes idx aV) c *
        sumL (allIdx dU) (fun b => U (getAxes (setAxes idx aV c) aU) b * ψ (setAxes (setAxes idx aV c) aU b)))
      = sumL (allIdx dV) (fun c => sumL (allIdx dU) (fun b =>
          U (getAxes idx aU) b * V (getAxes idx aV) c * ψ (setAxes (setAxes idx aU b) aV c))) := by
    apply sumL_congr
    intro c _
    rw [← sumL_mul_left]
    apply sumL_congr
    intro b _
    rw [getAxes_setAxes_disjoint idx aU aV c hd, setAxes_comm idx aU aV b c hd]
    grind
  rw [lhs, rhs, sumL_comm]

/-- linearity of a local operator in the state -/
theorem applyOp_add (U : Mat R) (dims axes : List Nat) (ψ φ : State R) (idx : Idx) :
    applyOp U dims axes (fun i => ψ i + φ i) idx = applyOp U dims axes ψ idx + applyOp U dims axes φ idx := by
  unfold applyOp
  rw [← sumL_add]
  apply sumL_congr
  intro b _
  grind

theorem applyOp_smul (U : Mat R) (dims axes : List Nat) (c : R) (ψ : State R) (idx : Idx) :
    applyOp U dims axes (fun i => c * ψ i) idx = c * applyOp U dims axes ψ idx := by
  unfold applyOp
  rw [← sumL_mul_left]
  apply sumL_congr
  intro b _
  grind

end laws
end CirqVerif
